#!/bin/bash
# every patch under /verif/benign is behaviour-preserving: any FAIL is a false alarm
for f in /verif/benign/*/P*.diff; do
  out=$(/verif/tools/try_patch.sh $f all 2>&1 | grep '^FAIL' | awk '{print $2}' | sort | uniq -c | tr '\n' ' ')
  echo "$(basename $(dirname $f))/$(basename $f .diff): $out"
done
