#!/usr/bin/env python3
# usage: import_mutants.py <out-prefix e.g. /tmp/wt/out/J> <letterA> <letterB> <round text> [ids...]
# validates each delivered change (tools/validate_mutant.sh) and stores the valid ones as seeded/Cxx-<letter>
import json, os, subprocess, sys, shutil
prefix, la, lb, rnd = sys.argv[1:5]
only = sys.argv[5:]
head = subprocess.run(['git','-C','/repo','rev-parse','--short','HEAD'],capture_output=True,text=True).stdout.strip()
for n in range(1, 21):
    tag = '%02d' % n
    if only and tag not in only: continue
    for sub, letter in (('A', la), ('B', lb)):
        src = '%s%s/%s' % (prefix, tag, sub)
        if not os.path.exists(src + '/patch.diff'):
            print('MISSING', src); continue
        dst = '/verif/seeded/C%s-%s' % (tag, letter)
        if os.path.exists(dst):
            print('EXISTS', dst); continue
        r = subprocess.run(['/verif/tools/validate_mutant.sh', src], capture_output=True, text=True).stdout.strip()
        res = r.split(':')[-1].strip()
        ok = res == 'suite-pass demo-fails-with-mutant demo-passes-clean'
        print(src, '->', res)
        if not ok: continue
        os.makedirs(dst)
        shutil.copy(src + '/patch.diff', dst + '/patch.diff')
        shutil.copy(src + '/demo_test.go', dst + '/demo_test.go')
        readme = open(src + '/README.txt').read() if os.path.exists(src + '/README.txt') else ''
        place = open(src + '/demo_test.go').readline().strip()
        meta = {"property": 'C' + tag,
                "origin": "%s: written by an independent sub-agent that saw only the property text, one-line summaries of the earlier changes for this property (to avoid repeats) and a scratch worktree of /repo (HEAD %s); nothing from /verif" % (rnd, head),
                "demo_placement": place,
                "needs_to_manifest_and_effect": readme.strip(),
                "validated_by": "scratch copy of /repo; patch applies; go build ./... ok; full unedited suite passes with the patch; demo test fails with the patch and passes without it",
                "validation_result": res,
                "detected_by": "see DESIGN.md section 17"}
        json.dump(meta, open(dst + '/meta.json', 'w'), indent=1)
