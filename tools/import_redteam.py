#!/usr/bin/env python3
# usage: import_redteam.py <dir with <ID>-<k>/ subdirs>  — validates white-box findings and stores them under /verif/redteam
import json, os, subprocess, sys, shutil, glob
src = sys.argv[1]
tag = sys.argv[2] if len(sys.argv) > 2 else ''  # e.g. 'r2': stored as <ID>-r2-<k>
head = subprocess.run(['git','-C','/repo','rev-parse','--short','HEAD'],capture_output=True,text=True).stdout.strip()
for d in sorted(glob.glob(src + '/C[0-9][0-9]-[0-9]*')):
    name = os.path.basename(d)
    if tag:
        pid, rest = name.split('-', 1)
        name = pid + '-' + tag + '-' + rest
    if not os.path.exists(d + '/patch.diff') or not os.path.exists(d + '/demo_test.go'):
        print('INCOMPLETE', d); continue
    dst = '/verif/redteam/' + name
    if os.path.exists(dst):
        print('EXISTS', dst); continue
    r = subprocess.run(['/verif/tools/validate_mutant.sh', d], capture_output=True, text=True).stdout.strip()
    res = r.split(':')[-1].strip()
    print(name, '->', res)
    if res != 'suite-pass demo-fails-with-mutant demo-passes-clean':
        continue
    os.makedirs(dst)
    shutil.copy(d + '/patch.diff', dst + '/patch.diff')
    shutil.copy(d + '/demo_test.go', dst + '/demo_test.go')
    readme = open(d + '/README.txt').read() if os.path.exists(d + '/README.txt') else ''
    meta = {"property": name.split('-')[0],
            "origin": "white-box red team: written by a sub-agent that read the analyser's source (/verif/pslint, DESIGN.md) and looked for changes the analyser would miss; scratch worktree of /repo (HEAD %s)" % head,
            "demo_placement": open(d + '/demo_test.go').readline().strip(),
            "finding": readme.strip(),
            "validation_result": res}
    json.dump(meta, open(dst + '/meta.json', 'w'), indent=1)
