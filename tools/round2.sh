#!/bin/bash
# usage: round2.sh D07 ...  — validate + analyse round-2 mutants under their own property
for d in "$@"; do
  n=${d#D}; prop=C$n
  for v in A B; do
    m=/tmp/wt/out/$d/$v
    [ -f $m/patch.diff ] || continue
    val=$(/verif/tools/validate_mutant.sh $m 2>&1 | tail -1 | sed 's#.*: ##')
    out=$(/verif/tools/try_patch.sh $m/patch.diff $prop 2>&1)
    rules=$(echo "$out" | grep '^FAIL' | awk '{print $2}' | sort -u | tr '\n' ' ')
    echo "$d-$v [$val] rules=[$rules]"
  done
done
