#!/bin/bash
# usage: cross_one.sh <benign.diff> <seeded dir>  — refactor first, then break: is the break still reported?
set -u
export GOFLAGS=-mod=mod GOPROXY=off GOSUMDB=off GOTOOLCHAIN=local; unset GOWORK
b=$(realpath "$1"); sd=$(realpath "$2"); id=$(basename $sd); prop=${id%%-*}
d=$(mktemp -d /tmp/pscross.XXXXXX)
rsync -a --exclude .git /repo/ $d/
(cd $d && patch -p1 -s < "$b" >/dev/null 2>&1) || { rm -rf $d; exit 0; }
(cd $d && patch -p1 -s --no-backup-if-mismatch -F0 < "$sd/patch.diff" >/dev/null 2>&1) || { rm -rf $d; echo "SKIP $(basename $(dirname $b))/$(basename $b .diff) + $id (does not apply)"; exit 0; }
(cd $d && go build ./... >/dev/null 2>&1) || { rm -rf $d; echo "SKIP $(basename $(dirname $b))/$(basename $b .diff) + $id (does not build)"; exit 0; }
n=$(${PSLINT:-/verif/bin/pslint} -prop $prop -root $d -no-evidence 2>&1 | grep -c '^FAIL')
echo "CROSS $(basename $(dirname $b))/$(basename $b .diff) + $id fails=$n"
rm -rf $d
