#!/bin/bash
# usage: rebase_patch.sh <patch.diff> <old-tree-dir> <new-tree-dir>
# Re-expresses a patch made against the old tree as a patch against the new tree (3-way merge per
# file). Prints the new patch on stdout; exit 1 on a conflict.
set -u
patch=$(realpath "$1"); old=$(realpath "$2"); new=$(realpath "$3")
w=$(mktemp -d /tmp/rebase.XXXXXX)
rsync -a --exclude .git "$old/" $w/ours/
(cd $w/ours && patch -p1 -s < "$patch") || { echo "does not apply to the old tree" >&2; rm -rf $w; exit 2; }
rsync -a --exclude .git "$new/" $w/merged/
rc=0
files=$( (cd $w/ours && diff -rq "$old" . 2>/dev/null | grep -v '\.git' ) | sed -n 's/^Files .* and \.\/\(.*\) differ$/\1/p; s/^Only in \.\(.*\): \(.*\)$/\1\/\2/p' | sed 's#^/##')
for f in $files; do
  if [ -f "$old/$f" ] && [ -f "$new/$f" ]; then
    cp $w/ours/$f $w/m.tmp
    git merge-file -q $w/m.tmp "$old/$f" "$new/$f" || rc=1
    cp $w/m.tmp $w/merged/$f
  else
    mkdir -p $(dirname $w/merged/$f); cp $w/ours/$f $w/merged/$f
  fi
done
(cd $w && diff -urN "$new" merged | grep -v '^diff -urN' | sed "s#^--- $new/#--- a/#; s#^+++ merged/#+++ b/#" | sed 's/\t[0-9][0-9][0-9][0-9]-[0-9][0-9]-[0-9][0-9] .*$//')
rm -rf $w
exit $rc
