#!/usr/bin/env python3
# usage: addrule.py <file> <prop> <rule>...   — append rule ids to a property's rule list
import sys
def addrule(path, prop, rules):
    s=open(path).read()
    i=s.index('property("%s"'%prop)
    depth=0;k=i
    while True:
        ch=s[k]
        if ch=='"':
            k+=1
            while s[k]!='"':
                if s[k]=='\\': k+=1
                k+=1
        elif ch=='`':
            k+=1
            while s[k]!='`': k+=1
        elif ch=='(' : depth+=1
        elif ch==')':
            depth-=1
            if depth==0: break
        k+=1
    seg=s[i:k]
    add=''.join(', "%s"'%r for r in rules if '"%s"'%r not in seg)
    s=s[:k]+add+s[k:]
    open(path,'w').write(s)
addrule(sys.argv[1], sys.argv[2], sys.argv[3:])
