#!/bin/bash
# usage: try_patch.sh <patch.diff> [prop|all]  — analyse a scratch copy of /repo with the patch applied
set -u
export GOFLAGS=-mod=mod GOPROXY=off GOSUMDB=off GOTOOLCHAIN=local; unset GOWORK
patch=$(realpath "$1"); prop=${2:-all}
d=$(mktemp -d /tmp/pstry.XXXXXX)
rsync -a --exclude .git /repo/ $d/
if ! (cd $d && patch -p1 -s < "$patch"); then echo "PATCH-FAILED $patch"; rm -rf $d; exit 3; fi
${PSLINT:-/verif/bin/pslint} -prop $prop -root $d -no-evidence | sed "s#$d/##g" | grep -v ' 0 not discharged'
rc=${PIPESTATUS[0]}
rm -rf $d
exit $rc
