#!/bin/bash
# full regression of the analyser: clean tree (quick), positive controls (thorough), every seeded
# breaking change under its own property, every behaviour-preserving patch under all properties.
# usage: tools/regress.sh [outdir]   (uses a private copy of bin/pslint so that rebuilding meanwhile is harmless)
out=${1:-/tmp/psregress}; mkdir -p $out
find /root/.cache/go-build -type f -mmin +90 -delete 2>/dev/null  # scratch builds fill the build cache (135 GB once): keep it trimmed
cp /verif/bin/pslint $out/pslint; export PSLINT=$out/pslint
for p in $(seq -w 1 20); do $PSLINT -prop C$p -tier thorough -no-evidence; done 2>&1 | grep -v ' 0 not discharged\| 0 missed, 0 skipped' > $out/clean.txt
/verif/tools/try_all_seeded.sh own > $out/seeded.txt 2>&1
/verif/tools/try_benign.sh > $out/benign.txt 2>&1
echo "clean/controls: $(wc -l < $out/clean.txt) lines (want 0)"
echo "seeded undetected: $(grep -c 'fails=0' $out/seeded.txt) of $(wc -l < $out/seeded.txt)"
echo "benign alarming: $(grep -vc ': $' $out/benign.txt) of $(wc -l < $out/benign.txt)"
