#!/bin/bash
# runs every seeded change through the analyser (own property by default, or all)
mode=${1:-own}
for d in /verif/seeded/*/; do
  id=$(basename $d); prop=${id%%-*}
  p=$prop; [ "$mode" = all ] && p=all
  out=$(/verif/tools/try_patch.sh $d/patch.diff $p 2>&1)
  n=$(echo "$out" | grep -c '^FAIL')
  rules=$(echo "$out" | grep '^FAIL' | awk '{print $2}' | sort -u | tr '\n' ' ')
  echo "$id fails=$n rules=[$rules]"
done
