#!/usr/bin/env python3
"""Operator-mutation sweep used to look for blind spots of pslint (not a check: nothing in MANIFEST runs it).

For every single-token mutant of the non-test Go sources of /repo (relational and logical operators,
small constants, booleans, ++/--, a dropped `!`): build it; run poryscript's own suite; if the suite
still passes, run `pslint -prop all` on it.  Mutants that survive the suite AND pslint are written to
<out>/survivors.txt for review (they are either equivalent mutants or behaviour changes no rule sees).

usage: mutsweep.py <outdir> [jobs] [file-substring]
"""
import os, re, subprocess, sys, shutil, tempfile, json
from concurrent.futures import ThreadPoolExecutor

ENV = dict(os.environ, GOFLAGS='-mod=mod', GOPROXY='off', GOSUMDB='off', GOTOOLCHAIN='local')
ENV.pop('GOWORK', None)
REPO = '/repo'
out = sys.argv[1]
jobs = int(sys.argv[2]) if len(sys.argv) > 2 else 6
only = sys.argv[3] if len(sys.argv) > 3 else ''
os.makedirs(out, exist_ok=True)

RULES = [
    (r' < ', ' <= '), (r' <= ', ' < '), (r' > ', ' >= '), (r' >= ', ' > '),
    (r' == ', ' != '), (r' != ', ' == '), (r' && ', ' || '), (r' \|\| ', ' && '),
    (r'\+\+', '--'), (r'--', '++'), (r' \+ 1\b', ''), (r' - 1\b', ''), (r' \+ 1\b', ' + 2'), (r' - 1\b', ' - 2'),
    (r'\btrue\b', 'false'), (r'\bfalse\b', 'true'),
    (r'(?<![\w.])0(?![\w.])', '1'), (r'(?<![\w.])1(?![\w.])', '0'), (r'(?<![\w.])1(?![\w.])', '2'),
    (r'(?<=[( ])!(?=[\w(])', ''),
    (r'\[1:\]', '[0:]'), (r'\[:len\((\w+)\)-1\]', r'[:len(\1)]'),
    (r' \+ ', ' - '), (r' - ', ' + '),
]

files = []
for root, _, fs in os.walk(REPO):
    if '.git' in root:
        continue
    for f in fs:
        if f.endswith('.go') and not f.endswith('_test.go'):
            p = os.path.relpath(os.path.join(root, f), REPO)
            if only in p:
                files.append(p)
files.sort()

mutants = []
for f in files:
    lines = open(os.path.join(REPO, f)).read().split('\n')
    instr = False
    for i, line in enumerate(lines):
        s = line.strip()
        if s.startswith('//') or not s:
            continue
        # leave string literals alone: mask them
        masked = re.sub(r'"(\\.|[^"\\])*"|`[^`]*`|\'(\\.|[^\'\\])*\'', lambda m: '\x00' * len(m.group(0)), line)
        code = masked.split('//')[0]
        for pat, rep in RULES:
            for m in re.finditer(pat, code):
                new = line[:m.start()] + m.expand(rep) + line[m.end():]
                if new != line:
                    mutants.append((f, i, line, new))

if os.environ.get('MODE') == 'del':
    # statement deletion: simple one-line statements (assignments, calls, ++/--, continue/break, returns are left alone)
    mutants = []
    for f in files:
        lines = open(os.path.join(REPO, f)).read().split('\n')
        for i, line in enumerate(lines):
            s_ = line.strip()
            if not s_ or s_.startswith('//') or s_.endswith('{') or s_.endswith('(') or s_.endswith(',') or s_ in ('}', ')', '})'):
                continue
            if s_.startswith(('return', 'func ', 'case ', 'default:', 'var ', 'type ', 'import', 'package', '}', 'if ', 'for ', 'switch ', 'else')):
                continue
            if re.match(r'^[\w.\[\]\*, ]+ (=|\+=|-=) .+$', s_) or re.match(r'^[\w.\[\]]+(\+\+|--)$', s_) or re.match(r'^[\w.]+\(.*\)$', s_) or s_ in ('continue', 'break'):
                indent = line[:len(line) - len(line.lstrip())]
                mutants.append((f, i, line, indent + '// deleted'))
if os.environ.get('MODE') == 'cond':
    # condition forcing: `if c {` -> `if true {` / `if false {` (also `} else if c {`), and dropping one operand of && / ||
    mutants = []
    for f in files:
        lines = open(os.path.join(REPO, f)).read().split('\n')
        for i, line in enumerate(lines):
            m = re.match(r'^(\s*(?:\} else )?if )(.*)( \{)$', line)
            if not m:
                continue
            pre, cond, post = m.groups()
            init = ''
            if '; ' in cond:
                init, cond = cond.rsplit('; ', 1)
                init += '; '
            for forced in ('true', 'false'):
                mutants.append((f, i, line, pre + init + forced + post))
            for op in (' && ', ' || '):
                parts = cond.split(op)
                if len(parts) >= 2 and '(' not in cond.replace('()', ''):
                    for k in range(len(parts)):
                        rest = parts[:k] + parts[k+1:]
                        mutants.append((f, i, line, pre + init + op.join(rest) + post))
if os.environ.get('MODE') == 'swap':
    # same-typed sibling swaps: one occurrence of a name replaced by a sibling of the same type
    SIB = [('EndLineNumber', 'LineNumber'), ('LineNumber', 'EndLineNumber'), ('StartCharIndex', 'EndCharIndex'), ('EndCharIndex', 'StartCharIndex'),
           ('StartUtf8CharIndex', 'EndUtf8CharIndex'), ('EndUtf8CharIndex', 'StartUtf8CharIndex'), ('StartCharIndex', 'StartUtf8CharIndex'), ('EndCharIndex', 'EndUtf8CharIndex'),
           ('curToken', 'peekToken'), ('peekToken', 'curToken'), ('peekToken', 'peek2Token'), ('peek2Token', 'peekToken'), ('peek2Token', 'peek3Token'), ('peek3Token', 'peek2Token'),
           ('returnID', 'id'), ('destChunkID', 'returnID'), ('truthyDest', 'falseyDest'), ('falseyReturnID', 'returnID'), ('charNumber', 'utf8CharNumber'), ('prevCharNumber', 'charNumber'), ('prevUtf8CharNumber', 'utf8CharNumber'),
           ('position', 'readPosition'), ('readPosition', 'position'), ('breakStack', 'continueStack'), ('continueStack', 'breakStack'), ('inlineTextCounts', 'inlineMovementCounts'),
           ('GLOBAL', 'LOCAL'), ('LOCAL', 'GLOBAL'), ('Consequence', 'ElseConsequence'), ('token.TRUE', 'token.FALSE'), ('token.FALSE', 'token.TRUE'),
           ('token.LPAREN', 'token.RPAREN'), ('token.RPAREN', 'token.LPAREN'), ('token.LBRACE', 'token.RBRACE'), ('token.RBRACE', 'token.LBRACE'), ('token.EQ', 'token.NEQ'), ('token.LT', 'token.LTE'), ('token.GT', 'token.GTE'),
           ('token.AND', 'token.OR'), ('token.OR', 'token.AND'), ('token.COMMA', 'token.COLON'), ('token.IDENT', 'token.INT'), ('token.STRING', 'token.IDENT')]
    mutants = []
    for f in files:
        if f.startswith('ast/') or f.startswith('token/'):
            continue
        lines = open(os.path.join(REPO, f)).read().split('\n')
        for i, line in enumerate(lines):
            s_ = line.strip()
            if not s_ or s_.startswith('//'):
                continue
            code = line.split('//')[0]
            for a, b in SIB:
                for m in re.finditer(r'(?<![\w])' + re.escape(a) + r'(?![\w])', code):
                    mutants.append((f, i, line, line[:m.start()] + b + line[m.end():]))
if os.environ.get('MODE') == 'args':
    # adjacent simple arguments of a call swapped (the build filters out the ill-typed ones)
    mutants = []
    arg = r'(&?[\w.\[\]\*]+(?:\(\))?)'
    for f in files:
        if f.startswith('ast/') or f.startswith('token/'):
            continue
        lines = open(os.path.join(REPO, f)).read().split('\n')
        for i, line in enumerate(lines):
            s_ = line.strip()
            if not s_ or s_.startswith('//') or s_.startswith('func '):
                continue
            masked = re.sub(r'"(\\.|[^"\\])*"|`[^`]*`', lambda m: '"' + 'x' * (len(m.group(0)) - 2) + '"', line)
            for m in re.finditer(r'(?<=[(,] )' + arg + ', ' + arg + r'(?=[,)])|(?<=\()' + arg + ', ' + arg + r'(?=[,)])', masked):
                a, b = (m.group(1), m.group(2)) if m.group(1) else (m.group(3), m.group(4))
                if a == b:
                    continue
                new_line = line[:m.start()] + line[m.start():m.end()].replace(a + ', ' + b, b + ', ' + a, 1) + line[m.end():]
                if new_line != line:
                    mutants.append((f, i, line, new_line))
print(len(files), 'files', len(mutants), 'mutants', flush=True)

def run(k):
    f, i, old, new = mutants[k]
    d = tempfile.mkdtemp(prefix='psmut.', dir='/tmp')
    try:
        subprocess.run(['rsync', '-a', '--exclude', '.git', REPO + '/', d + '/'], check=True)
        p = os.path.join(d, f)
        lines = open(p).read().split('\n')
        lines[i] = new
        open(p, 'w').write('\n'.join(lines))
        r = subprocess.run(['go', 'build', './...'], cwd=d, env=ENV, capture_output=True, text=True)
        if r.returncode != 0:
            return k, 'nobuild', ''
        try:
            r = subprocess.run(['go', 'test', '-vet=off', '-count=1', '-timeout', '60s', './...'], cwd=d, env=ENV, capture_output=True, text=True, timeout=120)
        except subprocess.TimeoutExpired:
            return k, 'killed-by-suite', 'timeout'
        if r.returncode != 0:
            return k, 'killed-by-suite', ''
        try:
            r = subprocess.run(['/verif/bin/pslint', '-prop', 'all', '-root', d, '-no-evidence'], env=ENV, capture_output=True, text=True, timeout=300)
        except subprocess.TimeoutExpired:
            return k, 'caught', 'pslint timeout'
        fails = [l for l in r.stdout.split('\n') if l.startswith('FAIL')]
        if fails or r.returncode != 0:
            props = sorted(set(l.split()[1].split('.')[0] for l in fails))
            return k, 'caught', ','.join(props)
        return k, 'SURVIVED', ''
    finally:
        shutil.rmtree(d, ignore_errors=True)

res = {}
with ThreadPoolExecutor(jobs) as ex, open(os.path.join(out, 'log.txt'), 'a') as log, open(os.path.join(out, 'survivors.txt'), 'a') as sv:
    for k, st, info in ex.map(run, range(int(os.environ.get('START', '0')), len(mutants))):
        f, i, old, new = mutants[k]
        res[st] = res.get(st, 0) + 1
        log.write(f'{st}\t{info}\t{f}:{i+1}\t{old.strip()}\t=>\t{new.strip()}\n'); log.flush()
        if st == 'SURVIVED':
            sv.write(f'{f}:{i+1}\n  - {old.strip()}\n  + {new.strip()}\n'); sv.flush()
json.dump(res, open(os.path.join(out, 'summary.json'), 'w'))
print(res)
