#!/bin/bash
# validates MANIFEST.json and every evidence file against the schemas
python3-vt - <<'PY'
import json,jsonschema,glob,sys
ok=True
try:
    jsonschema.validate(json.load(open('/verif/MANIFEST.json')),json.load(open('/root/.vp/MANIFEST.schema.json'))); print('manifest ok')
except Exception as e:
    print('MANIFEST INVALID',e); ok=False
s=json.load(open('/root/.vp/EVIDENCE.schema.json'))
for f in sorted(glob.glob('/verif/evidence/*.json')):
    try:
        jsonschema.validate(json.load(open(f)),s)
    except Exception as e:
        print('EVIDENCE INVALID',f,str(e)[:300]); ok=False
print('evidence files:',len(glob.glob('/verif/evidence/*.json')))
sys.exit(0 if ok else 1)
PY
