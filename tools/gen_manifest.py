#!/usr/bin/env python3
# regenerates MANIFEST.json from the list of implemented properties (bin/pslint -list)
import json, subprocess
props=[json.loads(l) for l in open('/verif/properties.jsonl')]
out=subprocess.check_output(['/verif/bin/pslint','-list']).decode()
claimed=[l.strip() for l in out.splitlines() if l and not l.startswith(' ')]
tech={
 'C01':'custom SSA analysis: value-origin terms (GVN + store forwarding) matched against lowering templates; dominance / path search; DNF of reaching conditions for the branch protocol',
 'C02':'custom SSA analysis: table extraction, finite-domain truth-table equivalence of guard DNFs, value-origin templates of the short-circuit wiring, guard literals of the recursive descent',
 'C03':'custom SSA analysis: value-origin templates of the switch constructor, flag-phi bookkeeping check, push/pop pairing by path search',
 'C04':'custom SSA analysis: register-before-reference dominance, DNF label guard, fresh-id/enqueue typestate, check-before-append',
 'C05':'custom SSA analysis: flag confinement (single read, single dependent phi), must-reference-after-register path search, branch-protocol DNF',
 'C06':'custom SSA analysis: must-consume flow graph of *impData values, value-origin templates of the patch-and-define protocol, who-may-touch (owners) check of the parser tables over all resolved uses, parameter-threading check of the script name along the call graph',
 'C07':'custom SSA analysis: must-pass-through / exactly-once path search over builder writes, guard-predicate agreement, phi-leaf parameter binding (structural clauses only; pixel arithmetic not decided)',
 'C08':'custom SSA analysis: emission skeleton by dominance/reachability within loop nests, value-origin name binding, closed-world scan for permuting / cutting / in-place stores on order-bearing lists',
 'C09':'custom SSA analysis: map-literal table extraction, value-origin agreement of (text, string type) pairs, parallel-map key agreement',
 'C10':'custom SSA analysis: per-arm action classification of the argument loop, advance-on-every-path search, constant-format write sites, written-by-its-maker ownership of tree stores (all packages), builder read-out / written-once path checks',
 'C11':'custom SSA analysis: value-origin terms of the AutoVar result var / preamble attachment, once-before dominance in the leaf renderer',
 'C12':'custom SSA analysis: selection-protocol check on phi edges guarded by comma-ok presence bits, transitive effect confinement',
 'C13':'custom SSA dataflow: token literals reaching string accumulators must pass through the substitution helper; never-substituted sinks',
 'C14':'custom SSA analysis: interval guards, loop-shape extraction, exactly-once terminator by path search, same-value test/write agreement',
 'C15':'custom SSA/typed-AST lint: constant/guard extraction, DNF of reaching conditions, value-origin terms',
 'C16':'custom SSA analysis: guard confinement of marker emission, marker-owner agreement with the next write, definite-assignment path search for tokens',
 'C17':'custom SSA lint: map-range order-insensitivity (keys, early exits), global-write / effect analysis, allow-list of library packages, address-free format operands, value-flow of Emit\'s result through package main',
 'C18':'custom SSA analysis: panic/assertion scan, token-progress path search per loop, EOF abstract evaluation, bounds (lower and upper) / nil discharge rules with reviewed, site-counted exemptions, cross-component nil-dereference check (emitter derefs vs parser construction sites), error-propagation discipline, rejection-message catalogue comparison',
 'C19':'custom SSA analysis: width-fact typestate over lexer token construction sites, table extraction (keywords, whitespace/comment sets), DNF equivalence of the NextToken dispatch arms, taint of non-input lexer fields into conditions, provenance of literal text (input slices at lexer positions)',
 'C20':'custom SSA analysis: push/pop pairing by path search, check-before-insert on identical key terms, must-guard literals',
}
checks=[]
for p in props:
    if p['id'] in claimed:
        checks.append({
          "property_id":p['id'],
          "quick_cmd":f"./check {p['id']} quick",
          "thorough_cmd":f"./check {p['id']} thorough",
          "evidence_file":f"/verif/evidence/{p['id']}.json",
          "replay_cmd_template":"bin/pslint -replay {path}",
          "engine":"pslint",
          "level_claimed":{"category":"other","text":"static conformance: decides the structural (D/N) clauses listed for this property in DESIGN.md section 4 from the resolved source (they are stated in the evidence file's explanation); does not decide the runtime (U) clauses listed in DESIGN.md section 6","design_ref":"DESIGN.md §4 "+p['id']},
          "level_note":"trusts go/types + go/ssa (x/tools v0.29.0), the README-derived oracles inside the rules, and the paper scheme arguments of DESIGN.md; passing the check does not prove the behavioural property, it proves the listed necessary conditions",
          "technique":tech[p['id']],
        })
m=json.load(open('/verif/MANIFEST.json'))
m['checks']=checks
m['engines'][0]['serves_properties']=claimed
m['not_applicable']=[{"property_id":p['id'],"reason":"rules not yet implemented in this revision (work in progress; see DESIGN.md §9 build order)"} for p in props if p['id'] not in claimed]
json.dump(m,open('/verif/MANIFEST.json','w'),indent=1)
print('claimed',claimed)
