#!/bin/bash
# every (behaviour-preserving refactoring, breaking change) pair that composes: the break must still be reported
for b in /verif/benign/*/P*.diff; do for s in /verif/seeded/*/; do echo "$b $s"; done; done | xargs -P ${1:-8} -L1 /verif/tools/cross_one.sh
