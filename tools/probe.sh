#!/bin/bash
# usage: probe.sh <prop|all> <file-relative-to-repo> <perl-expr>   — edit a scratch copy with perl -0pi, build it, analyse it
# optional env: TEST=1 also runs the suite in the scratch copy; KEEP=<path> saves the diff there
set -u
export GOFLAGS=-mod=mod GOPROXY=off GOSUMDB=off GOTOOLCHAIN=local; unset GOWORK
prop=$1; file=$2; expr=$3
d=$(mktemp -d /tmp/psprobe.XXXXXX)
rsync -a --exclude .git /repo/ $d/
cp $d/$file $d/$file.orig
perl -0pi -e "$expr" $d/$file
if cmp -s $d/$file $d/$file.orig; then echo "PROBE-NO-CHANGE"; rm -rf $d; exit 3; fi
diff -u $d/$file.orig $d/$file | sed "s#$d/$file.orig#a/$file#; s#$d/$file#b/$file#" > $d/probe.diff
rm $d/$file.orig
[ -n "${KEEP:-}" ] && cp $d/probe.diff $KEEP
if ! (cd $d && go build ./... 2>&1 | head -5 | grep . ); then :; else echo "BUILD-FAILED"; rm -rf $d; exit 4; fi
if [ -n "${TEST:-}" ]; then (cd $d && go test ./... 2>&1 | grep -v '^ok\|no test files' | head -20); fi
${PSLINT:-/verif/bin/pslint} -prop $prop -root $d -no-evidence | sed "s#$d/##g" | grep -v ' 0 not discharged' | cut -c1-${WIDTH:-260}
rm -rf $d
