#!/bin/bash
# usage: import_benign.sh <Rnn>  — copies /tmp/wt/out/<Rnn>/P*.diff into /verif/benign/<Rnn>, validates (build + suite) and runs the analyser cold
export GOFLAGS=-mod=mod GOPROXY=off GOSUMDB=off GOTOOLCHAIN=local; unset GOWORK
r=$1; mkdir -p /verif/benign/$r; cp /tmp/wt/out/$r/P*.diff /tmp/wt/out/$r/NOTES.txt /verif/benign/$r/ 2>/dev/null
for f in /verif/benign/$r/P*.diff; do
  k=$(basename $f .diff); d=$(mktemp -d /tmp/bv.XXXX); rsync -a --exclude .git /repo/ $d/
  v=$( (cd $d && patch -p1 -s < $f && go build ./... && go test -vet=off -count=1 ./... >/dev/null 2>&1 && echo ok) || echo INVALID); rm -rf $d
  a=$(/verif/tools/try_patch.sh $f all 2>&1 | grep '^FAIL' | awk '{print $2}' | sort | uniq -c | tr '\n' ' ')
  echo "$r/$k: valid=$v alarms=[$a]"
done
