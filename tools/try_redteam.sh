#!/bin/bash
# usage: try_redteam.sh [outdir] — analyse each white-box finding under its own property; prints MISSED/caught per finding
out=${1:-/tmp/redteam.out}; mkdir -p $out
ls -d /verif/redteam/C*/ | xargs -P 8 -I{} bash -c 'd={}; n=$(basename $d); p=${n%%-*}; /verif/tools/try_patch.sh $d/patch.diff $p > '$out'/$n.txt 2>&1'
for f in $out/*.txt; do n=$(basename $f .txt); if grep -q "FAIL" $f; then echo "caught $n $(grep -c FAIL $f)"; else echo "MISSED $n"; fi; done
