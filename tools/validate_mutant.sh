#!/bin/bash
# usage: validate_mutant.sh <dir with patch.diff demo_test.go>
# checks: patch applies, builds, full suite passes with patch, demo fails with patch, demo passes without
set -u
export GOFLAGS=-mod=mod GOPROXY=off GOSUMDB=off GOTOOLCHAIN=local; unset GOWORK
m=$(realpath "$1")
d=$(mktemp -d /tmp/psval.XXXXXX)
rsync -a --exclude .git /repo/ $d/
place=$(head -1 $m/demo_test.go | sed -n 's#^// place at: *##p' | tr -d '\r' | awk '{print $1}')
[ -z "$place" ] && { echo "NO-PLACE"; rm -rf $d; exit 3; }
res=""
(cd $d && patch -p1 -s < $m/patch.diff) || { echo "PATCH-FAILED"; rm -rf $d; exit 3; }
(cd $d && go build ./... 2>&1 | tail -3) || res="$res build-fail"
if (cd $d && go test -vet=off -count=1 ./... >/tmp/psval.log 2>&1); then res="$res suite-pass"; else res="$res SUITE-FAIL"; fi
cp $m/demo_test.go $d/$place
pkg=./$(dirname $place)
if (cd $d && go test -vet=off -count=1 $pkg >/tmp/psval2.log 2>&1); then res="$res DEMO-PASSES-WITH-MUTANT"; else res="$res demo-fails-with-mutant"; fi
(cd $d && patch -p1 -R -s < $m/patch.diff)
if (cd $d && go test -vet=off -count=1 $pkg >/tmp/psval3.log 2>&1); then res="$res demo-passes-clean"; else res="$res DEMO-FAILS-CLEAN"; fi
echo "$m:$res"
rm -rf $d
