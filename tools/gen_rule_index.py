#!/usr/bin/env python3
# rewrites the last section of DESIGN.md ("Rule index") from `bin/pslint -list`
import subprocess,re
out=subprocess.run(['/verif/bin/pslint','-list'],capture_output=True,text=True).stdout
props={}; rules={}; cur=None
for line in out.splitlines():
    if re.match(r'^C\d\d$',line): cur=line; props[cur]=[]; continue
    m=re.match(r'^\s+(C\d\d\.[a-z])\s+(.*)$',line)
    if m and cur:
        props[cur].append(m.group(1)); rules[m.group(1)]=m.group(2)
sec='\n\n## 20. Rule index (from `pslint -list`)\n\nThe sections above grew by rounds; this is the current state. Each property is decided by its own rules and by\nrules of other properties that state a necessary condition of it too (listed after the slash).\n\n'
for p in sorted(props):
    own=[r for r in props[p] if r.startswith(p+'.')]
    oth=[r for r in props[p] if not r.startswith(p+'.')]
    sec+='* **%s**: %s%s\n'%(p,' '.join(own),(' / '+' '.join(oth)) if oth else '')
sec+='\n| rule | states |\n|------|--------|\n'
for r in sorted(rules):
    sec+='| %s | %s |\n'%(r,rules[r].replace('|','\\|'))
p='/verif/DESIGN.md'
s=open(p).read()
if '## 20. Rule index' in s:
    s=s[:s.index('\n\n## 20. Rule index')]
open(p,'w').write(s.rstrip('\n')+sec)
print(len(rules),'rules')
