package main

// K-LOAD / K-SSA: load /repo (or -root) with go/packages, type-check, build SSA.
// Every run reloads the tree; nothing is cached between runs.

import (
	"fmt"
	"go/ast"
	"go/token"
	"go/types"
	"os"
	"path/filepath"
	"sort"
	"strings"

	"golang.org/x/tools/go/packages"
	"golang.org/x/tools/go/ssa"
	"golang.org/x/tools/go/ssa/ssautil"
)

// World is the resolved program under analysis.
type World struct {
	Root    string
	ModPath string
	Fset    *token.FileSet
	Pkgs    map[string]*packages.Package // keyed by short name: "", ast, emitter, lexer, parser, token
	Prog    *ssa.Program
	SSA     map[string]*ssa.Package
	Funcs   []*ssa.Function // all functions with source in the repo (incl. closures, init)
	byObj   map[types.Object]*ssa.Function
}

func modulePath(root string) (string, error) {
	b, err := os.ReadFile(filepath.Join(root, "go.mod"))
	if err != nil {
		return "", err
	}
	for _, ln := range strings.Split(string(b), "\n") {
		ln = strings.TrimSpace(ln)
		if strings.HasPrefix(ln, "module ") {
			return strings.TrimSpace(strings.TrimPrefix(ln, "module ")), nil
		}
	}
	return "", fmt.Errorf("no module line in go.mod")
}

// LoadWorld loads every package of the module rooted at root.
func LoadWorld(root string) (*World, error) {
	mod, err := modulePath(root)
	if err != nil {
		return nil, err
	}
	env := append(os.Environ(), "GOFLAGS=-mod=mod", "GOPROXY=off", "GOSUMDB=off", "GOTOOLCHAIN=local", "GOWORK=off")
	cfg := &packages.Config{
		Mode:  packages.LoadAllSyntax,
		Dir:   root,
		Env:   env,
		Tests: false,
	}
	pkgs, err := packages.Load(cfg, "./...")
	if err != nil {
		return nil, fmt.Errorf("packages.Load: %v", err)
	}
	w := &World{Root: root, ModPath: mod, Pkgs: map[string]*packages.Package{}, SSA: map[string]*ssa.Package{}, byObj: map[types.Object]*ssa.Function{}}
	nerr := 0
	for _, p := range pkgs {
		for _, e := range p.Errors {
			fmt.Fprintf(os.Stderr, "load error: %s: %v\n", p.PkgPath, e)
			nerr++
		}
		for _, e := range p.TypeErrors {
			fmt.Fprintf(os.Stderr, "type error: %s: %v\n", p.PkgPath, e)
			nerr++
		}
		short := strings.TrimPrefix(strings.TrimPrefix(p.PkgPath, mod), "/")
		w.Pkgs[short] = p
		w.Fset = p.Fset
	}
	if nerr > 0 {
		return nil, fmt.Errorf("%d load/type errors", nerr)
	}
	if len(pkgs) < 6 {
		return nil, fmt.Errorf("expected at least 6 packages under %s, found %d", root, len(pkgs))
	}
	prog, ssapkgs := ssautil.AllPackages(pkgs, ssa.InstantiateGenerics)
	prog.Build()
	w.Prog = prog
	for i, p := range pkgs {
		short := strings.TrimPrefix(strings.TrimPrefix(p.PkgPath, mod), "/")
		if ssapkgs[i] == nil {
			return nil, fmt.Errorf("no SSA for package %s", p.PkgPath)
		}
		w.SSA[short] = ssapkgs[i]
	}
	for fn := range ssautil.AllFunctions(prog) {
		if fn.Pkg == nil {
			continue
		}
		pp := fn.Pkg.Pkg.Path()
		if pp != mod && !strings.HasPrefix(pp, mod+"/") {
			continue
		}
		if fn.Synthetic != "" && fn.Name() != "init" {
			continue
		}
		w.Funcs = append(w.Funcs, fn)
		if fn.Object() != nil {
			w.byObj[fn.Object()] = fn
		}
	}
	sort.Slice(w.Funcs, func(i, j int) bool { return w.FuncKey(w.Funcs[i]) < w.FuncKey(w.Funcs[j]) })
	errCtorWorld = w
	errCtorEffects = func() *Effects {
		if effCache == nil {
			effCache = NewEffects(w)
		}
		return effCache
	}
	return w, nil
}

// FuncKey is the stable, position-free name of a function: pkg.Func, pkg.(T).M, pkg.F$1.
func (w *World) FuncKey(fn *ssa.Function) string {
	if fn == nil {
		return "<nil>"
	}
	s := fn.String()
	s = strings.ReplaceAll(s, w.ModPath+"/", "")
	s = strings.ReplaceAll(s, w.ModPath, "main")
	return s
}

// InRepo says whether fn has source in the repo.
func (w *World) InRepo(fn *ssa.Function) bool {
	if fn == nil || fn.Pkg == nil {
		return false
	}
	pp := fn.Pkg.Pkg.Path()
	return pp == w.ModPath || strings.HasPrefix(pp, w.ModPath+"/")
}

// Func resolves a package-level function by package short name and name.
func (w *World) Func(pkg, name string) *ssa.Function {
	p := w.SSA[pkg]
	if p == nil {
		return nil
	}
	return p.Func(name)
}

// Method resolves a method by receiver type name (pointer or value receiver).
func (w *World) Method(pkg, typ, name string) *ssa.Function {
	p := w.SSA[pkg]
	if p == nil {
		return nil
	}
	t := p.Type(typ)
	if t == nil {
		return nil
	}
	for _, T := range []types.Type{t.Type(), types.NewPointer(t.Type())} {
		sel := w.Prog.MethodSets.MethodSet(T).Lookup(p.Pkg, name)
		if sel != nil {
			if fn := w.Prog.MethodValue(sel); fn != nil && fn.Synthetic == "" {
				return fn
			}
		}
	}
	return nil
}

// Named resolves a named type.
func (w *World) Named(pkg, name string) *types.Named {
	p := w.Pkgs[pkg]
	if p == nil || p.Types == nil {
		return nil
	}
	o := p.Types.Scope().Lookup(name)
	if o == nil {
		return nil
	}
	n, _ := o.Type().(*types.Named)
	return n
}

// Global resolves a package-level variable.
func (w *World) Global(pkg, name string) *ssa.Global {
	p := w.SSA[pkg]
	if p == nil {
		return nil
	}
	g, _ := p.Members[name].(*ssa.Global)
	return g
}

// ConstString returns the value of a package-level string constant.
func (w *World) ConstString(pkg, name string) (string, bool) {
	p := w.Pkgs[pkg]
	if p == nil {
		return "", false
	}
	c, ok := p.Types.Scope().Lookup(name).(*types.Const)
	if !ok {
		return "", false
	}
	return constStr(c.Val())
}

// Pos renders a position relative to the root, "file:line".
func (w *World) Pos(p token.Pos) string {
	if !p.IsValid() {
		return "-"
	}
	pos := w.Fset.Position(p)
	rel, err := filepath.Rel(w.Root, pos.Filename)
	if err != nil {
		rel = pos.Filename
	}
	return fmt.Sprintf("%s:%d", rel, pos.Line)
}

// FuncPos is the position of the function declaration.
func (w *World) FuncPos(fn *ssa.Function) string {
	if fn == nil {
		return "-"
	}
	return w.Pos(fn.Pos())
}

// Decl returns the syntax of a source function.
func (w *World) Decl(fn *ssa.Function) *ast.FuncDecl {
	if fn == nil {
		return nil
	}
	d, _ := fn.Syntax().(*ast.FuncDecl)
	return d
}

// Info returns the types.Info of the package that declares fn.
func (w *World) Info(fn *ssa.Function) *types.Info {
	for _, p := range w.Pkgs {
		if p.Types == fn.Pkg.Pkg {
			return p.TypesInfo
		}
	}
	return nil
}

// PkgShort returns the short package name key of a function.
func (w *World) PkgShort(fn *ssa.Function) string {
	pp := fn.Pkg.Pkg.Path()
	return strings.TrimPrefix(strings.TrimPrefix(pp, w.ModPath), "/")
}

// FuncsOf lists the repo functions of a package (including closures), sorted.
func (w *World) FuncsOf(pkg string) []*ssa.Function {
	var out []*ssa.Function
	for _, f := range w.Funcs {
		if w.PkgShort(f) == pkg {
			out = append(out, f)
		}
	}
	return out
}

// InRepoPkg reports whether the package belongs to the analysed module.
func (w *World) InRepoPkg(p *types.Package) bool {
	if p == nil {
		return false
	}
	return p.Path() == w.ModPath || strings.HasPrefix(p.Path(), w.ModPath+"/")
}

var constGlobalCache = map[string]bool{}

// constGlobal: the package-level variable is assigned only by its package initialiser and,
// everywhere else in the repository, is only read (loaded for a lookup, a range, len or an index).
func (w *World) constGlobal(pkg, name string) bool {
	key := pkg + "." + name
	if v, ok := constGlobalCache[key]; ok {
		return v
	}
	g := w.Global(pkg, name)
	res := g != nil
	if g != nil {
		for _, fn := range w.Funcs {
			if fn.Synthetic != "" && fn.Name() == "init" {
				continue
			}
			for _, b := range fn.Blocks {
				for _, in := range b.Instrs {
					var ops []*ssa.Value
					for _, op := range in.Operands(ops) {
						if *op != ssa.Value(g) {
							continue
						}
						ld, ok := in.(*ssa.UnOp)
						if !ok || ld.Op != token.MUL {
							res = false
							continue
						}
						for _, ref := range *ld.Referrers() {
							switch r := ref.(type) {
							case *ssa.Lookup:
								if r.X != ssa.Value(ld) {
									res = false
								}
							case *ssa.Range, *ssa.Index, *ssa.DebugRef:
							case *ssa.Call:
								if bi, ok := r.Call.Value.(*ssa.Builtin); !ok || bi.Name() != "len" {
									res = false
								}
							default:
								res = false
							}
						}
					}
				}
			}
		}
	}
	constGlobalCache[key] = res
	return res
}

// GlobalNamed resolves a package-level variable by name or, when it was renamed, as the only
// variable of the package with that type (types.TypeString relative to the package).
func (w *World) GlobalNamed(pkg, name, typ string) string {
	if w.Global(pkg, name) != nil {
		return name
	}
	p := w.SSA[pkg]
	if p == nil {
		return ""
	}
	found := ""
	for n, m := range p.Members {
		g, ok := m.(*ssa.Global)
		if !ok {
			continue
		}
		ts := types.TypeString(deref(g.Type()), func(q *types.Package) string {
			if q == p.Pkg {
				return ""
			}
			return q.Name()
		})
		if ts == typ {
			if found != "" {
				return ""
			}
			found = n
		}
	}
	return found
}

// NamedType finds a named type of a repo package by short package name and type name.
func (w *World) NamedType(pkgShort, name string) *types.Named {
	for _, p := range w.SSA {
		pp := strings.TrimPrefix(strings.TrimPrefix(p.Pkg.Path(), w.ModPath), "/")
		if pp != pkgShort {
			continue
		}
		if o := p.Pkg.Scope().Lookup(name); o != nil {
			if n, ok := o.Type().(*types.Named); ok {
				return n
			}
		}
	}
	return nil
}
