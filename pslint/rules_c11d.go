package main

import (
	"encoding/json"
	"fmt"
	"go/types"
	"os"
	"path/filepath"
	"reflect"
	"sort"
	"strings"
)

func init() {
	register(&Rule{ID: "C11.d", Doc: "the shipped configuration files and the structs they are decoded into agree: every key of command_config.json / font_config.json is the JSON name of a field of the struct at that place, and every tagged field is used by the shipped file", Floor: 4, Run: c11d})
}

// c11d (writer's and reader's tables agree): AutoVar behaviour and text layout are driven by
// two JSON files shipped with the compiler and documented for users. encoding/json silently
// ignores keys it cannot bind, so a renamed tag turns every AutoVar command into "no result
// variable" without any error. The rule reads the two files from the analysed tree (data, not
// code: nothing is executed) and walks them against the types named in the json.Unmarshal
// targets: objects against structs (key = tag name, matched the way encoding/json does:
// exact, else case-insensitive), maps recurse into their element type for every entry.
func c11d(c *Ctx) {
	type target struct{ file, pkg, typ string }
	n := 0
	for _, tg := range []target{{"command_config.json", "parser", "CommandConfig"}, {"font_config.json", "parser", "FontConfig"}} {
		raw, err := os.ReadFile(filepath.Join(c.W.Root, tg.file))
		if err != nil {
			c.Unk("config/"+tg.file, "-", "cannot read "+tg.file+" in the analysed tree")
			continue
		}
		var doc interface{}
		if err := json.Unmarshal(raw, &doc); err != nil {
			c.Bad("config/"+tg.file+"/well-formed", tg.file, tg.file+" is not valid JSON: "+err.Error())
			continue
		}
		named := c.W.NamedType(tg.pkg, tg.typ)
		if named == nil {
			c.Unk("config/"+tg.file+"/type", "-", "type "+tg.pkg+"."+tg.typ+" not found")
			continue
		}
		var shape []string
		usedTags := map[string]bool{}
		allTags := map[string]bool{}
		unbound := map[string]bool{}
		var walk func(v interface{}, t types.Type, path string)
		walk = func(v interface{}, t types.Type, path string) {
			for {
				p, ok := t.Underlying().(*types.Pointer)
				if !ok {
					break
				}
				t = p.Elem()
			}
			obj, isObj := v.(map[string]interface{})
			if !isObj {
				return
			}
			switch u := t.Underlying().(type) {
			case *types.Struct:
				tags := map[string]int{}
				for i := 0; i < u.NumFields(); i++ {
					name := u.Field(i).Name()
					if tag := reflect.StructTag(u.Tag(i)).Get("json"); tag != "" {
						if nm := strings.Split(tag, ",")[0]; nm != "" && nm != "-" {
							name = nm
						}
					}
					// two fields under one JSON name: encoding/json binds neither; an unexported
					// or embedded field is not bound the way this walk assumes
					if _, dup := tags[name]; dup {
						shape = append(shape, path+"."+name+" (two fields share this JSON name: neither is bound)")
					}
					if !u.Field(i).Exported() || u.Field(i).Embedded() {
						shape = append(shape, path+"."+u.Field(i).Name()+" (unexported or embedded field)")
					}
					tags[name] = i
					allTags[path+"."+name] = true
				}
				for k, sub := range obj {
					idx, ok := tags[k]
					if !ok {
						for nm, i := range tags {
							if strings.EqualFold(nm, k) {
								idx, ok = i, true
								k = nm
							}
						}
					}
					if !ok {
						unbound[path+"."+k] = true
						continue
					}
					usedTags[path+"."+k] = true
					walk(sub, u.Field(idx).Type(), path+"."+k)
				}
			case *types.Map:
				for _, sub := range obj {
					walk(sub, u.Elem(), path+"[]")
				}
			}
		}
		walk(doc, named, tg.typ)
		sort.Strings(shape)
		c.Check(len(shape) == 0, "config/"+tg.file+"/fields-bindable", tg.file, "every field on the way is exported, not embedded, and alone under its JSON name", fmt.Sprintf("fields of the structs %s is decoded into that encoding/json does not bind as written: %v", tg.file, shape))
		// the binding above is the DEFAULT binding of encoding/json: it is what runs only if no
		// type on the way decodes itself
		var custom []string
		seenT := map[types.Type]bool{}
		var scan func(t types.Type)
		scan = func(t types.Type) {
			if seenT[t] {
				return
			}
			seenT[t] = true
			if nt, ok := t.(*types.Named); ok && nt.Obj().Pkg() != nil && c.W.InRepoPkg(nt.Obj().Pkg()) {
				ms := types.NewMethodSet(types.NewPointer(nt))
				for i := 0; i < ms.Len(); i++ {
					if nm := ms.At(i).Obj().Name(); nm == "UnmarshalJSON" || nm == "UnmarshalText" {
						custom = append(custom, nt.Obj().Name()+"."+nm)
					}
				}
			}
			switch u := t.Underlying().(type) {
			case *types.Struct:
				for i := 0; i < u.NumFields(); i++ {
					scan(u.Field(i).Type())
				}
			case *types.Map:
				scan(u.Key())
				scan(u.Elem())
			case *types.Pointer:
				scan(u.Elem())
			case *types.Slice:
				scan(u.Elem())
			case *types.Array:
				scan(u.Elem())
			}
		}
		scan(named)
		sort.Strings(custom)
		c.Check(len(custom) == 0, "config/"+tg.file+"/default-decoding", tg.file, fmt.Sprintf("no type below %s decodes itself (%d types)", tg.typ, len(seenT)), fmt.Sprintf("%v: a type the shipped %s is decoded into has its own decoder, so what ends up in the fields is whatever that code does, not what the file says", custom, tg.file))
		// the kind of every bound value fits the field it is bound to (a number into a number, a
		// string into a string ...): encoding/json reports a mismatch as an error or, with the
		// `,string` option, reads something else than the file means
		var misfit []string
		var fits func(v interface{}, t types.Type, path string)
		fits = func(v interface{}, t types.Type, path string) {
			for {
				p, ok := t.Underlying().(*types.Pointer)
				if !ok {
					break
				}
				t = p.Elem()
			}
			okK := true
			switch x := v.(type) {
			case string:
				b, isB := t.Underlying().(*types.Basic)
				okK = isB && b.Info()&types.IsString != 0
			case float64:
				b, isB := t.Underlying().(*types.Basic)
				okK = isB && b.Info()&types.IsNumeric != 0
				if okK && b.Info()&types.IsInteger != 0 && x != float64(int64(x)) {
					okK = false
				}
			case bool:
				b, isB := t.Underlying().(*types.Basic)
				okK = isB && b.Info()&types.IsBoolean != 0
			case []interface{}:
				sl, isS := t.Underlying().(*types.Slice)
				okK = isS
				if isS {
					for i, e := range x {
						fits(e, sl.Elem(), fmt.Sprintf("%s[%d]", path, i))
					}
				}
			case map[string]interface{}:
				switch u := t.Underlying().(type) {
				case *types.Struct:
					for i := 0; i < u.NumFields(); i++ {
						name := u.Field(i).Name()
						tag := reflect.StructTag(u.Tag(i)).Get("json")
						if tag != "" {
							parts := strings.Split(tag, ",")
							if parts[0] != "" && parts[0] != "-" {
								name = parts[0]
							}
							for _, o := range parts[1:] {
								if o == "string" {
									misfit = append(misfit, path+"."+name+" (`,string` option)")
								}
							}
						}
						for k, sub := range x {
							if k == name || strings.EqualFold(k, name) {
								fits(sub, u.Field(i).Type(), path+"."+name)
							}
						}
					}
				case *types.Map:
					for k, sub := range x {
						fits(sub, u.Elem(), path+"["+k+"]")
					}
				default:
					okK = false
				}
			}
			if !okK {
				misfit = append(misfit, path+" ("+types.TypeString(t, nil)+")")
			}
		}
		fits(doc, named, tg.typ)
		sort.Strings(misfit)
		if len(misfit) > 6 {
			misfit = misfit[:6]
		}
		c.Check(len(misfit) == 0, "config/"+tg.file+"/value-kinds-fit", tg.file, "every value of the shipped file has the kind of the field it is bound to", fmt.Sprintf("values of the shipped %s that do not fit the field they are bound to: %v", tg.file, misfit))
		var ub, unused []string
		for k := range unbound {
			ub = append(ub, k)
		}
		for k := range allTags {
			if !usedTags[k] {
				unused = append(unused, k)
			}
		}
		sort.Strings(ub)
		sort.Strings(unused)
		n += len(usedTags)
		c.Check(len(ub) == 0, "config/"+tg.file+"/every-key-bound", tg.file, fmt.Sprintf("every key of %s is bound by a field of %s (%d distinct keys)", tg.file, tg.typ, len(usedTags)), fmt.Sprintf("keys of the shipped %s that no field of %s binds (encoding/json drops them silently): %v", tg.file, tg.typ, ub))
		c.Check(len(unused) == 0, "config/"+tg.file+"/every-field-used", tg.file, "every field of the decoded structs is set by the shipped file somewhere", fmt.Sprintf("fields of %s the shipped %s never sets (a renamed tag, or a key missing from the file): %v", tg.typ, tg.file, unused))
	}
	c.Check(n >= 8, "config/keys", "-", fmt.Sprintf("%d distinct config keys bound", n), fmt.Sprintf("expected at least 8 distinct config keys, found %d", n))
}
