package main

import (
	"fmt"
	"go/token"
	"go/types"
	"regexp"
	"sort"
	"strconv"
	"strings"

	"golang.org/x/tools/go/ssa"
)

var effCache *Effects
var pcCache = map[*ssa.Function]*PathConds{}

// Eff returns the (cached) effect analysis.
func (c *Ctx) Eff() *Effects {
	if effCache == nil {
		effCache = NewEffects(c.W)
	}

	return effCache
}

// T returns the origin terms of fn.
func (c *Ctx) T(fn *ssa.Function) *Terms {
	if touchLog != nil && c.rule != nil {
		if touchLog[fn] == nil {
			touchLog[fn] = map[string]bool{}
		}
		touchLog[fn][c.rule.ID] = true
	}
	return c.W.TermsOf(fn, c.Eff())
}

// touchLog (diagnostic, PSLINT_TOUCH=1): which rules looked at the terms of which function.
var touchLog map[*ssa.Function]map[string]bool

// PC returns the path conditions of fn.
func (c *Ctx) PC(fn *ssa.Function) *PathConds {
	if p, ok := pcCache[fn]; ok {
		return p
	}
	p := NewPathConds(c.T(fn))
	pcCache[fn] = p
	return p
}

// Fn resolves a function anchor "pkg.Name" or "pkg.Type.Method"; records an undecided
// obligation when it does not exist.
func (c *Ctx) Fn(anchor string) *ssa.Function {
	parts := strings.Split(anchor, ".")
	var fn *ssa.Function
	switch len(parts) {
	case 2:
		fn = c.W.Func(parts[0], parts[1])
	case 3:
		fn = c.W.Method(parts[0], parts[1], parts[2])
	}
	if fn == nil || len(fn.Blocks) == 0 {
		// a function turned into a method (or the reverse) keeps its name: accept the unique
		// function or method of that name in the package (receiver and first parameter are
		// both $0, so rules written against one read the other unchanged)
		name := parts[len(parts)-1]
		var cands []*ssa.Function
		for _, f := range c.W.FuncsOf(parts[0]) {
			if f.Name() == name && f.Parent() == nil && len(f.Blocks) > 0 && !isTestFunc(c.W, f) {
				cands = append(cands, f)
			}
		}
		if len(cands) == 1 {
			return cands[0]
		}
	}
	if fn == nil || len(fn.Blocks) == 0 {
		c.Unk("anchor:"+anchor, "-", "anchored function "+anchor+" not found (renamed or removed); the rule cannot be evaluated")
		return nil
	}
	return fn
}

// canonDNF renders the reaching condition of block b with canonical parameter names.
func (c *Ctx) canonDNF(fn *ssa.Function, b *ssa.BasicBlock) string {
	return c.T(fn).Canon(c.PC(fn).At(b).String())
}

// mustLits returns the canonical literals holding on every path to b.
func (c *Ctx) mustLits(fn *ssa.Function, b *ssa.BasicBlock) []string {
	t := c.T(fn)
	var out []string
	for _, l := range c.PC(fn).Must(b) {
		out = append(out, t.Canon(l))
	}
	sort.Strings(out)
	return out
}

func hasLit(lits []string, l string) bool {
	for _, x := range lits {
		if x == l {
			return true
		}
	}
	return false
}

// everyConjHasOneOf: every way of reaching b satisfies at least one of the literals.
func (c *Ctx) everyConjHasOneOf(fn *ssa.Function, b *ssa.BasicBlock, lits ...string) bool {
	d := c.PC(fn).At(b)
	if d.unknown || len(d.cs) == 0 {
		return false
	}
	t := c.T(fn)
	for _, cj := range d.cs {
		ok := false
		for _, l := range cj {
			if hasLit(lits, t.Canon(l)) {
				ok = true
				break
			}
		}
		if !ok {
			return false
		}
	}
	return true
}

// fieldAtUse: canonical term of field f of allocation a as seen just before instruction use.
func (c *Ctx) fieldAtUse(fn *ssa.Function, a ssa.Value, f string, use ssa.Instruction) string {
	t := c.T(fn)
	return t.Canon(t.FieldAt(use, t.Term(a), f))
}

// term is the canonical term of v in fn.
func (c *Ctx) term(fn *ssa.Function, v ssa.Value) string {
	t := c.T(fn)
	return t.Canon(t.Term(v))
}

// returnsOf lists the Return instructions of fn.
func returnsOf(fn *ssa.Function) []*ssa.Return {
	var out []*ssa.Return
	instrs(fn, func(in ssa.Instruction) {
		if r, ok := in.(*ssa.Return); ok {
			out = append(out, r)
		}
	})
	return out
}

// isSuccessReturn: the return's error result (last result of type error) is the nil constant.
func isSuccessReturn(r *ssa.Return) bool {
	if len(r.Results) == 0 {
		return true
	}
	last := r.Results[len(r.Results)-1]
	if !isErrorType(last.Type()) {
		return true
	}
	if isNilConst(last) {
		return true
	}
	// `return x, err` is a failing return only where err is known not to be nil: it was just
	// made by an error constructor, or a test `err != nil` leads here. Otherwise (a tail call
	// `return parse()`, an error variable handed on untested) the return may well be a success.
	return !knownNonNilError(last, r.Block())
}

func knownNonNilError(v ssa.Value, at *ssa.BasicBlock) bool {
	switch x := v.(type) {
	case *ssa.MakeInterface:
		return true // a concrete error value
	case *ssa.Call:
		n := calleeName(x)
		if n == "fmt.Errorf" || n == "errors.New" {
			return true
		}
		if g := callee(x); g != nil && len(g.Blocks) > 0 && g.Signature.Results().Len() == 1 {
			// a constructor: every return of it is a concrete error
			all := true
			for _, rr := range returnsOf(g) {
				if _, isMI := rr.Results[0].(*ssa.MakeInterface); !isMI {
					if c2, isCall := rr.Results[0].(*ssa.Call); !isCall || !knownNonNilError(c2, rr.Block()) {
						all = false
					}
				}
			}
			if all {
				return true
			}
		}
	}
	// a dominating test of this very value
	for _, d := range at.Parent().Blocks {
		if len(d.Instrs) == 0 || len(d.Succs) != 2 {
			continue
		}
		ifi, ok := d.Instrs[len(d.Instrs)-1].(*ssa.If)
		if !ok {
			continue
		}
		bo, ok := ifi.Cond.(*ssa.BinOp)
		if !ok || (bo.Op != token.NEQ && bo.Op != token.EQL) {
			continue
		}
		var other ssa.Value
		if bo.X == v {
			other = bo.Y
		} else if bo.Y == v {
			other = bo.X
		} else {
			continue
		}
		if !isNilConst(other) {
			continue
		}
		nonNilSucc := d.Succs[0]
		if bo.Op == token.EQL {
			nonNilSucc = d.Succs[1]
		}
		if len(nonNilSucc.Preds) == 1 && (nonNilSucc == at || nonNilSucc.Dominates(at)) {
			return true
		}
	}
	return false
}

func sortStrings(s []string) { sort.Strings(s) }

func regexpMust(p string) *regexp.Regexp { return regexp.MustCompile(p) }

// implementsPtr: *named implements the interface type iface.
func implementsPtr(named *types.Named, iface types.Type) bool {
	it, ok := iface.Underlying().(*types.Interface)
	if !ok {
		return false
	}
	return types.Implements(types.NewPointer(named), it) || types.Implements(named, it)
}

// edgeMust: literals that hold when control flows along the edge pred -> succ.
func (c *Ctx) edgeMust(fn *ssa.Function, pred, succ *ssa.BasicBlock) []string {
	out := c.mustLits(fn, pred)
	if eds := c.PC(fn).edgeDNF(pred, succ); len(eds) == 1 {
		out = append(out, eds[0]...)
	}
	sort.Strings(out)
	return out
}

// unitOf returns fn together with its exclusive helpers: unexported functions of the same
// package that are called (statically) only from inside the unit, up to depth 2. Rules that
// look for a construct "in fn" search the unit, so that extracting a block of fn into a
// private helper does not make the construct disappear. For each helper the call site in the
// unit is reported.
type unitMember struct {
	fn   *ssa.Function
	site ssa.CallInstruction // call in the root function (nil for the root itself)
}

func (c *Ctx) unitOf(root *ssa.Function) []unitMember {
	out := []unitMember{{fn: root}}
	in := map[*ssa.Function]bool{root: true}
	frontier := []unitMember{{fn: root}}
	for depth := 0; depth < 2; depth++ {
		var next []unitMember
		for _, m := range frontier {
			for _, ci := range callsIn(m.fn) {
				g := callee(ci)
				if g == nil || in[g] || !c.W.InRepo(g) || g.Pkg != root.Pkg || len(g.Blocks) == 0 {
					continue
				}
				if g.Object() == nil || g.Object().Exported() {
					continue
				}
				// every static caller is inside the unit
				exclusive := true
				for _, caller := range c.W.callsTo(g) {
					if !in[caller.Parent()] {
						exclusive = false
					}
				}
				if !exclusive {
					continue
				}
				in[g] = true
				site := ci
				if m.site != nil {
					site = m.site
				}
				mem := unitMember{fn: g, site: site}
				out = append(out, mem)
				next = append(next, mem)
			}
		}
		frontier = next
	}
	return out
}

var dollarRe = regexp.MustCompile(`\$(\d+)`)

// substParams rewrites a term of callee g into the caller's namespace: $k becomes the
// term of the k-th argument of the call.
func (c *Ctx) substParams(fn *ssa.Function, call ssa.CallInstruction, term string) string {
	args := call.Common().Args
	return dollarRe.ReplaceAllStringFunc(term, func(m string) string {
		var k int
		fmt.Sscanf(m, "$%d", &k)
		if k < len(args) {
			return c.term(fn, args[k])
		}
		return m
	})
}

// valueFields returns the fields of the struct that value v denotes at instruction use:
// either a composite literal allocated in fn, or the result of a (small) constructor
// function of the repo that returns a fresh composite literal — in which case the
// constructor's field terms are rewritten into fn's namespace. nil when v is neither.
func (c *Ctx) valueFields(fn *ssa.Function, v ssa.Value, use ssa.Instruction) map[string]string {
	v = unwrapIface(v)
	switch x := v.(type) {
	case *ssa.Alloc:
		st, ok := deref(x.Type()).Underlying().(*types.Struct)
		if !ok {
			return nil
		}
		out := map[string]string{}
		for i := 0; i < st.NumFields(); i++ {
			f := fieldName(x.Type(), i)
			out[f] = c.fieldAtUse(fn, x, f, use)
		}
		return out
	case *ssa.Call:
		g := callee(x)
		if g == nil || !c.W.InRepo(g) || g == fn || len(g.Blocks) == 0 {
			return nil
		}
		var res ssa.Value
		var ret *ssa.Return
		for _, r := range returnsOf(g) {
			if len(r.Results) != 1 {
				return nil
			}
			a := unwrapIface(r.Results[0])
			if res != nil && a != res {
				return nil
			}
			res, ret = a, r
		}
		if res == nil {
			return nil
		}
		inner := c.valueFields(g, res, ret)
		if inner == nil {
			return nil
		}
		out := map[string]string{}
		for k, t := range inner {
			out[k] = c.substParams(fn, x, t)
		}
		return out
	}
	// a struct value built by a composite literal and copied (`return T{...}`)
	if _, ok := deref(v.Type()).Underlying().(*types.Struct); ok {
		if base, over := c.withFields(fn, c.term(fn, v)); over != nil && (base == "" || base == "zero" || strings.HasPrefix(base, "zero")) {
			return over
		}
	}
	return nil
}

// valueOrigin is where a value ultimately comes from when followed backwards through
// merges, result extraction and the successful returns of repo helpers.
type valueOrigin struct {
	fn   *ssa.Function
	v    ssa.Value
	call ssa.CallInstruction // non-nil: result #idx of this call (callee outside the repo, or the traced target)
	idx  int
}

// originsOf follows v backwards: φ → every edge; result #k of a call to a repo function g
// (other than stop) → result #k at every return of g that can be a successful one. A call
// to `stop`, a call outside the repo, or any other value is an origin. Depth-bounded.
func (c *Ctx) originsOf(fn *ssa.Function, v ssa.Value, stop *ssa.Function, depth int) []valueOrigin {
	seen := map[ssa.Value]bool{}
	var out []valueOrigin
	var walk func(fn *ssa.Function, v ssa.Value, depth int)
	walk = func(fn *ssa.Function, v ssa.Value, depth int) {
		if seen[v] {
			return
		}
		seen[v] = true
		switch x := v.(type) {
		case *ssa.Phi:
			for _, e := range x.Edges {
				walk(fn, e, depth)
			}
			return
		case *ssa.Extract:
			if call, ok := x.Tuple.(*ssa.Call); ok {
				g := callee(call)
				if g != nil && g != stop && c.W.InRepo(g) && len(g.Blocks) > 0 && depth > 0 {
					n := 0
					for _, r := range returnsOf(g) {
						if x.Index < len(r.Results) && c.mayBeSuccessRet(g, r) {
							walk(g, r.Results[x.Index], depth-1)
							n++
						}
					}
					if n > 0 {
						return
					}
				}
				out = append(out, valueOrigin{fn: fn, v: v, call: call, idx: x.Index})
				return
			}
		case *ssa.Call:
			g := callee(x)
			if g != nil && g != stop && c.W.InRepo(g) && len(g.Blocks) > 0 && depth > 0 && g.Signature.Results().Len() == 1 {
				n := 0
				for _, r := range returnsOf(g) {
					walk(g, r.Results[0], depth-1)
					n++
				}
				if n > 0 {
					return
				}
			}
			out = append(out, valueOrigin{fn: fn, v: v, call: x, idx: 0})
			return
		}
		out = append(out, valueOrigin{fn: fn, v: v})
	}
	walk(fn, v, depth)
	return out
}

// valueWith: v denotes a struct value built as "copy of base with fields overwritten"
// (`t := x.Token; t.Type = ...; t.Literal = ...`), either in fn itself or by a repo helper
// that returns such a value (the helper's base and field terms are rewritten into fn's
// namespace). Returns the base term and the overwritten fields; over == nil when v is not
// of that shape.
func (c *Ctx) valueWith(fn *ssa.Function, v ssa.Value) (string, map[string]string) {
	if base, over := c.withFields(fn, c.term(fn, v)); over != nil {
		return base, over
	}
	call, ok := unwrapIface(v).(*ssa.Call)
	if !ok {
		return "", nil
	}
	g := callee(call)
	if g == nil || !c.W.InRepo(g) || g == fn || len(g.Blocks) == 0 {
		return "", nil
	}
	rets := returnsOf(g)
	if len(rets) != 1 || len(rets[0].Results) != 1 {
		return "", nil
	}
	base, over := c.valueWith(g, rets[0].Results[0])
	if over == nil {
		return "", nil
	}
	out := map[string]string{}
	for k, t := range over {
		out[k] = c.substParams(fn, call, t)
	}
	return c.substParams(fn, call, base), out
}

// ctxEdge: one way a value can arise, in the namespace of the unit's root function.
type ctxEdge struct {
	term string
	must []string
}

// ctxEdges lists the alternatives of value v (a φ is split into its incoming edges, each with
// the literals that hold on that edge; any other value is one alternative under the literals
// that hold at `at`), expressed in the namespace of root. When v lives in a private helper
// of root (unit member m), the alternatives are produced once per call site of the helper
// in root: parameters are replaced by the arguments, literals that become constant are
// evaluated (an alternative whose guard is false at that site is dropped), and the literals
// that hold at the call site are added. ok=false when the helper is not called directly
// from root.
func (c *Ctx) ctxEdges(root *ssa.Function, m unitMember, v ssa.Value, at *ssa.BasicBlock) ([]ctxEdge, bool) {
	var local []ctxEdge
	if ph, isPhi := v.(*ssa.Phi); isPhi && !isLoopHeader(ph.Block()) {
		for i, e := range ph.Edges {
			pred := ph.Block().Preds[i]
			if edgeInfeasible(c, m.fn, pred, ph.Block()) || !c.edgeFeasible(m.fn, pred, ph.Block()) {
				continue
			}
			local = append(local, ctxEdge{c.term(m.fn, e), c.edgeMust(m.fn, pred, ph.Block())})
		}
	} else {
		local = append(local, ctxEdge{c.term(m.fn, v), c.mustLits(m.fn, at)})
	}
	if m.fn == root {
		return local, true
	}
	sites := callsToIn(root, m.fn)
	if len(sites) == 0 {
		return nil, false
	}
	var out []ctxEdge
	for _, cs := range sites {
		siteMust := c.mustLits(root, cs.Block())
		for _, le := range local {
			feasible := true
			var must []string
			for _, l := range le.must {
				t, neg := normCondTerm(c.substParams(root, cs, l[1:]))
				pos := l[0] == '+'
				if neg {
					pos = !pos
				}
				switch t {
				case "true":
					if !pos {
						feasible = false
					}
					continue
				case "false":
					if pos {
						feasible = false
					}
					continue
				}
				if pos {
					must = append(must, "+"+t)
				} else {
					must = append(must, "-"+t)
				}
			}
			if !feasible {
				continue
			}
			for _, l := range must {
				if hasLit(siteMust, negLit(l)) {
					feasible = false
				}
			}
			if !feasible {
				continue
			}
			must = append(must, siteMust...)
			sort.Strings(must)
			out = append(out, ctxEdge{c.substParams(root, cs, le.term), must})
		}
	}
	return out, true
}

// fieldValue: the SSA value last stored into field f of the object allocated by a (composite
// literal or new), looking at the stores that dominate `use`; nil when none does.
func fieldValue(a *ssa.Alloc, f string, use ssa.Instruction) ssa.Value {
	var best *ssa.Store
	for _, ref := range *a.Referrers() {
		fa, ok := ref.(*ssa.FieldAddr)
		if !ok || fieldName(fa.X.Type(), fa.Field) != f {
			continue
		}
		for _, r2 := range *fa.Referrers() {
			st, ok := r2.(*ssa.Store)
			if !ok || st.Addr != ssa.Value(fa) {
				continue
			}
			if use != nil && st != use && !instrDominates(st, use) {
				continue
			}
			if best == nil || instrDominates(best, st) {
				best = st
			}
		}
	}
	if best == nil {
		return nil
	}
	return best.Val
}

// nodePath resolves v.path[0].path[1]… to a term of fn, following objects built in fn
// (composite literals) and objects handed back by constructor helpers of the repo (whose
// field values are rewritten into fn's namespace). A construct written in place and the same
// construct returned by `newX(args)` give the same term.
func (c *Ctx) nodePath(fn *ssa.Function, v ssa.Value, use ssa.Instruction, path ...string) string {
	if len(path) == 0 {
		return c.term(fn, v)
	}
	v = unwrapIface(v)
	switch x := v.(type) {
	case *ssa.Alloc:
		if fv := fieldValue(x, path[0], use); fv != nil {
			return c.nodePath(fn, fv, use, path[1:]...)
		}
		t := c.fieldAtUse(fn, x, path[0], use)
		if len(path) > 1 {
			t += "." + strings.Join(path[1:], ".")
		}
		return t
	case *ssa.Call:
		g := callee(x)
		if g != nil && c.W.InRepo(g) && g != fn && len(g.Blocks) > 0 {
			rets := returnsOf(g)
			if len(rets) == 1 && len(rets[0].Results) == 1 {
				nodePathDepth++
				inner := c.nodePath(g, rets[0].Results[0], rets[0], path...)
				nodePathDepth--
				// the helper stored one of its parameters there: go on in the caller, with the argument
				if strings.HasPrefix(inner, "\x01") {
					parts := strings.SplitN(inner[1:], "\x01", 2)
					k, err := strconv.Atoi(parts[0])
					if err == nil && k < len(x.Call.Args) && len(parts) == 2 {
						var rest []string
						if parts[1] != "" {
							rest = strings.Split(parts[1], ".")
						}
						return c.nodePath(fn, x.Call.Args[k], x, rest...)
					}
				}
				return c.substParams(fn, x, inner)
			}
		}
	case *ssa.Parameter:
		if k := paramIndex(fn, x); k >= 0 && nodePathDepth > 0 {
			return "\x01" + strconv.Itoa(k) + "\x01" + strings.Join(path, ".")
		}
	}
	return c.term(fn, v) + "." + strings.Join(path, ".")
}

// nodePathDepth > 0 while nodePath is resolving inside a constructor helper (a parameter
// reached there is continued in the caller).
var nodePathDepth = 0

// edgeFeasible: false only when the reaching condition of pred conjoined with the condition
// of the edge pred->succ is contradictory (no way of arriving through that edge).
func (c *Ctx) edgeFeasible(fn *ssa.Function, pred, succ *ssa.BasicBlock) bool {
	pc := c.PC(fn)
	if _, ok := pc.cond[pred]; !ok {
		return true
	}
	cs, known := pc.through(pred, succ, 0)
	return !known || len(cs) > 0
}

// valueOfTerm: an SSA value of fn whose term is t (the first in block order), or nil.
func (c *Ctx) valueOfTerm(fn *ssa.Function, t string) ssa.Value {
	var out ssa.Value
	instrs(fn, func(in ssa.Instruction) {
		if out != nil {
			return
		}
		if v, ok := in.(ssa.Value); ok && c.term(fn, v) == t {
			out = v
		}
	})
	return out
}

// fieldSource: the SSA value (of fn) that ends up in field f of the struct value v: the value
// stored into a composite literal, or — when v is made by a constructor helper that stores one
// of its parameters there — the argument passed for that parameter. nil when unknown.
func (c *Ctx) fieldSource(fn *ssa.Function, v ssa.Value, f string, use ssa.Instruction) ssa.Value {
	v = unwrapIface(v)
	switch x := v.(type) {
	case *ssa.Alloc:
		return fieldValue(x, f, use)
	case *ssa.UnOp:
		if a, ok := x.X.(*ssa.Alloc); ok {
			return fieldValue(a, f, x)
		}
	case *ssa.Call:
		g := callee(x)
		if g == nil || !c.W.InRepo(g) || g == fn || len(g.Blocks) == 0 {
			return nil
		}
		rets := returnsOf(g)
		if len(rets) != 1 || len(rets[0].Results) != 1 {
			return nil
		}
		inner := c.fieldSource(g, rets[0].Results[0], f, rets[0])
		if p, ok := inner.(*ssa.Parameter); ok {
			if k := paramIndex(g, p); k >= 0 && k < len(x.Call.Args) {
				return x.Call.Args[k]
			}
		}
	}
	return nil
}

// deepLeaf: an alternative of a value, as a term of the function the search started in;
// inFn is the defining instruction when the alternative is a value of that function itself.
type deepLeaf struct {
	fromCallee bool // the value is made inside a helper; inFn is the call of that helper
	term string
	inFn ssa.Instruction
}

// deepLeaves lists the alternatives of v: merges are opened; a result of a small repo helper
// is replaced by the helper's own alternatives at its successful returns — a parameter of the
// helper stands for the caller's argument (followed further in the caller), anything else is
// rewritten into the caller's terms.
func (c *Ctx) deepLeaves(fn *ssa.Function, v ssa.Value, depth int) []deepLeaf {
	var out []deepLeaf
	var leaves []ssa.Value
	phiLeaves(v, map[ssa.Value]bool{}, &leaves)
	for _, lf := range leaves {
		if ex, ok := lf.(*ssa.Extract); ok && depth > 0 {
			if call, ok := ex.Tuple.(*ssa.Call); ok {
				g := callee(call)
				if g != nil && g != fn && c.W.InRepo(g) && len(g.Blocks) > 0 && len(g.Blocks) <= 24 {
					var sub []deepLeaf
					okAll := true
					for _, r := range returnsOf(g) {
						if ex.Index >= len(r.Results) || !c.mayBeSuccessRet(g, r) {
							continue
						}
						var gl []ssa.Value
						phiLeaves(r.Results[ex.Index], map[ssa.Value]bool{}, &gl)
						for _, x := range gl {
							if p, isP := x.(*ssa.Parameter); isP {
								if k := paramIndex(g, p); k >= 0 && k < len(call.Call.Args) {
									sub = append(sub, c.deepLeaves(fn, call.Call.Args[k], depth-1)...)
									continue
								}
							}
							t := c.term(g, x)
							if strings.Contains(quotedRe.ReplaceAllString(t, `""`), "@") {
								okAll = false
							}
							// (where the value comes into being, seen from fn: the call)
							sub = append(sub, deepLeaf{term: c.substParams(fn, call, t), inFn: call, fromCallee: true})
						}
					}
					if okAll && len(sub) > 0 {
						out = append(out, sub...)
						continue
					}
				}
			}
		}
		dl := deepLeaf{term: c.term(fn, lf)}
		if in, ok := lf.(ssa.Instruction); ok {
			dl.inFn = in
		}
		out = append(out, dl)
	}
	return out
}

// storeAlt: one value a local variable can hold at a point of use, with the literals that hold
// whenever that value is the one read.
type storeAlt struct {
	val  ssa.Value
	st   *ssa.Store
	must []string
}

// reachingStores: for a local that lives in memory (a struct variable whose fields are read
// cannot be turned into registers by go/ssa), the assignments that can be the last one before
// use — the memory counterpart of the edges of a φ. Each comes with the literals of the
// assigning block and those common to all paths from the assignment to the use that pass no
// other assignment. nil when the variable's address escapes or a cycle is met.
func (c *Ctx) reachingStores(fn *ssa.Function, a *ssa.Alloc, use ssa.Instruction) []storeAlt {
	if a.Referrers() == nil {
		return nil
	}
	var stores []*ssa.Store
	for _, r := range *a.Referrers() {
		switch x := r.(type) {
		case *ssa.Store:
			if x.Addr != ssa.Value(a) {
				return nil
			}
			stores = append(stores, x)
		case *ssa.FieldAddr:
			for _, fr := range *x.Referrers() {
				if ld, ok := fr.(*ssa.UnOp); !ok || ld.Op != token.MUL {
					return nil
				}
			}
		case *ssa.UnOp, *ssa.DebugRef:
		default:
			return nil
		}
	}
	isStore := func(in ssa.Instruction) bool {
		st, ok := in.(*ssa.Store)
		return ok && st.Addr == ssa.Value(a)
	}
	// killedIn: the block assigns the variable before reaching `upto` (nil: anywhere in it)
	killedIn := func(b *ssa.BasicBlock, from int, upto ssa.Instruction) bool {
		for i := from; i < len(b.Instrs); i++ {
			if b.Instrs[i] == upto {
				return false
			}
			if isStore(b.Instrs[i]) {
				return true
			}
		}
		return false
	}
	t := c.T(fn)
	var out []storeAlt
	for _, s := range stores {
		if killedIn(s.Block(), idxInBlock(s)+1, use) {
			continue
		}
		var common map[string]bool
		nPaths := 0
		fail := false
		onPath := map[*ssa.BasicBlock]bool{}
		var walk func(b *ssa.BasicBlock, lits []string)
		walk = func(b *ssa.BasicBlock, lits []string) {
			if fail {
				return
			}
			if b == use.Block() && (b != s.Block() || len(lits) > 0 || idxInBlock(s) < idxInBlock(use)) {
				if b != s.Block() || len(lits) > 0 {
					if killedIn(b, 0, use) {
						return
					}
				}
				nPaths++
				if nPaths > 512 {
					fail = true
					return
				}
				set := map[string]bool{}
				for _, l := range lits {
					set[l] = true
				}
				if common == nil {
					common = set
				} else {
					for l := range common {
						if !set[l] {
							delete(common, l)
						}
					}
				}
				return
			}
			if onPath[b] {
				fail = true
				return
			}
			onPath[b] = true
			defer delete(onPath, b)
			for _, nx := range b.Succs {
				if nx != use.Block() && nx != s.Block() && killedIn(nx, 0, nil) {
					continue
				}
				if nx == s.Block() {
					fail = true // the assignment is in a cycle
					return
				}
				nl := append([]string{}, lits...)
				if eds := c.PC(fn).edgeDNF(b, nx); len(eds) == 1 {
					for _, l := range eds[0] {
						nl = append(nl, t.Canon(l))
					}
				}
				if len(nl) == len(lits) {
					nl = append(nl, "\x00") // an unconditional edge still makes the path non-empty
				}
				walk(nx, nl)
			}
		}
		walk(s.Block(), nil)
		if fail {
			return nil
		}
		if nPaths == 0 {
			continue
		}
		must := append([]string{}, c.mustLits(fn, s.Block())...)
		for l := range common {
			if l != "\x00" {
				must = append(must, l)
			}
		}
		sort.Strings(must)
		out = append(out, storeAlt{val: s.Val, st: s, must: must})
	}
	return out
}

// reachingFieldStores: the same for one field of a local record that is filled field by field
// (`tok.Type = a; if c { tok.Type = b }`): the assignments to the field that can be the last one
// before use. nil when the record is also assigned as a whole or a cycle is met.
func (c *Ctx) reachingFieldStores(fn *ssa.Function, a *ssa.Alloc, field string, use ssa.Instruction) []storeAlt {
	if a.Referrers() == nil {
		return nil
	}
	var stores []*ssa.Store
	fas := map[ssa.Value]bool{}
	for _, r := range *a.Referrers() {
		switch x := r.(type) {
		case *ssa.Store:
			if x.Addr == ssa.Value(a) {
				// assigned as a whole: ends what is known about the field (if such an
				// assignment can be the last one before use, the answer is "unknown")
				stores = append(stores, x)
				fas[x.Addr] = true
			}
		case *ssa.FieldAddr:
			if fieldName(x.X.Type(), x.Field) != field || x.Referrers() == nil {
				continue
			}
			fas[x] = true
			for _, fr := range *x.Referrers() {
				if st, ok := fr.(*ssa.Store); ok && st.Addr == ssa.Value(x) {
					stores = append(stores, st)
				}
			}
		}
	}
	isStore := func(in ssa.Instruction) bool {
		st, ok := in.(*ssa.Store)
		return ok && fas[st.Addr]
	}
	// killedIn: the block assigns the variable before reaching `upto` (nil: anywhere in it)
	killedIn := func(b *ssa.BasicBlock, from int, upto ssa.Instruction) bool {
		for i := from; i < len(b.Instrs); i++ {
			if b.Instrs[i] == upto {
				return false
			}
			if isStore(b.Instrs[i]) {
				return true
			}
		}
		return false
	}
	t := c.T(fn)
	var out []storeAlt
	for _, s := range stores {
		if killedIn(s.Block(), idxInBlock(s)+1, use) {
			continue
		}
		var common map[string]bool
		nPaths := 0
		fail := false
		onPath := map[*ssa.BasicBlock]bool{}
		var walk func(b *ssa.BasicBlock, lits []string)
		walk = func(b *ssa.BasicBlock, lits []string) {
			if fail {
				return
			}
			if b == use.Block() && (b != s.Block() || len(lits) > 0 || idxInBlock(s) < idxInBlock(use)) {
				if b != s.Block() || len(lits) > 0 {
					if killedIn(b, 0, use) {
						return
					}
				}
				nPaths++
				if nPaths > 512 {
					fail = true
					return
				}
				set := map[string]bool{}
				for _, l := range lits {
					set[l] = true
				}
				if common == nil {
					common = set
				} else {
					for l := range common {
						if !set[l] {
							delete(common, l)
						}
					}
				}
				return
			}
			if onPath[b] {
				fail = true
				return
			}
			onPath[b] = true
			defer delete(onPath, b)
			for _, nx := range b.Succs {
				if nx != use.Block() && nx != s.Block() && killedIn(nx, 0, nil) {
					continue
				}
				if nx == s.Block() {
					fail = true // the assignment is in a cycle
					return
				}
				nl := append([]string{}, lits...)
				if eds := c.PC(fn).edgeDNF(b, nx); len(eds) == 1 {
					for _, l := range eds[0] {
						nl = append(nl, t.Canon(l))
					}
				}
				if len(nl) == len(lits) {
					nl = append(nl, "\x00") // an unconditional edge still makes the path non-empty
				}
				walk(nx, nl)
			}
		}
		walk(s.Block(), nil)
		if fail {
			return nil
		}
		if nPaths == 0 {
			continue
		}
		must := append([]string{}, c.mustLits(fn, s.Block())...)
		for l := range common {
			if l != "\x00" {
				must = append(must, l)
			}
		}
		sort.Strings(must)
		out = append(out, storeAlt{val: s.Val, st: s, must: must})
	}
	for _, o := range out {
		if o.st.Addr == ssa.Value(a) {
			return nil
		}
	}
	return out
}

// memVar: when v reads a local variable that lives in memory — the variable itself or one of
// its fields — the variable.
func memVar(v ssa.Value) *ssa.Alloc {
	ld, ok := v.(*ssa.UnOp)
	if !ok || ld.Op != token.MUL {
		return nil
	}
	switch x := ld.X.(type) {
	case *ssa.Alloc:
		return x
	case *ssa.FieldAddr:
		if a, ok := x.X.(*ssa.Alloc); ok {
			return a
		}
	}
	return nil
}

// guardedAlt: one value an expression can take, with literals that hold whenever it does.
type guardedAlt struct {
	term string
	must []string
}

// resultAlts lists the alternatives of v with their guards: the edges of a merge; or, when v is
// a result of a small loop-free read-only repo helper (`func (l *Lexer) decodeNext() (rune, int)`),
// what the helper returns on each of its paths, rewritten into fn's terms, guarded by the path
// inside the helper and by the call's own guards. Anything else is one alternative.
func (c *Ctx) resultAlts(fn *ssa.Function, v ssa.Value) []guardedAlt {
	if p, ok := v.(*ssa.Phi); ok && !isLoopHeader(p.Block()) {
		var out []guardedAlt
		for i, e := range p.Edges {
			for _, a := range c.resultAlts(fn, e) {
				a.must = append(append([]string{}, a.must...), c.edgeMust(fn, p.Block().Preds[i], p.Block())...)
				out = append(out, a)
			}
		}
		return out
	}
	var call *ssa.Call
	idx := 0
	switch x := v.(type) {
	case *ssa.Extract:
		call, _ = x.Tuple.(*ssa.Call)
		idx = x.Index
	case *ssa.Call:
		call = x
	}
	single := func() []guardedAlt {
		var must []string
		if in, ok := v.(ssa.Instruction); ok && in.Block() != nil {
			must = c.mustLits(fn, in.Block())
		}
		return []guardedAlt{{term: c.term(fn, v), must: must}}
	}
	if call == nil || call.Call.IsInvoke() {
		return single()
	}
	g := call.Call.StaticCallee()
	if g == nil || g == fn || !c.W.InRepo(g) || len(g.Blocks) == 0 || len(g.Blocks) > 16 || c.T(fn).purity(g) < purReadOnly {
		return single()
	}
	for _, b := range g.Blocks {
		if isLoopHeader(b) {
			return single()
		}
	}
	pcg := c.PC(g)
	pc := c.PC(fn)
	base := c.mustLits(fn, call.Block())
	var out []guardedAlt
	for _, r := range returnsOf(g) {
		if idx >= len(r.Results) {
			return single()
		}
		d := pcg.At(r.Block())
		if d.unknown {
			return single()
		}
		for _, inner := range c.resultAlts(g, r.Results[idx]) {
			if strings.Contains(quotedRe.ReplaceAllString(inner.term, `""`), "phi(") {
				return single()
			}
			ts, ok := pc.substSummary(call, []conj{{"+" + inner.term}})
			if !ok || len(ts) != 1 || len(ts[0]) != 1 {
				return single()
			}
			for _, cj := range d.cs {
				cs, ok := pc.substSummary(call, []conj{cj})
				if !ok {
					return single()
				}
				if len(cs) == 0 {
					continue
				}
				a := guardedAlt{term: c.T(fn).Canon(ts[0][0][1:]), must: append([]string{}, base...)}
				for _, l := range cs[0] {
					a.must = append(a.must, c.T(fn).Canon(l))
				}
				out = append(out, a)
			}
		}
	}
	if len(out) == 0 {
		return single()
	}
	return out
}

// vCall: a call of some target function that fn performs itself or through helpers, with the
// arguments and the reaching condition rewritten into fn's terms.
type vCall struct {
	site   ssa.CallInstruction // the call instruction in fn (of the target, or of the helper that leads to it)
	inner  ssa.CallInstruction // the call of the target itself
	origin *ssa.Function       // the function containing inner
	argT   []string
	cond   dnf
	blocks []*ssa.BasicBlock // the blocks of the call chain, outermost first
}

// virtualCalls lists the calls of target made by fn directly or through repo helpers (up to
// depth further calls), as fn would see them were the helpers written in place.
func (c *Ctx) virtualCalls(fn, target *ssa.Function, depth int) []vCall {
	return c.virtualCallsRec(fn, target, depth, map[*ssa.Function]bool{})
}

func (c *Ctx) virtualCallsRec(fn, target *ssa.Function, depth int, stack map[*ssa.Function]bool) []vCall {
	pc := c.PC(fn)
	stack[fn] = true
	defer delete(stack, fn)
	var out []vCall
	for _, ci := range callsIn(fn) {
		g := callee(ci)
		if g == nil {
			continue
		}
		in := ci.(ssa.Instruction)
		cond := pc.canonOf(pc.At(in.Block()))
		if cond.unknown {
			cond = mkDNF(pc.Must(in.Block()))
		}
		if g == target {
			vc := vCall{site: ci, inner: ci, origin: fn, cond: cond, blocks: []*ssa.BasicBlock{in.Block()}}
			for _, a := range ci.Common().Args {
				vc.argT = append(vc.argT, c.term(fn, a))
			}
			out = append(out, vc)
			continue
		}
		if depth == 0 || !c.W.InRepo(g) || stack[g] || len(g.Blocks) == 0 || len(c.W.callsReaching(g, target, depth-1)) == 0 {
			continue
		}
		for _, sub := range c.virtualCallsRec(g, target, depth-1, stack) {
			vc := vCall{site: ci, inner: sub.inner, origin: sub.origin, blocks: append([]*ssa.BasicBlock{in.Block()}, sub.blocks...)}
			for _, t := range sub.argT {
				vc.argT = append(vc.argT, c.substParams(fn, ci, t))
			}
			sc := dnf{unknown: sub.cond.unknown}
			for _, cj := range sub.cond.cs {
				var n conj
				for _, l := range cj {
					n = append(n, normLit(l[:1]+c.substParams(fn, ci, l[1:])))
				}
				sort.Strings(n)
				sc.cs = append(sc.cs, n)
			}
			vc.cond = andDNF(cond, sc)
			out = append(out, vc)
		}
	}
	return out
}

// originLeaf: where a value ultimately comes from — a value of some function that is not a
// merge, a result of a repo function, or a field of a local record. term is the value spelled
// in the terms of the function the search started in (parameters of helpers on the way replaced
// by the arguments they were called with).
type originLeaf struct {
	fn   *ssa.Function
	v    ssa.Value
	term string
}

func (c *Ctx) originLeaves(fn *ssa.Function, v ssa.Value) []originLeaf {
	var out []originLeaf
	seen := map[ssa.Value]bool{}
	type callCtx struct {
		fn   *ssa.Function
		call ssa.CallInstruction
	}
	leaf := func(f *ssa.Function, x ssa.Value, chain []callCtx) originLeaf {
		t := c.term(f, x)
		for i := len(chain) - 1; i >= 0; i-- {
			t = c.substParams(chain[i].fn, chain[i].call, t)
		}
		return originLeaf{f, x, t}
	}
	var walk func(f *ssa.Function, x ssa.Value, depth int, chain []callCtx)
	var walkField func(f *ssa.Function, rec ssa.Value, field string, depth int, chain []callCtx)
	storesTo := func(a *ssa.Alloc, field string) (fieldVals, wholeVals []ssa.Value) {
		if a.Referrers() == nil {
			return
		}
		for _, r := range *a.Referrers() {
			switch y := r.(type) {
			case *ssa.Store:
				if y.Addr == ssa.Value(a) {
					wholeVals = append(wholeVals, y.Val)
				}
			case *ssa.FieldAddr:
				if field == "" || fieldName(y.X.Type(), y.Field) != field || y.Referrers() == nil {
					continue
				}
				for _, r2 := range *y.Referrers() {
					if st, ok := r2.(*ssa.Store); ok && st.Addr == ssa.Value(y) {
						fieldVals = append(fieldVals, st.Val)
					}
				}
			}
		}
		return
	}
	walkField = func(f *ssa.Function, rec ssa.Value, field string, depth int, chain []callCtx) {
		if depth > 12 {
			out = append(out, leaf(f, rec, chain))
			return
		}
		switch x := rec.(type) {
		case *ssa.Phi:
			for _, e := range x.Edges {
				walkField(f, e, field, depth+1, chain)
			}
			return
		case *ssa.UnOp:
			if a, ok := x.X.(*ssa.Alloc); ok && x.Op == token.MUL {
				fv, wv := storesTo(a, field)
				for _, v2 := range fv {
					walk(f, v2, depth+1, chain)
				}
				for _, v2 := range wv {
					walkField(f, v2, field, depth+1, chain)
				}
				if len(fv)+len(wv) == 0 {
					out = append(out, leaf(f, rec, chain)) // never assigned: the zero value
				}
				return
			}
		case *ssa.Extract:
			if call, ok := x.Tuple.(*ssa.Call); ok {
				if g := callee(call); g != nil && c.W.InRepo(g) && len(g.Blocks) > 0 {
					for _, r := range returnsOf(g) {
						if x.Index < len(r.Results) {
							if c.mayBeSuccessRet(g, r) {
								walkField(g, r.Results[x.Index], field, depth+1, append(append([]callCtx{}, chain...), callCtx{f, call}))
							}
						}
					}
					return
				}
			}
		case *ssa.Call:
			if g := callee(x); g != nil && c.W.InRepo(g) && len(g.Blocks) > 0 && g.Signature.Results().Len() == 1 {
				for _, r := range returnsOf(g) {
					if c.mayBeSuccessRet(g, r) {
						walkField(g, r.Results[0], field, depth+1, append(append([]callCtx{}, chain...), callCtx{f, x}))
					}
				}
				return
			}
		}
		out = append(out, leaf(f, rec, chain))
	}
	walk = func(f *ssa.Function, x ssa.Value, depth int, chain []callCtx) {
		if seen[x] || depth > 12 {
			return
		}
		seen[x] = true
		switch y := x.(type) {
		case *ssa.Phi:
			for _, e := range y.Edges {
				walk(f, e, depth+1, chain)
			}
			return
		case *ssa.Extract:
			if call, ok := y.Tuple.(*ssa.Call); ok {
				if g := callee(call); g != nil && c.W.InRepo(g) && len(g.Blocks) > 0 {
					for _, r := range returnsOf(g) {
						if y.Index < len(r.Results) {
							if c.mayBeSuccessRet(g, r) {
								walk(g, r.Results[y.Index], depth+1, append(append([]callCtx{}, chain...), callCtx{f, call}))
							}
						}
					}
					return
				}
			}
		case *ssa.Call:
			if g := callee(y); g != nil && c.W.InRepo(g) && len(g.Blocks) > 0 && g.Signature.Results().Len() == 1 && !y.Call.IsInvoke() {
				for _, r := range returnsOf(g) {
					if c.mayBeSuccessRet(g, r) {
						walk(g, r.Results[0], depth+1, append(append([]callCtx{}, chain...), callCtx{f, y}))
					}
				}
				return
			}
		case *ssa.Field:
			walkField(f, y.X, fieldName(y.X.Type(), y.Field), depth+1, chain)
			return
		case *ssa.UnOp:
			if y.Op == token.MUL {
				if fa, ok := y.X.(*ssa.FieldAddr); ok {
					if a, ok := fa.X.(*ssa.Alloc); ok {
						fld := fieldName(fa.X.Type(), fa.Field)
						fv, wv := storesTo(a, fld)
						if len(fv)+len(wv) > 0 {
							for _, v2 := range fv {
								walk(f, v2, depth+1, chain)
							}
							for _, v2 := range wv {
								walkField(f, v2, fld, depth+1, chain)
							}
							return
						}
					}
				}
				if a, ok := y.X.(*ssa.Alloc); ok {
					// a local variable: what was assigned to it as a whole (for a record, the record
					// it was copied from — later updates of single fields do not change where it is from)
					_, wv := storesTo(a, "")
					if len(wv) > 0 {
						for _, v2 := range wv {
							walk(f, v2, depth+1, chain)
						}
						return
					}
				}
				// through a pointer that a repo function returned: the variable it points to
				if _, isFA := y.X.(*ssa.FieldAddr); !isFA {
					if _, isA := y.X.(*ssa.Alloc); !isA && depth < 8 {
						var ptrs []originLeaf
						for _, pl := range c.originLeaves(f, y.X) {
							if !isNilConst(pl.v) { // a nil pointer is never read through
								ptrs = append(ptrs, pl)
							}
						}
						all := len(ptrs) > 0
						for _, pl := range ptrs {
							if _, ok := pl.v.(*ssa.Alloc); !ok {
								all = false
							}
						}
						if all {
							for _, pl := range ptrs {
								_, wv := storesTo(pl.v.(*ssa.Alloc), "")
								if len(wv) == 0 {
									out = append(out, pl)
								}
								for _, v2 := range wv {
									walk(pl.fn, v2, depth+1, nil)
								}
							}
							return
						}
					}
				}
			}
		}
		out = append(out, leaf(f, x, chain))
	}
	walk(fn, v, 0, nil)
	return out
}

// nearPos: a source position for an instruction that may have none (jumps, phis): the first
// positioned instruction of its block, else of a predecessor's branch.
func (c *Ctx) nearPos(in ssa.Instruction) string {
	if in == nil {
		return "-"
	}
	if in.Pos().IsValid() {
		return c.W.Pos(in.Pos())
	}
	for _, x := range in.Block().Instrs {
		if x.Pos().IsValid() {
			return c.W.Pos(x.Pos())
		}
	}
	for _, p := range in.Block().Preds {
		for i := len(p.Instrs) - 1; i >= 0; i-- {
			if ifi, ok := p.Instrs[i].(*ssa.If); ok {
				if v, ok := ifi.Cond.(ssa.Instruction); ok && v.Pos().IsValid() {
					return "the branch at " + c.W.Pos(v.Pos())
				}
			}
			if p.Instrs[i].Pos().IsValid() {
				return c.W.Pos(p.Instrs[i].Pos())
			}
		}
	}
	return "the loop header"
}

// feasibleEdges: an edge filter that prunes error edges and branch edges whose literal contradicts
// every way of reaching the branch (full path conditions, not only the common literals): after
// `for cur != ':' && cur != '{' {…}` the "neither" edge of `if cur == ':' {…} else if cur == '{' {…}`
// cannot be taken.
func (c *Ctx) feasibleEdges(fn *ssa.Function) func(*ssa.BasicBlock, int) bool {
	pc := c.PC(fn)
	return func(b *ssa.BasicBlock, succ int) bool {
		if !notErrorEdge(b, succ) {
			return false
		}
		if succ >= len(b.Succs) {
			return true
		}
		lit := pc.edgeLit(b, b.Succs[succ])
		if lit == "" {
			return true
		}
		d := pc.At(b)
		if d.unknown || len(d.cs) == 0 {
			return true
		}
		for _, cj := range d.cs {
			if _, ok := conjAdd(cj, lit); ok {
				return true
			}
		}
		return false
	}
}
