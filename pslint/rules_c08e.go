package main

import (
	"fmt"
	"go/token"
	"go/types"
	"strings"

	"golang.org/x/tools/go/ssa"
)

func init() {
	register(&Rule{ID: "C08.e", Doc: "order-bearing lists are never permuted: nothing of the repository's own types is sorted, shuffled, reversed or overwritten in place", Floor: 2, Run: c08e})
}

// permuters: library entry points that move the elements of the slice they are given.
func permuter(name string) bool {
	switch {
	case strings.HasPrefix(name, "sort."):
		return !strings.HasPrefix(name, "sort.Search") && !strings.Contains(name, "IsSorted") && !strings.HasPrefix(name, "sort.Find")
	case strings.HasPrefix(name, "slices."):
		for _, p := range []string{"slices.Sort", "slices.Reverse", "slices.Insert", "slices.Delete", "slices.Compact", "slices.Replace", "slices.Clip", "slices.Grow"} {
			if strings.HasPrefix(name, p) {
				return true
			}
		}
		return false
	case strings.HasPrefix(name, "math/rand.Shuffle"), strings.HasPrefix(name, "math/rand/v2.Shuffle"), strings.HasPrefix(name, "(*math/rand.Rand).Shuffle"), name == "reflect.Swapper", strings.HasPrefix(name, "container/heap."):
		return true
	}
	return false
}

// localSlice: the slice was made in this function (make, a literal, nil, appends to such) — it is
// not a list read from a statement, a parser record or a parameter.
func localSlice(v ssa.Value, seen map[ssa.Value]bool) bool {
	if seen[v] {
		return true
	}
	seen[v] = true
	switch x := v.(type) {
	case *ssa.MakeSlice:
		return true
	case *ssa.Const:
		return x.IsNil()
	case *ssa.Slice:
		if a, ok := x.X.(*ssa.Alloc); ok {
			_, isArr := a.Type().Underlying().(*types.Pointer).Elem().Underlying().(*types.Array)
			return isArr
		}
		return localSlice(x.X, seen)
	case *ssa.Phi:
		for _, e := range x.Edges {
			if !localSlice(e, seen) {
				return false
			}
		}
		return true
	case *ssa.Call:
		if calleeName(x) == "builtin:append" {
			return localSlice(x.Call.Args[0], seen)
		}
		return false
	case *ssa.ChangeType:
		return localSlice(x.X, seen)
	case *ssa.Convert:
		return localSlice(x.X, seen)
	case *ssa.MakeInterface:
		return localSlice(x.X, seen)
	case *ssa.UnOp:
		if x.Op != token.MUL {
			return false
		}
		a, ok := x.X.(*ssa.Alloc)
		if !ok || a.Referrers() == nil {
			return false
		}
		// a local variable that lives in a cell (captured by a closure): every value stored in
		// it is local, and the closures that capture it only read it
		for _, r := range *a.Referrers() {
			switch y := r.(type) {
			case *ssa.Store:
				if y.Addr == ssa.Value(a) && !localSlice(y.Val, seen) {
					return false
				}
			case *ssa.UnOp, *ssa.DebugRef:
			case *ssa.MakeClosure:
				cl, _ := y.Fn.(*ssa.Function)
				for i, b := range y.Bindings {
					if b != ssa.Value(a) || cl == nil || i >= len(cl.FreeVars) {
						continue
					}
					fv := cl.FreeVars[i]
					if fv.Referrers() == nil {
						continue
					}
					for _, r2 := range *fv.Referrers() {
						if u, isLd := r2.(*ssa.UnOp); isLd && u.Op == token.MUL {
							continue
						}
						if _, isDbg := r2.(*ssa.DebugRef); isDbg {
							continue
						}
						return false
					}
				}
			default:
				return false
			}
		}
		return true
	}
	return false
}

// repoElem: the slice's elements are of a type the repository declares (tokens, statements,
// entries, records, chunks) or contain one.
func repoElem(w *World, t types.Type, depth int) bool {
	if depth > 4 {
		return false
	}
	switch x := t.(type) {
	case *types.Named:
		if x.Obj() != nil && x.Obj().Pkg() != nil && w.InRepoPkg(x.Obj().Pkg()) {
			return true
		}
		return repoElem(w, x.Underlying(), depth+1)
	case *types.Pointer:
		return repoElem(w, x.Elem(), depth+1)
	case *types.Slice:
		return repoElem(w, x.Elem(), depth+1)
	case *types.Array:
		return repoElem(w, x.Elem(), depth+1)
	case *types.Map:
		return repoElem(w, x.Elem(), depth+1) || repoElem(w, x.Key(), depth+1)
	case *types.Interface:
		return false
	}
	return false
}

func c08e(c *Ctx) {
	nFns := 0
	for _, fn := range c.W.Funcs {
		if isTestFunc(c.W, fn) || len(fn.Blocks) == 0 {
			continue
		}
		nFns++
		fk := c.W.FuncKey(fn)
		// (i) whatever is handed to a sorting / shuffling / in-place editing library routine is a
		// list of plain values made on the spot (the names of a map's keys, chunk numbers)
		for _, ci := range callsIn(fn) {
			name := calleeName(ci)
			if !permuter(name) || len(ci.Common().Args) == 0 {
				continue
			}
			arg := ci.Common().Args[0]
			t := arg.Type()
			if mi, ok := arg.(*ssa.MakeInterface); ok {
				t = mi.X.Type()
			}
			plain := false
			if sl, ok := t.Underlying().(*types.Slice); ok {
				_, plain = sl.Elem().Underlying().(*types.Basic)
			}
			local := localSlice(arg, map[ssa.Value]bool{})
			c.Check(plain && local, fmt.Sprintf("%s/reorders-only-a-local-list-of-plain-values@%d", fk, c.T(fn).callOrd[ci]), c.W.Pos(ci.Pos()),
				name+" is given a list of plain values made in this function",
				name+" is given "+pretty(c.term(fn, arg))+" ("+types.TypeString(t, nil)+"): "+map[bool]string{true: "", false: "its elements are not plain values; "}[plain]+map[bool]string{true: "", false: "the list was not made here (it is read from a statement, a record or a parameter); "}[local]+"the order of what the source wrote is part of the output, a list taken from the program must not be rearranged")
		}
		// (ii) no element of a list of the repository's own types is overwritten in place (a swap,
		// a rotation, a hand-written sort), unless the list was made in the same function
		n := 0
		instrs(fn, func(in ssa.Instruction) {
			st, ok := in.(*ssa.Store)
			if !ok {
				return
			}
			ia, ok := st.Addr.(*ssa.IndexAddr)
			if !ok {
				return
			}
			sl, ok := ia.X.Type().Underlying().(*types.Slice)
			if !ok {
				return
			}
			// (in the emitter: lists of any kind — it renders what it is given, a command's
			// arguments included; the parser patches hoisted labels into argument lists: C06)
			if !repoElem(c.W, sl.Elem(), 0) && c.W.PkgShort(fn) != "emitter" {
				// ... and in the parser only the two registering functions do (the label of a
				// hoisted text or movement goes into the slot kept free for it: C06.a/b); any other
				// rewriting of an argument list changes what the author wrote
				if c.W.PkgShort(fn) != "parser" || fn.Name() == "addImplicitTexts" || fn.Name() == "addImplicitMovements" {
					return
				}
				if b, isB := sl.Elem().Underlying().(*types.Basic); !isB || b.Kind() != types.String {
					return
				}
			}
			if _, fresh := ia.X.(*ssa.Slice); fresh && localSlice(ia.X, map[ssa.Value]bool{}) {
				return // the backing array of a literal / variadic argument list being filled
			}
			if localSlice(ia.X, map[ssa.Value]bool{}) {
				return
			}
			n++
			c.Bad(fmt.Sprintf("%s/element-overwritten-in-place#%d", fk, n), c.W.Pos(st.Pos()), "an element of "+pretty(c.term(fn, ia.X))+" ("+types.TypeString(sl, nil)+") is overwritten in place: lists of tokens, statements, entries and records keep the order and content they were built with")
		})
		// (iv) the parser never cuts a list of tokens, statements or records: what a list parser
		// returned is what is kept (popping one of the parser's own stacks is the one exception)
		if c.W.PkgShort(fn) == "parser" {
			k := 0
			instrs(fn, func(in ssa.Instruction) {
				sl, ok := in.(*ssa.Slice)
				if !ok {
					return
				}
				st, isSl := sl.X.Type().Underlying().(*types.Slice)
				if !isSl || !repoElem(c.W, st.Elem(), 0) {
					return
				}
				if sl.Low == nil && sl.High == nil && sl.Max == nil {
					return // x[:] is x
				}
				pop := false
				if ld, isLd := sl.X.(*ssa.UnOp); isLd {
					if _, t, f, okF := fieldAddrOf(ld.X); okF && typeIs(t, "parser", "Parser") && sl.Referrers() != nil && len(*sl.Referrers()) > 0 {
						pop = true
						for _, r := range *sl.Referrers() {
							if _, isDbg := r.(*ssa.DebugRef); isDbg {
								continue
							}
							stI, isSt := r.(*ssa.Store)
							if !isSt {
								pop = false
								continue
							}
							if _, t2, f2, ok2 := fieldAddrOf(stI.Addr); !ok2 || f2 != f || !typeIs(t2, "parser", "Parser") {
								pop = false
							}
						}
					}
				}
				if pop {
					return
				}
				k++
				c.Bad(fmt.Sprintf("%s/list-cut#%d", fk, k), c.W.Pos(sl.Pos()), "the list "+pretty(c.term(fn, sl.X))+" ("+types.TypeString(st, nil)+") is cut to "+pretty(c.term(fn, sl))+": the parser keeps the lists of tokens, statements and records it gathered whole")
			})
		}
		// (vi) appending to a cut-out front part of a list writes over what follows it in the
		// shared backing array, without any store instruction to see: nothing is ever appended to
		// `x[:i]` of a list that was not made here
		for _, ci := range callsIn(fn) {
			if calleeName(ci) != "builtin:append" {
				continue
			}
			sl, isSl := ci.Common().Args[0].(*ssa.Slice)
			if !isSl || sl.High == nil || sl.Max != nil {
				continue
			}
			if _, isArr := sl.X.(*ssa.Alloc); isArr || localSlice(sl.X, map[ssa.Value]bool{}) {
				continue
			}
			if k, isC := sl.High.(*ssa.Const); isC && k.Int64() == 0 {
				continue // x[:0] reuse of an own buffer is caught by localSlice above if it is own; of a foreign list it overwrites
			}
			c.Bad(fmt.Sprintf("%s/appended-onto-a-front-part@%d", fk, c.T(fn).callOrd[ci]), c.W.Pos(ci.Pos()), "append onto "+pretty(c.term(fn, sl))+": the elements that follow the cut in the shared list are overwritten in place")
		}
		// (iii) copy() into such a list
		for _, ci := range callsIn(fn) {
			if calleeName(ci) != "builtin:copy" {
				continue
			}
			dst := ci.Common().Args[0]
			sl, ok := dst.Type().Underlying().(*types.Slice)
			if !ok || !repoElem(c.W, sl.Elem(), 0) || localSlice(dst, map[ssa.Value]bool{}) {
				continue
			}
			c.Bad(fmt.Sprintf("%s/copied-over@%d", fk, c.T(fn).callOrd[ci]), c.W.Pos(ci.Pos()), "copy() overwrites "+pretty(c.term(fn, dst))+" ("+types.TypeString(sl, nil)+"), a list that was not made in this function")
		}
	}
	c08eWhole(c)
	c.Check(nFns > 20, "scanned", "-", fmt.Sprintf("%d functions scanned for sorting calls, in-place element stores and copies", nFns), "too few functions were scanned")
}

// c08eWhole: (v) a list a parser function returns (statements, tokens) is taken whole by its
// caller: appended as a whole, stored, put in a table, returned. The caller does not walk through
// it, index it, cut it or hand it to a helper — the only code that decides what a list contains is
// the list parser that gathered it.
func c08eWhole(c *Ctx) {
	nLists := 0
	for _, fn := range c.W.FuncsOf("parser") {
		if isTestFunc(c.W, fn) || len(fn.Blocks) == 0 {
			continue
		}
		for _, ci := range callsIn(fn) {
			g := callee(ci)
			call, isCall := ci.(*ssa.Call)
			if !isCall {
				continue
			}
			var res *types.Tuple
			if g != nil {
				if !c.W.InRepo(g) || c.W.PkgShort(g) != "parser" {
					continue
				}
				res = g.Signature.Results()
			} else if _, isB := call.Call.Value.(*ssa.Builtin); isB {
				continue
			} else if sig, ok := call.Call.Value.Type().Underlying().(*types.Signature); ok && !call.Call.IsInvoke() {
				res = sig.Results() // a list parser handed in as a function value
			}
			if res == nil || res.Len() == 0 {
				continue
			}
			sl, isSl := res.At(0).Type().Underlying().(*types.Slice)
			if !isSl || !repoElem(c.W, sl.Elem(), 0) {
				continue
			}
			var v ssa.Value = call
			if res.Len() > 1 {
				v = nil
				for _, r := range *call.Referrers() {
					if ex, ok := r.(*ssa.Extract); ok && ex.Index == 0 {
						v = ex
					}
				}
			}
			if v == nil {
				continue // discarded: C01.h
			}
			nLists++
			name := "a list parser passed in"
			if g != nil {
				name = g.Name()
			}
			key := fmt.Sprintf("%s/list-taken-whole[%s@%d]", fn.Name(), name, c.T(fn).callOrd[ci])
			bad := ""
			ctorDepth := 0
			seen := map[ssa.Value]bool{}
			var walk func(x ssa.Value)
			walk = func(x ssa.Value) {
				if seen[x] || x.Referrers() == nil {
					return
				}
				seen[x] = true
				for _, r := range *x.Referrers() {
					switch y := r.(type) {
					case *ssa.DebugRef, *ssa.Return, *ssa.MapUpdate:
					case *ssa.Phi:
						walk(y)
					case *ssa.ChangeType:
						walk(y)
					case *ssa.Store:
						if a, isA := y.Addr.(*ssa.Alloc); isA && y.Val == x && a.Referrers() != nil {
							// a local variable kept in a cell: follow its loads
							for _, r2 := range *a.Referrers() {
								if ld, isLd := r2.(*ssa.UnOp); isLd {
									walk(ld)
								}
							}
						}
					case *ssa.BinOp:
						// compared with nil
					case *ssa.Call:
						switch calleeName(y) {
						case "builtin:len", "builtin:cap":
						case "builtin:append":
							if y.Call.Args[0] == x {
								walk(y) // grown at its end: still the list
							}
						default:
							// a constructor that takes the list whole (stores it into the record or
							// node it makes, or hands it on the same way) keeps it whole
							okCtor := false
							if g := callee(y); g != nil && c.W.InRepo(g) && len(g.Blocks) > 0 && ctorDepth < 2 {
								for j, a := range y.Call.Args {
									if a != x || j >= len(g.Params) {
										continue
									}
									ctorDepth++
									saveBad := bad
									bad = ""
									nStores := 0
									if g.Params[j].Referrers() != nil {
										for _, r2 := range *g.Params[j].Referrers() {
											if st2, isSt := r2.(*ssa.Store); isSt && st2.Val == ssa.Value(g.Params[j]) {
												if _, isFA := st2.Addr.(*ssa.FieldAddr); isFA {
													nStores++
												}
											}
										}
									}
									walk(g.Params[j])
									okCtor = bad == "" && nStores > 0
									bad = saveBad
									ctorDepth--
								}
							}
							if !okCtor {
								bad = "handed to " + calleeName(y) + " at " + c.W.Pos(y.Pos())
							}
						}
					case *ssa.Range, *ssa.Index, *ssa.IndexAddr, *ssa.Lookup:
						bad = "walked through or indexed at " + c.W.Pos(r.Pos())
					case *ssa.Slice:
						if y.Low != nil || y.High != nil || y.Max != nil {
							bad = "cut at " + c.W.Pos(r.Pos())
						} else {
							walk(y)
						}
					default:
						bad = fmt.Sprintf("used by %T at %s", r, c.W.Pos(r.Pos()))
					}
				}
			}
			walk(v)
			// reading a list that is also kept whole (stored into a node's field) to build
			// something else beside it — the items next to the item tokens — picks nothing out
			// of it; what is built is judged by the rules for that field
			if strings.HasPrefix(bad, "walked through") {
				for x := range seen {
					if x.Referrers() == nil {
						continue
					}
					for _, r := range *x.Referrers() {
						if st, ok := r.(*ssa.Store); ok && st.Val == x {
							if fa, isFA := st.Addr.(*ssa.FieldAddr); isFA {
								if n := namedOf(deref(fa.X.Type())); n != nil && n.Obj().Pkg() != nil && strings.HasSuffix(n.Obj().Pkg().Path(), "/ast") {
									bad = ""
								}
							}
						}
					}
				}
			}
			c.Check(bad == "", key, c.W.Pos(call.Pos()), "the list "+name+" returned is appended, stored or returned as a whole", "the list "+name+" returned is "+bad+": the caller picks through a list a parser gathered, so what is kept may differ from what was parsed")
		}
	}
	c.Check(nLists >= 8, "parsed-lists", "-", fmt.Sprintf("%d parsed lists followed", nLists), fmt.Sprintf("only %d parsed lists found", nLists))
}
