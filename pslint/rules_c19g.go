package main

import (
	"fmt"
	"golang.org/x/tools/go/ssa"
	"regexp"
	"strings"
)

func init() {
	register(&Rule{ID: "C19.g", Doc: "NextToken enters its word arm exactly for a letter and its number arm exactly for a digit (or a minus sign before a digit): no further condition decides which characters may start a name or a number", Floor: 2, Run: c19g})
}

var chCaseRe = regexp.MustCompile(`^\(\$0\.ch == (-?\d+)\)$`)
var peekCaseRe = regexp.MustCompile(`^\(\(\*lexer\.Lexer\)\.peekChar\(\$0\)(@\d+)? == -?\d+\)$`)
var queueHelperRe = regexp.MustCompile(`^\(\*lexer\.Lexer\)\.(\w+)(?:\(\$0\))?@\d+(?:#\d+)?$`)
var verRe = regexp.MustCompile(`!L\d+`)

func c19g(c *Ctx) {
	fn := c.Fn("lexer.Lexer.NextToken")
	if fn == nil {
		return
	}
	type arm struct {
		reader string
		want   func(d dnf) (bool, string)
	}
	isLetter := "lexer.isLetter($0.ch)"
	// conjunctions that cannot happen (two different values of the character at once) are dropped,
	// loop-version marks are removed, and what the enclosing switch contributes (the character is
	// / is not one of the single-character tokens, nothing is queued) is set aside
	clean := func(d dnf) dnf {
		out := dnf{unknown: d.unknown}
		for _, cj := range d.cs {
			eq := map[string]bool{}
			var rest conj
			for _, l := range cj {
				l = verRe.ReplaceAllString(l, "")
				if m := chCaseRe.FindStringSubmatch(l[1:]); m != nil {
					if l[0] == '+' {
						eq[m[1]] = true
					}
					continue
				}
				if strings.Contains(l, "builtin:len($0.queuedTokens)") || peekCaseRe.MatchString(l[1:]) {
					continue
				}
				// "nothing is queued", asked through a helper that touches the queue and nothing else
				if m := queueHelperRe.FindStringSubmatch(l[1:]); m != nil {
					if h := c.W.Method("lexer", "Lexer", m[1]); h != nil {
						onlyQueue := true
						for _, w := range c.Eff().Writes(h) {
							if w != "lexer.Lexer.queuedTokens" && !strings.HasPrefix(w, "elem:") {
								onlyQueue = false
							}
						}
						reads := false
						instrs(h, func(in ssa.Instruction) {
							if fa, ok := in.(*ssa.FieldAddr); ok && fieldName(fa.X.Type(), fa.Field) == "queuedTokens" {
								reads = true
							}
						})
						if onlyQueue && reads {
							continue
						}
					}
				}
				rest = append(rest, l)
			}
			if len(eq) > 1 {
				continue // ch == a && ch == b
			}
			for k := range eq {
				rest = append(rest, "+case:"+k)
			}
			out.cs = append(out.cs, rest)
		}
		out.cs = simplify(out.cs)
		return out
	}
	for _, a := range []arm{
		{"readIdentifier", func(d dnf) (bool, string) {
			want := mkDNF([]string{"+" + isLetter})
			return dnfEquiv(d, want), want.String()
		}},
		{"readNumber", func(d dnf) (bool, string) {
			// every way in: a case arm of the switch ('0' and its prefixes) — or, in the default arm,
			// not a letter, and a digit or a minus sign followed by a digit
			exp := "!isLetter(ch) && (IsDigit(ch) || ch == '-' && IsDigit(peekChar()))"
			for _, cj := range d.cs {
				hasNotLetter, digit, peekDigit, inCase := false, false, false, false
				for _, l := range cj {
					switch {
					case l == "-"+isLetter:
						hasNotLetter = true
					case l == "+unicode.IsDigit($0.ch)":
						digit = true
					case l == "-unicode.IsDigit($0.ch)":
					case l == "+case:45":
					case strings.HasPrefix(l, "+case:"):
						inCase = true
					case strings.HasPrefix(l, "+unicode.IsDigit((*lexer.Lexer).peekChar($0)"):
						peekDigit = true
					default:
						if !inCase {
							return false, exp
						}
					}
				}
				if !inCase && (!hasNotLetter || !(digit || peekDigit)) {
					return false, exp
				}
			}
			return len(d.cs) > 0, exp
		}},
	} {
		n := 0
		for _, unit := range c.unitOf(fn) {
			for _, ci := range callsIn(unit.fn) {
				g := callee(ci)
				if g == nil || g.Name() != a.reader || c.W.PkgShort(g) != "lexer" {
					continue
				}
				if unit.fn != fn {
					continue // reached through a helper: the helper's call site in NextToken is what is guarded (below)
				}
				n++
				d := c.PC(fn).At(ci.Block())
				// the enclosing switch on the character contributes only "ch is none of the single-character tokens"
				d = clean(d)
				ok, want := a.want(d)
				c.Check(ok, fmt.Sprintf("NextToken/%s-arm#%d", a.reader, n), c.W.Pos(ci.Pos()), a.reader+" is entered exactly for the characters of its class", "NextToken enters "+a.reader+" under ["+pretty(d.String())+"]"+map[bool]string{true: ", expected exactly [" + want + "]", false: ""}[want != ""]+": a further condition decides which characters start a token of this kind, so input that used to be one name or number is cut differently")
			}
		}
		if n == 0 {
			// the arm sits in a helper (readIdentifierToken …): judge the helper's call site instead
			for _, ci := range callsIn(fn) {
				g := callee(ci)
				if g == nil || !c.W.InRepo(g) || c.W.PkgShort(g) != "lexer" {
					continue
				}
				reaches := false
				for _, cj := range callsIn(g) {
					if h := callee(cj); h != nil && h.Name() == a.reader {
						reaches = true
					}
				}
				if !reaches {
					continue
				}
				n++
				d := clean(c.PC(fn).At(ci.Block()))
				ok, want := a.want(d)
				c.Check(ok, fmt.Sprintf("NextToken/%s-arm#%d", a.reader, n), c.W.Pos(ci.Pos()), a.reader+" is entered (through "+g.Name()+") exactly for the characters of its class", "NextToken enters "+g.Name()+" under ["+pretty(d.String())+"]"+map[bool]string{true: ", expected exactly [" + want + "]", false: ""}[want != ""])
			}
		}
		c.Check(n > 0, "NextToken/"+a.reader+"-arm", c.W.FuncPos(fn), "the arm was found", "no call of "+a.reader+" reachable from NextToken's dispatch found")
	}
}
