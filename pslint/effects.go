package main

// K-EFFECT: which memory a function may write, transitively over resolved callees.
// Classes: "T.f" (field f of named struct T, written through a base that is not a
// fresh local allocation), "elem:<type>" (slice/array element), "map:<type>",
// "global:<pkg.name>", "*param<i>" (store through pointer parameter i), "deref:<type>".

import (
	"go/token"
	"go/types"
	"sort"

	"golang.org/x/tools/go/ssa"
)

type Effects struct {
	w      *World
	direct map[*ssa.Function]map[string]bool
	trans  map[*ssa.Function]map[string]bool
	sites  map[*ssa.Function]map[string]ssa.Instruction // one witness store per class (direct)
}

func shortType(t types.Type) string {
	return types.TypeString(t, func(p *types.Package) string { return p.Name() })
}

// rootValue strips FieldAddr/IndexAddr chains to find the base value of an address.
func rootValue(v ssa.Value) ssa.Value {
	for {
		switch x := v.(type) {
		case *ssa.FieldAddr:
			v = x.X
		case *ssa.IndexAddr:
			v = x.X
		default:
			return v
		}
	}
}

func isFreshLocal(v ssa.Value) bool {
	switch r := rootValue(v).(type) {
	case *ssa.Alloc:
		return r != nil
	case *ssa.UnOp:
		// the object a local pointer variable refers to, when every value ever stored into the
		// variable is an object allocated by the same function (`b := &T{}` with b captured by a
		// function literal becomes a variable cell); also through the free variable of a
		// function literal that never leaves the function that creates it
		if r.Op != token.MUL {
			return false
		}
		var cell *ssa.Alloc
		switch x := r.X.(type) {
		case *ssa.Alloc:
			cell = x
		case *ssa.FreeVar:
			fn := x.Parent()
			if fn == nil || fn.Parent() == nil || closureEscapes(fn) {
				return false
			}
			idx := -1
			for i, fv := range fn.FreeVars {
				if fv == x {
					idx = i
				}
			}
			instrs(fn.Parent(), func(in ssa.Instruction) {
				if mc, ok := in.(*ssa.MakeClosure); ok && mc.Fn == ssa.Value(fn) && idx >= 0 && idx < len(mc.Bindings) {
					if a, ok := mc.Bindings[idx].(*ssa.Alloc); ok {
						cell = a
					}
				}
			})
		}
		if cell == nil || cell.Referrers() == nil {
			return false
		}
		n := 0
		for _, ref := range *cell.Referrers() {
			st, ok := ref.(*ssa.Store)
			if !ok || st.Addr != ssa.Value(cell) {
				continue
			}
			n++
			if _, fresh := rootValue(st.Val).(*ssa.Alloc); !fresh {
				return false
			}
			if a, _ := rootValue(st.Val).(*ssa.Alloc); a == cell {
				return false
			}
		}
		return n > 0
	}
	return false
}

// storeClass classifies the target of a store.
func storeClass(addr ssa.Value) string {
	switch x := addr.(type) {
	case *ssa.FieldAddr:
		n := namedOf(x.X.Type())
		name := shortType(deref(x.X.Type()))
		if n != nil {
			name = n.Obj().Pkg().Name() + "." + n.Obj().Name()
		}
		return name + "." + fieldName(x.X.Type(), x.Field)
	case *ssa.IndexAddr:
		return "elem:" + shortType(x.X.Type())
	case *ssa.Global:
		return "global:" + x.Pkg.Pkg.Name() + "." + x.Name()
	case *ssa.Parameter:
		return "deref:" + shortType(x.Type())
	default:
		return "deref:" + shortType(addr.Type())
	}
}

func paramIndex(fn *ssa.Function, v ssa.Value) int {
	for i, p := range fn.Params {
		if p == v {
			return i
		}
	}
	return -1
}

// NewEffects computes direct and transitive write effects for all repo functions.
func NewEffects(w *World) *Effects {
	e := &Effects{w: w, direct: map[*ssa.Function]map[string]bool{}, trans: map[*ssa.Function]map[string]bool{}, sites: map[*ssa.Function]map[string]ssa.Instruction{}}
	for _, fn := range w.Funcs {
		d := map[string]bool{}
		s := map[string]ssa.Instruction{}
		instrs(fn, func(in ssa.Instruction) {
			switch x := in.(type) {
			case *ssa.Store:
				if _, isAlloc := x.Addr.(*ssa.Alloc); isAlloc {
					return // local variable
				}
				if isFreshLocal(x.Addr) {
					return // initialising / updating an object allocated in this function
				}
				cls := storeClass(x.Addr)
				d[cls] = true
				if s[cls] == nil {
					s[cls] = in
				}
				if pi := paramIndex(fn, rootValue(x.Addr)); pi >= 0 {
					if _, ok := x.Addr.(*ssa.Parameter); ok {
						d[paramClass(pi)] = true
					}
				}
			case *ssa.MapUpdate:
				if freshMap(x.Map) {
					return // filling a map made here and not yet stored anywhere changes no existing state
				}
				cls := "map:" + shortType(x.Map.Type())
				d[cls] = true
				if s[cls] == nil {
					s[cls] = in
				}
			}
		})
		e.direct[fn] = d
		e.sites[fn] = s
	}
	// transitive closure
	for _, fn := range w.Funcs {
		t := map[string]bool{}
		for k := range e.direct[fn] {
			t[k] = true
		}
		e.trans[fn] = t
	}
	changed := true
	for changed {
		changed = false
		for _, fn := range w.Funcs {
			t := e.trans[fn]
			for _, ci := range callsIn(fn) {
				for _, g := range e.targets(ci) {
					for k := range e.trans[g] {
						if isParamClass(k) {
							// map callee's pointer-param write onto caller's param if passed along
							pi := paramClassIndex(k)
							args := callArgsWithRecv(ci)
							if pi < len(args) {
								if cpi := paramIndex(fn, args[pi]); cpi >= 0 {
									ck := paramClass(cpi)
									if !t[ck] {
										t[ck] = true
										changed = true
									}
								}
							}
							continue
						}
						if !t[k] {
							t[k] = true
							changed = true
						}
					}
				}
			}
		}
	}
	return e
}

func paramClass(i int) string { return "*param" + string(rune('0'+i)) }
func isParamClass(k string) bool {
	return len(k) == 7 && k[:6] == "*param"
}
func paramClassIndex(k string) int { return int(k[6] - '0') }

// callArgsWithRecv returns the arguments in callee-parameter order (receiver first for
// statically dispatched methods, as go/ssa already does).
func callArgsWithRecv(ci ssa.CallInstruction) []ssa.Value {
	return ci.Common().Args
}

// targets resolves the possible repo callees of a call: the static callee, or for
// dynamic calls every repo function with an identical signature / matching method name.
func (e *Effects) targets(ci ssa.CallInstruction) []*ssa.Function {
	c := ci.Common()
	if f := c.StaticCallee(); f != nil {
		if e.w.InRepo(f) {
			return []*ssa.Function{f}
		}
		return nil
	}
	var out []*ssa.Function
	if c.IsInvoke() {
		for _, fn := range e.w.Funcs {
			if fn.Signature.Recv() != nil && fn.Name() == c.Method.Name() {
				out = append(out, fn)
			}
		}
		return out
	}
	if _, ok := c.Value.(*ssa.Builtin); ok {
		return nil
	}
	sig, ok := c.Value.Type().Underlying().(*types.Signature)
	if !ok {
		return nil
	}
	for _, fn := range e.w.Funcs {
		if fn.Signature.Recv() == nil && types.Identical(stripRecv(fn.Signature), sig) {
			// a function literal that never leaves the function that creates it (only called
			// there, never passed on, stored or returned) cannot be what is called elsewhere
			if fn.Parent() != nil && fn.Parent() != ci.Parent() && !closureEscapes(fn) {
				continue
			}
			out = append(out, fn)
		}
	}
	return out
}

func stripRecv(s *types.Signature) *types.Signature {
	return types.NewSignatureType(nil, nil, nil, s.Params(), s.Results(), s.Variadic())
}

// Writes lists the transitive write classes of fn, sorted.
func (e *Effects) Writes(fn *ssa.Function) []string {
	var out []string
	for k := range e.trans[fn] {
		out = append(out, k)
	}
	sort.Strings(out)
	return out
}

// WritesClass reports whether fn may (transitively) write class k.
func (e *Effects) WritesClass(fn *ssa.Function, k string) bool { return e.trans[fn][k] }

var closureEscapeCache = map[*ssa.Function]int{}

// closureEscapes: the function literal fn is used, in its parent, for anything other than
// being called (directly, or through a local variable that is only loaded and called).
func closureEscapes(fn *ssa.Function) bool {
	switch closureEscapeCache[fn] {
	case 1:
		return true
	case 2:
		return false
	}
	esc := false
	parent := fn.Parent()
	var valueEscapes func(v ssa.Value, depth int) bool
	valueEscapes = func(v ssa.Value, depth int) bool {
		refs := v.Referrers()
		if refs == nil || depth > 4 {
			return true
		}
		for _, r := range *refs {
			switch x := r.(type) {
			case ssa.CallInstruction:
				if x.Common().Value == v {
					// called
					for _, a := range x.Common().Args {
						if a == v {
							return true
						}
					}
					continue
				}
				return true // passed as an argument
			case *ssa.Store:
				if x.Val != v {
					continue
				}
				a, ok := x.Addr.(*ssa.Alloc)
				if !ok {
					return true
				}
				// local variable: every load must itself only be called
				for _, ar := range *a.Referrers() {
					switch y := ar.(type) {
					case *ssa.Store:
						if y.Addr != ssa.Value(a) {
							return true
						}
					case *ssa.UnOp:
						if valueEscapes(y, depth+1) {
							return true
						}
					case *ssa.DebugRef:
					default:
						return true
					}
				}
			case *ssa.DebugRef:
			case *ssa.Phi:
				if valueEscapes(x, depth+1) {
					return true
				}
			default:
				return true
			}
		}
		return false
	}
	found := false
	if parent != nil {
		instrs(parent, func(in ssa.Instruction) {
			mc, ok := in.(*ssa.MakeClosure)
			if ok && mc.Fn == ssa.Value(fn) {
				found = true
				if valueEscapes(mc, 0) {
					esc = true
				}
			}
			// a literal without free variables is referenced as a plain function value
			for _, op := range in.Operands(nil) {
				if *op == ssa.Value(fn) {
					if _, isMC := in.(*ssa.MakeClosure); isMC {
						continue
					}
					found = true
					if ci, ok := in.(ssa.CallInstruction); ok && ci.Common().Value == ssa.Value(fn) {
						continue
					}
					esc = true
				}
			}
		})
	}
	if !found {
		esc = true
	}
	if esc {
		closureEscapeCache[fn] = 1
	} else {
		closureEscapeCache[fn] = 2
	}
	return esc
}

// freshMap: m is made by the enclosing function and is never stored into memory, captured or
// put into another map there (it may be read, returned and passed to calls).
func freshMap(m ssa.Value) bool {
	mm, ok := m.(*ssa.MakeMap)
	if !ok || mm.Referrers() == nil {
		return false
	}
	for _, r := range *mm.Referrers() {
		switch x := r.(type) {
		case *ssa.MapUpdate:
			if x.Map != ssa.Value(mm) {
				return false
			}
		case *ssa.Lookup, *ssa.Range, *ssa.Return, *ssa.DebugRef, *ssa.Call:
		default:
			return false
		}
	}
	return true
}
