package main

// K-EFFECT: which memory a function may write, transitively over resolved callees.
// Classes: "T.f" (field f of named struct T, written through a base that is not a
// fresh local allocation), "elem:<type>" (slice/array element), "map:<type>",
// "global:<pkg.name>", "*param<i>" (store through pointer parameter i), "deref:<type>".

import (
	"go/types"
	"sort"

	"golang.org/x/tools/go/ssa"
)

type Effects struct {
	w      *World
	direct map[*ssa.Function]map[string]bool
	trans  map[*ssa.Function]map[string]bool
	sites  map[*ssa.Function]map[string]ssa.Instruction // one witness store per class (direct)
}

func shortType(t types.Type) string {
	return types.TypeString(t, func(p *types.Package) string { return p.Name() })
}

// rootValue strips FieldAddr/IndexAddr chains to find the base value of an address.
func rootValue(v ssa.Value) ssa.Value {
	for {
		switch x := v.(type) {
		case *ssa.FieldAddr:
			v = x.X
		case *ssa.IndexAddr:
			v = x.X
		default:
			return v
		}
	}
}

func isFreshLocal(v ssa.Value) bool {
	a, ok := rootValue(v).(*ssa.Alloc)
	return ok && a != nil
}

// storeClass classifies the target of a store.
func storeClass(addr ssa.Value) string {
	switch x := addr.(type) {
	case *ssa.FieldAddr:
		n := namedOf(x.X.Type())
		name := shortType(deref(x.X.Type()))
		if n != nil {
			name = n.Obj().Pkg().Name() + "." + n.Obj().Name()
		}
		return name + "." + fieldName(x.X.Type(), x.Field)
	case *ssa.IndexAddr:
		return "elem:" + shortType(x.X.Type())
	case *ssa.Global:
		return "global:" + x.Pkg.Pkg.Name() + "." + x.Name()
	case *ssa.Parameter:
		return "deref:" + shortType(x.Type())
	default:
		return "deref:" + shortType(addr.Type())
	}
}

func paramIndex(fn *ssa.Function, v ssa.Value) int {
	for i, p := range fn.Params {
		if p == v {
			return i
		}
	}
	return -1
}

// NewEffects computes direct and transitive write effects for all repo functions.
func NewEffects(w *World) *Effects {
	e := &Effects{w: w, direct: map[*ssa.Function]map[string]bool{}, trans: map[*ssa.Function]map[string]bool{}, sites: map[*ssa.Function]map[string]ssa.Instruction{}}
	for _, fn := range w.Funcs {
		d := map[string]bool{}
		s := map[string]ssa.Instruction{}
		instrs(fn, func(in ssa.Instruction) {
			switch x := in.(type) {
			case *ssa.Store:
				if _, isAlloc := x.Addr.(*ssa.Alloc); isAlloc {
					return // local variable
				}
				if isFreshLocal(x.Addr) {
					return // initialising / updating an object allocated in this function
				}
				cls := storeClass(x.Addr)
				d[cls] = true
				if s[cls] == nil {
					s[cls] = in
				}
				if pi := paramIndex(fn, rootValue(x.Addr)); pi >= 0 {
					if _, ok := x.Addr.(*ssa.Parameter); ok {
						d[paramClass(pi)] = true
					}
				}
			case *ssa.MapUpdate:
				cls := "map:" + shortType(x.Map.Type())
				d[cls] = true
				if s[cls] == nil {
					s[cls] = in
				}
			}
		})
		e.direct[fn] = d
		e.sites[fn] = s
	}
	// transitive closure
	for _, fn := range w.Funcs {
		t := map[string]bool{}
		for k := range e.direct[fn] {
			t[k] = true
		}
		e.trans[fn] = t
	}
	changed := true
	for changed {
		changed = false
		for _, fn := range w.Funcs {
			t := e.trans[fn]
			for _, ci := range callsIn(fn) {
				for _, g := range e.targets(ci) {
					for k := range e.trans[g] {
						if isParamClass(k) {
							// map callee's pointer-param write onto caller's param if passed along
							pi := paramClassIndex(k)
							args := callArgsWithRecv(ci)
							if pi < len(args) {
								if cpi := paramIndex(fn, args[pi]); cpi >= 0 {
									ck := paramClass(cpi)
									if !t[ck] {
										t[ck] = true
										changed = true
									}
								}
							}
							continue
						}
						if !t[k] {
							t[k] = true
							changed = true
						}
					}
				}
			}
		}
	}
	return e
}

func paramClass(i int) string { return "*param" + string(rune('0'+i)) }
func isParamClass(k string) bool {
	return len(k) == 7 && k[:6] == "*param"
}
func paramClassIndex(k string) int { return int(k[6] - '0') }

// callArgsWithRecv returns the arguments in callee-parameter order (receiver first for
// statically dispatched methods, as go/ssa already does).
func callArgsWithRecv(ci ssa.CallInstruction) []ssa.Value {
	return ci.Common().Args
}

// targets resolves the possible repo callees of a call: the static callee, or for
// dynamic calls every repo function with an identical signature / matching method name.
func (e *Effects) targets(ci ssa.CallInstruction) []*ssa.Function {
	c := ci.Common()
	if f := c.StaticCallee(); f != nil {
		if e.w.InRepo(f) {
			return []*ssa.Function{f}
		}
		return nil
	}
	var out []*ssa.Function
	if c.IsInvoke() {
		for _, fn := range e.w.Funcs {
			if fn.Signature.Recv() != nil && fn.Name() == c.Method.Name() {
				out = append(out, fn)
			}
		}
		return out
	}
	if _, ok := c.Value.(*ssa.Builtin); ok {
		return nil
	}
	sig, ok := c.Value.Type().Underlying().(*types.Signature)
	if !ok {
		return nil
	}
	for _, fn := range e.w.Funcs {
		if fn.Signature.Recv() == nil && types.Identical(stripRecv(fn.Signature), sig) {
			out = append(out, fn)
		}
	}
	return out
}

func stripRecv(s *types.Signature) *types.Signature {
	return types.NewSignatureType(nil, nil, nil, s.Params(), s.Results(), s.Variadic())
}

// Writes lists the transitive write classes of fn, sorted.
func (e *Effects) Writes(fn *ssa.Function) []string {
	var out []string
	for k := range e.trans[fn] {
		out = append(out, k)
	}
	sort.Strings(out)
	return out
}

// WritesClass reports whether fn may (transitively) write class k.
func (e *Effects) WritesClass(fn *ssa.Function, k string) bool { return e.trans[fn][k] }
