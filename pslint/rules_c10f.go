package main

import (
	"strings"
	"fmt"
	"go/types"

	"golang.org/x/tools/go/ssa"
)

func init() {
	register(&Rule{ID: "C10.f", Doc: "Emit is total: every top-level statement is handed to the emitter of its kind and what that returns is written, every program text is emitted — whatever the statement contains", Floor: 8, Run: c10f})
}

// usesOf: does instruction in use value v (directly, or through phis / extracts / field reads of v)?
func derivedFrom(x, v ssa.Value, depth int) bool {
	if x == v {
		return true
	}
	if depth > 6 {
		return false
	}
	switch y := x.(type) {
	case *ssa.Extract:
		return derivedFrom(y.Tuple, v, depth+1)
	case *ssa.Phi:
		for _, e := range y.Edges {
			if derivedFrom(e, v, depth+1) {
				return true
			}
		}
	case *ssa.UnOp:
		return derivedFrom(y.X, v, depth+1)
	case *ssa.ChangeType:
		return derivedFrom(y.X, v, depth+1)
	}
	return false
}

// c10f: in Emit's loop over the top-level statements, the branch on which a statement was
// recognised as kind K (comma-ok type assertion succeeded) cannot come back to the loop header
// — nor leave the loop other than by a failing return — without (1) a call of a repo function
// that is given the recognised statement and (2) a builder write of that call's result. The
// same for the loop over the program texts. This is the "nothing is skipped because of what it
// contains" half of every emission property; what each emitter writes is the business of the
// per-kind rules.
func c10f(c *Ctx) {
	emit := c.Fn("emitter.Emitter.Emit")
	if emit == nil {
		return
	}
	if rs := c.Fn("emitter.chunk.renderStatements"); rs != nil {
		dispatchTotal(c, rs, "renderStatements", 2)
	}
	dispatchTotal(c, emit, "Emit", 5)
	c10fReadOut(c)
	heads := loopHeaders(emit)
	// every successful return of the script emitter is what renderChunks produced (an early
	// `return "", nil` for scripts judged empty leaves the script's label undefined)
	if es, rc := c.Fn("emitter.Emitter.emitScriptStatement"), c.Fn("emitter.Emitter.renderChunks"); es != nil && rc != nil {
		for i, r := range returnsOf(es) {
			if !isSuccessReturn(r) || !c.mayBeSuccessRet(es, r) {
				continue
			}
			ok := false
			var leaves []ssa.Value
			phiLeaves(r.Results[0], map[ssa.Value]bool{}, &leaves)
			ok = len(leaves) > 0
			for _, lf := range leaves {
				ex, isEx := lf.(*ssa.Extract)
				if !isEx {
					ok = false
					continue
				}
				call, isCall := ex.Tuple.(*ssa.Call)
				if !isCall || callee(call) != rc || ex.Index != 0 {
					ok = false
				}
			}
			c.Check(ok, fmt.Sprintf("emitScriptStatement/returns-rendered-chunks#%d", i), c.W.Pos(r.Pos()), "a script's output is what renderChunks rendered", "emitScriptStatement can return "+pretty(c.term(es, r.Results[0]))+" without rendering its chunks: the script's label (and whatever refers to it) would be missing")
		}
	}
	// renderChunks: the body of every chunk of the order is written, whether or not it gets a label
	// (a chunk that "cannot be reached" may hold a user label that a goto elsewhere refers to)
	if rc := c.Fn("emitter.Emitter.renderChunks"); rc != nil {
		var writes []ssa.Instruction
		for _, ci := range callsIn(rc) {
			if calleeName(ci) != "(*strings.Builder).WriteString" || len(ci.Common().Args) < 2 {
				continue
			}
			sc, ok := ci.Common().Args[1].(*ssa.Call)
			if !ok || calleeName(sc) != "(*strings.Builder).String" {
				continue
			}
			// the builder comes out of a map of bodies
			if lk, ok := sc.Call.Args[0].(*ssa.Lookup); ok && loopHeaders(rc)[ci.Block()] != nil {
				_ = lk
				writes = append(writes, ci.(ssa.Instruction))
			}
		}
		if len(writes) == 0 {
			c.Bad("renderChunks/every-body-written", c.W.FuncPos(rc), "cannot find the loop that writes the rendered chunk bodies")
		} else {
			w, skip := loopSkip(rc, writes...)
			c.Check(!skip, "renderChunks/every-body-written", c.W.Pos(writes[0].Pos()), "the body of every chunk in the order is written", "a chunk's rendered body can be left out of the script (a turn of the loop can reach "+c.nearPos(w)+" without the write): commands and user labels in it would be missing")
		}
	}
	// program texts
	if et := c.Fn("emitter.Emitter.emitText"); et != nil {
		calls := callsToIn(emit, et)
		c.Check(len(calls) >= 1, "Emit/texts/emitted", c.W.FuncPos(emit), "program texts are emitted", "Emit does not call emitText")
		for _, ec := range calls {
			pos := c.W.Pos(ec.Pos())
			if heads[ec.Block()] == nil {
				c.Bad("Emit/texts/every-text", pos, "emitText is not called in a loop over the program texts")
				continue
			}
			w, skip := loopSkip(emit, ec.(ssa.Instruction))
			c.Check(!skip, "Emit/texts/every-text", pos, "every program text is emitted", "some program texts are not emitted (an iteration can reach "+c.nearPos(w)+" without the call): the label a command refers to would be undefined")
			var writes []ssa.Instruction
			for _, ci := range callsIn(emit) {
				if calleeName(ci) == "(*strings.Builder).WriteString" && len(ci.Common().Args) >= 2 && derivedFrom(ci.Common().Args[1], ec.(ssa.Value), 0) {
					writes = append(writes, ci.(ssa.Instruction))
				}
			}
			w, skip = loopSkip(emit, writes...)
			c.Check(len(writes) > 0 && !skip, "Emit/texts/result-written", pos, "every emitted text is written to the output", "the rendering of a text is not always written to the output (an iteration can reach "+c.nearPos(w)+" without the write)")
		}
	}
}

// dispatchTotal: fn walks a list of statements and recognises their kinds by comma-ok type
// assertions. For every kind whose value is used: the branch on which it was recognised cannot
// come back to the loop header — nor leave the loop other than by a failing return — without a
// call of a repo function that is given the statement, and a builder write of what that call
// returned. And no turn of the loop comes back to the header having handed the statement to
// nobody, except through the "recognised only to be set aside" branches (texts in Emit).
func dispatchTotal(c *Ctx, emit *ssa.Function, label string, minArms int) {
	heads := loopHeaders(emit)
	nArms := 0
	var allEmitCalls []ssa.Instruction
	var asideEdges []*ssa.If
	var loopHead *ssa.BasicBlock
	instrs(emit, func(in ssa.Instruction) {
		ta, ok := in.(*ssa.TypeAssert)
		if !ok || !ta.CommaOk || ta.Referrers() == nil {
			return
		}
		h := heads[ta.Block()]
		if h == nil {
			return
		}
		kind := types.TypeString(ta.AssertedType, func(p *types.Package) string { return p.Name() })
		var val, okv ssa.Value
		for _, r := range *ta.Referrers() {
			if ex, isEx := r.(*ssa.Extract); isEx {
				if ex.Index == 0 {
					val = ex
				} else {
					okv = ex
				}
			}
		}
		if okv == nil || okv.Referrers() == nil {
			return
		}
		var branch *ssa.If
		for _, r := range *okv.Referrers() {
			if ifi, isIf := r.(*ssa.If); isIf {
				branch = ifi
			}
		}
		if branch == nil {
			return
		}
		key := label + "/" + kind
		loopHead = h
		pos := c.W.Pos(ta.Pos())
		if val == nil || val.Referrers() == nil || len(*val.Referrers()) == 0 {
			// recognised only to be set aside (texts are rendered from program.Texts)
			c.OK(key+"/set-aside", pos, "recognised and left to another loop")
			asideEdges = append(asideEdges, branch)
			return
		}
		nArms++
		body := loopBody(h)
		// (1) handed to a repo function
		var emitCalls []ssa.Instruction
		for _, ci := range callsIn(emit) {
			g := callee(ci)
			if g == nil || !c.W.InRepo(g) {
				continue
			}
			// an emit function hands back text (a check that is given the statement and returns
			// only an error is not one)
			givesText := false
			res := g.Signature.Results()
			for i := 0; i < res.Len(); i++ {
				if b, ok := res.At(i).Type().Underlying().(*types.Basic); ok && b.Info()&types.IsString != 0 {
					givesText = true
				}
			}
			if !givesText {
				continue
			}
			for _, a := range ci.Common().Args {
				if a == val {
					emitCalls = append(emitCalls, ci.(ssa.Instruction))
				}
			}
		}
		allEmitCalls = append(allEmitCalls, emitCalls...)
		isOneOf := func(set []ssa.Instruction) func(ssa.Instruction) bool {
			return func(x ssa.Instruction) bool {
				for _, s := range set {
					if s == x {
						return true
					}
				}
				return false
			}
		}
		leaves := func(x ssa.Instruction) bool {
			b := x.Block()
			if b == h {
				return true
			}
			if body[b] {
				return false
			}
			if len(b.Instrs) > 0 {
				if r, isRet := b.Instrs[len(b.Instrs)-1].(*ssa.Return); isRet && !isSuccessReturn(r) {
					return false
				}
			}
			return true
		}
		start := point{branch.Block().Succs[0], 0}
		w, skip := existsPath(pathQuery{from: start, avoid: isOneOf(emitCalls), edgeOK: notErrorEdge, target: func(x ssa.Instruction) bool { return !isOneOf(emitCalls)(x) && leaves(x) }})
		if len(emitCalls) == 0 || skip {
			c.Bad(key+"/handed-to-its-emitter", pos, fmt.Sprintf("a %s can be passed over without being handed to an emit function (the iteration can reach %s without the call): the statement, and every label it defines, would be missing from the output", kind, c.nearPos(w)))
			return
		}
		c.OK(key+"/handed-to-its-emitter", pos, "every recognised "+kind+" is handed to its emit function")
		// (2) the result is written
		for _, ec := range emitCalls {
			var writes []ssa.Instruction
			for _, ci := range callsIn(emit) {
				n := calleeName(ci)
				if n != "(*strings.Builder).WriteString" || len(ci.Common().Args) < 2 {
					continue
				}
				if derivedFrom(ci.Common().Args[1], ec.(ssa.Value), 0) {
					writes = append(writes, ci.(ssa.Instruction))
				}
			}
			w, skip := existsPath(pathQuery{from: after(ec), avoid: isOneOf(writes), edgeOK: notErrorEdge, target: func(x ssa.Instruction) bool { return !isOneOf(writes)(x) && leaves(x) }})
			c.Check(len(writes) > 0 && !skip, key+"/result-written", c.W.Pos(ec.Pos()), "what the emit function returns is written to the output", fmt.Sprintf("the text returned for a %s is not always written to the output (the iteration can reach %s without the write)", kind, c.nearPos(w)))
		}
	})
	c.Check(nArms >= minArms, label+"/arms", c.W.FuncPos(emit), "found the dispatch arms of "+label, fmt.Sprintf("expected at least %d statement kinds dispatched in %s's loop, found %d", minArms, label, nArms))
	// no statement is passed over before the dispatch either
	if loopHead != nil {
		body := loopBody(loopHead)
		// every statement is visited: the loop is left in the middle only to report an error (a
		// `break` or `return nil` after an `end` command drops the labels and commands behind it,
		// which a goto or call may still reach)
		{
			k := 0
			for _, b := range emit.Blocks {
				if !body[b] || b == loopHead {
					continue
				}
				for _, sc := range b.Succs {
					if body[sc] {
						continue
					}
					k++
					// where does this way out lead? a failing return ends the emission with an error
					okExit := false
					seenB := map[*ssa.BasicBlock]bool{}
					var scan func(x *ssa.BasicBlock, depth int) bool
					scan = func(x *ssa.BasicBlock, depth int) bool {
						if seenB[x] || depth > 3 {
							return true
						}
						seenB[x] = true
						if len(x.Instrs) > 0 {
							if r, isRet := x.Instrs[len(x.Instrs)-1].(*ssa.Return); isRet {
								return !isSuccessReturn(r)
							}
						}
						if len(x.Succs) == 0 {
							return true // panic
						}
						for _, y := range x.Succs {
							if !scan(y, depth+1) {
								return false
							}
						}
						return true
					}
					okExit = scan(sc, 0)
					c.Check(okExit, fmt.Sprintf("%s/left-only-with-an-error#%d", label, k), c.W.Pos(b.Instrs[len(b.Instrs)-1].Pos()), "the loop over the statements is left early only with an error", label+" leaves its statement loop in the middle and goes on successfully: the statements behind that point are never rendered, although a label among them may be jumped to")
				}
			}
		}
		isEmit := func(x ssa.Instruction) bool {
			for _, e := range allEmitCalls {
				if e == x {
					return true
				}
			}
			return false
		}
		edgeOK := func(b *ssa.BasicBlock, succ int) bool {
			if !notErrorEdge(b, succ) {
				return false
			}
			for _, a := range asideEdges {
				if a.Block() == b && succ == 0 {
					return false // recognised as a kind that another loop renders
				}
			}
			return true
		}
		skipped := false
		var wit ssa.Instruction
		for _, s := range loopHead.Succs {
			if !body[s] || s == loopHead {
				continue
			}
			if _, found := existsPath(pathQuery{from: point{s, 0}, avoid: isEmit, edgeOK: edgeOK, stopAt: func(x ssa.Instruction) bool { return !body[x.Block()] }, target: func(x ssa.Instruction) bool { return !isEmit(x) && x.Block() == loopHead }}); found {
				skipped = true
				wit = s.Instrs[0]
			}
		}
		c.Check(!skipped, label+"/no-statement-passed-over", c.W.FuncPos(emit), "every statement is handed to an emit function (or is of a kind another loop renders)", "a turn of "+label+"'s loop can come back to the loop head (from "+c.nearPos(wit)+") without the statement having been handed to any emit function: statements would be dropped depending on what they contain")
	}
}

// c10fReadOut: what an emitter function returns as text is the read-out of the builder it wrote
// into — nothing reworks a finished piece of output between the last write and the return.
func c10fReadOut(c *Ctx) {
	// builders are written through their own methods, where the write-site scan and the output
	// grammar see every write: a builder handed to fmt.Fprint*, io.WriteString or any other
	// writer-taking function outside the repository would be written behind their back
	for _, fn := range c.W.Funcs {
		if isTestFunc(c.W, fn) || len(fn.Blocks) == 0 || c.W.PkgShort(fn) == "" {
			continue
		}
		k := 0
		for _, ci := range callsIn(fn) {
			g := callee(ci)
			if g == nil || c.W.InRepo(g) || strings.HasPrefix(calleeName(ci), "(*strings.Builder).") {
				continue
			}
			for _, a := range ci.Common().Args {
				v := a
				if mi, ok := v.(*ssa.MakeInterface); ok {
					v = mi.X
				}
				if strings.HasSuffix(v.Type().String(), "*strings.Builder") {
					k++
					c.Bad(fmt.Sprintf("builder-written-elsewhere/%s#%d", c.W.FuncKey(fn), k), c.W.Pos(ci.Pos()), c.W.FuncKey(fn)+" hands a strings.Builder to "+calleeName(ci)+": what that call writes is seen by none of the rules that follow the output")
				}
			}
		}
	}
	// every element of a list that is rendered element by element is rendered: in a loop over a
	// list whose body writes, no turn comes round without having written (leaving the loop — at the
	// terminator of a movement, at ITEM_NONE — is not a skip; passing over an item because it equals
	// the one before, or a raw line because it is blank, is)
	for _, fn := range c.W.FuncsOf("emitter") {
		if isTestFunc(c.W, fn) || len(fn.Blocks) == 0 {
			continue
		}
		k := 0
		for _, h := range fn.Blocks {
			if !isLoopHeader(h) {
				continue
			}
			// a range over a slice: the header holds the range index phi
			isRange := false
			for _, in := range h.Instrs {
				if ph, ok := in.(*ssa.Phi); ok && strings.Contains(ph.Comment, "rangeindex") {
					isRange = true
				}
			}
			if !isRange {
				continue
			}
			body := loopBody(h)
			var sinks []ssa.Instruction
			for _, ci := range callsIn(fn) {
				if !body[ci.Block()] || loopHeaders(fn)[ci.Block()] != h {
					continue
				}
				if nm := calleeName(ci); nm == "(*strings.Builder).WriteString" {
					if _, isC := ci.Common().Args[1].(*ssa.Const); !isC {
						sinks = append(sinks, ci.(ssa.Instruction))
					}
				}
			}
			if len(sinks) == 0 {
				continue
			}
			k++
			// (rendering loops that hand each element to a dispatcher are judged by the dispatch
			// clauses: Emit, the map script tables)
			if fn.Name() == "Emit" || fn.Name() == "emitMapScriptStatement" {
				continue
			}
			w, skip := iterationSkipsAny(fn, sinks...)
			why := ""
			if skip {
				why = "a turn of the loop can pass (" + c.nearPos(w) + ") without writing its element: an item, step or line that was written in the source would be missing from the output"
			}
			c.Check(!skip, fmt.Sprintf("every-element-rendered/%s#%d", c.W.FuncKey(fn), k), c.W.Pos(sinks[0].Pos()), "every turn of the rendering loop writes its element", why)
		}
	}
	// a rendered piece is written once: no way leads from a write of a computed text to a second
	// write of the same value without a new turn of the enclosing loop (a command that is
	// emitted twice runs twice)
	for _, fn := range c.W.FuncsOf("emitter") {
		if isTestFunc(c.W, fn) || len(fn.Blocks) == 0 {
			continue
		}
		type wsite struct {
			call ssa.CallInstruction
			arg  ssa.Value
		}
		var ws []wsite
		for _, ci := range callsIn(fn) {
			if nm := calleeName(ci); nm == "(*strings.Builder).WriteString" {
				a := ci.Common().Args[1]
				if _, isC := a.(*ssa.Const); !isC {
					ws = append(ws, wsite{ci, a})
				}
			}
		}
		k := 0
		for _, w1 := range ws {
			for _, w2 := range ws {
				if w1.call == w2.call || w1.arg != w2.arg || w1.call.Common().Args[0] != w2.call.Common().Args[0] {
					continue
				}
				def, _ := w1.arg.(ssa.Instruction)
				if _, found := existsPath(pathQuery{from: after(w1.call.(ssa.Instruction)), target: func(in ssa.Instruction) bool { return in == w2.call.(ssa.Instruction) }, stopAt: func(in ssa.Instruction) bool { return def != nil && in == def }}); found {
					k++
					c.Bad(fmt.Sprintf("written-once/%s#%d", c.W.FuncKey(fn), k), c.W.Pos(w2.call.Pos()), c.W.FuncKey(fn)+" writes "+pretty(c.term(fn, w1.arg))+" a second time into the same builder (first at "+c.W.Pos(w1.call.Pos())+"): the piece of output — a command, a comparison — would appear twice")
				}
			}
		}
	}
	n := 0
	for _, fn := range c.W.FuncsOf("emitter") {
		if isTestFunc(c.W, fn) || len(fn.Blocks) == 0 || fn.Signature.Results().Len() == 0 {
			continue
		}
		if b, ok := fn.Signature.Results().At(0).Type().Underlying().(*types.Basic); !ok || b.Kind() != types.String {
			continue
		}
		var builders []*ssa.Alloc
		instrs(fn, func(in ssa.Instruction) {
			if a, ok := in.(*ssa.Alloc); ok && strings.HasSuffix(a.Type().String(), "*strings.Builder") {
				builders = append(builders, a)
			}
		})
		if len(builders) == 0 {
			continue
		}
		for i, r := range returnsOf(fn) {
			v := r.Results[0]
			if k, isC := v.(*ssa.Const); isC && k.Value != nil && k.Value.ExactString() == `""` && len(r.Results) == 2 {
				if e, isE := r.Results[1].(*ssa.Const); !isE || !e.IsNil() {
					continue // an error return
				}
			}
			n++
			var leaves []ssa.Value
			phiLeaves(v, map[ssa.Value]bool{}, &leaves)
			okR := len(leaves) > 0
			for _, lf := range leaves {
				call, isCall := lf.(*ssa.Call)
				if !isCall || calleeName(call) != "(*strings.Builder).String" {
					// a text that was not written into a builder at all (built directly from the
					// node) is not a reworked read-out
					if !derivesFromReadOut(lf, 0) {
						continue
					}
					okR = false
					continue
				}
				own := false
				for _, b := range builders {
					if call.Call.Args[0] == ssa.Value(b) {
						own = true
					}
				}
				if !own {
					okR = false
				}
			}
			c.Check(okR, fmt.Sprintf("read-out/%s#%d", c.W.FuncKey(fn), i), c.W.Pos(r.Pos()), "the text returned is the read-out of the function's own builder", c.W.FuncKey(fn)+" returns "+pretty(c.term(fn, v))+": the text that was written is reworked before it is handed back, so the output is no longer what the emitters wrote")
		}
	}
	c.Check(n >= 8, "read-out/census", "-", fmt.Sprintf("%d text returns of builder-filling emitter functions", n), fmt.Sprintf("only %d text returns found", n))
}

// derivesFromReadOut: somewhere in the expression a builder is read out.
func derivesFromReadOut(v ssa.Value, depth int) bool {
	if depth > 8 {
		return true
	}
	if call, ok := v.(*ssa.Call); ok && calleeName(call) == "(*strings.Builder).String" {
		return true
	}
	in, ok := v.(ssa.Instruction)
	if !ok {
		return false
	}
	var ops []*ssa.Value
	for _, op := range in.Operands(ops) {
		if *op != nil && derivesFromReadOut(*op, depth+1) {
			return true
		}
	}
	return false
}
