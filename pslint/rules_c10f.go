package main

import (
	"fmt"
	"go/types"

	"golang.org/x/tools/go/ssa"
)

func init() {
	register(&Rule{ID: "C10.f", Doc: "Emit is total: every top-level statement is handed to the emitter of its kind and what that returns is written, every program text is emitted — whatever the statement contains", Floor: 8, Run: c10f})
}

// usesOf: does instruction in use value v (directly, or through phis / extracts / field reads of v)?
func derivedFrom(x, v ssa.Value, depth int) bool {
	if x == v {
		return true
	}
	if depth > 6 {
		return false
	}
	switch y := x.(type) {
	case *ssa.Extract:
		return derivedFrom(y.Tuple, v, depth+1)
	case *ssa.Phi:
		for _, e := range y.Edges {
			if derivedFrom(e, v, depth+1) {
				return true
			}
		}
	case *ssa.UnOp:
		return derivedFrom(y.X, v, depth+1)
	case *ssa.ChangeType:
		return derivedFrom(y.X, v, depth+1)
	}
	return false
}

// c10f: in Emit's loop over the top-level statements, the branch on which a statement was
// recognised as kind K (comma-ok type assertion succeeded) cannot come back to the loop header
// — nor leave the loop other than by a failing return — without (1) a call of a repo function
// that is given the recognised statement and (2) a builder write of that call's result. The
// same for the loop over the program texts. This is the "nothing is skipped because of what it
// contains" half of every emission property; what each emitter writes is the business of the
// per-kind rules.
func c10f(c *Ctx) {
	emit := c.Fn("emitter.Emitter.Emit")
	if emit == nil {
		return
	}
	heads := loopHeaders(emit)
	nArms := 0
	instrs(emit, func(in ssa.Instruction) {
		ta, ok := in.(*ssa.TypeAssert)
		if !ok || !ta.CommaOk || ta.Referrers() == nil {
			return
		}
		h := heads[ta.Block()]
		if h == nil {
			return
		}
		kind := types.TypeString(ta.AssertedType, func(p *types.Package) string { return p.Name() })
		var val, okv ssa.Value
		for _, r := range *ta.Referrers() {
			if ex, isEx := r.(*ssa.Extract); isEx {
				if ex.Index == 0 {
					val = ex
				} else {
					okv = ex
				}
			}
		}
		if okv == nil || okv.Referrers() == nil {
			return
		}
		var branch *ssa.If
		for _, r := range *okv.Referrers() {
			if ifi, isIf := r.(*ssa.If); isIf {
				branch = ifi
			}
		}
		if branch == nil {
			return
		}
		key := "Emit/" + kind
		pos := c.W.Pos(ta.Pos())
		if val == nil || val.Referrers() == nil || len(*val.Referrers()) == 0 {
			// recognised only to be set aside (texts are rendered from program.Texts)
			c.OK(key+"/set-aside", pos, "recognised and left to another loop")
			return
		}
		nArms++
		body := loopBody(h)
		// (1) handed to a repo function
		var emitCalls []ssa.Instruction
		for _, ci := range callsIn(emit) {
			g := callee(ci)
			if g == nil || !c.W.InRepo(g) {
				continue
			}
			for _, a := range ci.Common().Args {
				if a == val {
					emitCalls = append(emitCalls, ci.(ssa.Instruction))
				}
			}
		}
		isOneOf := func(set []ssa.Instruction) func(ssa.Instruction) bool {
			return func(x ssa.Instruction) bool {
				for _, s := range set {
					if s == x {
						return true
					}
				}
				return false
			}
		}
		leaves := func(x ssa.Instruction) bool {
			b := x.Block()
			if b == h {
				return true
			}
			if body[b] {
				return false
			}
			if len(b.Instrs) > 0 {
				if r, isRet := b.Instrs[len(b.Instrs)-1].(*ssa.Return); isRet && !isSuccessReturn(r) {
					return false
				}
			}
			return true
		}
		start := point{branch.Block().Succs[0], 0}
		w, skip := existsPath(pathQuery{from: start, avoid: isOneOf(emitCalls), edgeOK: notErrorEdge, target: func(x ssa.Instruction) bool { return !isOneOf(emitCalls)(x) && leaves(x) }})
		if len(emitCalls) == 0 || skip {
			c.Bad(key+"/handed-to-its-emitter", pos, fmt.Sprintf("a %s can be passed over without being handed to an emit function (the iteration can reach %s without the call): the statement, and every label it defines, would be missing from the output", kind, c.nearPos(w)))
			return
		}
		c.OK(key+"/handed-to-its-emitter", pos, "every recognised "+kind+" is handed to its emit function")
		// (2) the result is written
		for _, ec := range emitCalls {
			var writes []ssa.Instruction
			for _, ci := range callsIn(emit) {
				n := calleeName(ci)
				if n != "(*strings.Builder).WriteString" || len(ci.Common().Args) < 2 {
					continue
				}
				if derivedFrom(ci.Common().Args[1], ec.(ssa.Value), 0) {
					writes = append(writes, ci.(ssa.Instruction))
				}
			}
			w, skip := existsPath(pathQuery{from: after(ec), avoid: isOneOf(writes), edgeOK: notErrorEdge, target: func(x ssa.Instruction) bool { return !isOneOf(writes)(x) && leaves(x) }})
			c.Check(len(writes) > 0 && !skip, key+"/result-written", c.W.Pos(ec.Pos()), "what the emit function returns is written to the output", fmt.Sprintf("the text returned for a %s is not always written to the output (the iteration can reach %s without the write)", kind, c.nearPos(w)))
		}
	})
	c.Check(nArms >= 5, "Emit/arms", c.W.FuncPos(emit), "found the dispatch arms of Emit", fmt.Sprintf("expected at least 5 statement kinds dispatched in Emit's loop, found %d", nArms))
	// program texts
	if et := c.Fn("emitter.Emitter.emitText"); et != nil {
		calls := callsToIn(emit, et)
		c.Check(len(calls) >= 1, "Emit/texts/emitted", c.W.FuncPos(emit), "program texts are emitted", "Emit does not call emitText")
		for _, ec := range calls {
			pos := c.W.Pos(ec.Pos())
			if heads[ec.Block()] == nil {
				c.Bad("Emit/texts/every-text", pos, "emitText is not called in a loop over the program texts")
				continue
			}
			w, skip := loopSkip(emit, ec.(ssa.Instruction))
			c.Check(!skip, "Emit/texts/every-text", pos, "every program text is emitted", "some program texts are not emitted (an iteration can reach "+c.nearPos(w)+" without the call): the label a command refers to would be undefined")
			var writes []ssa.Instruction
			for _, ci := range callsIn(emit) {
				if calleeName(ci) == "(*strings.Builder).WriteString" && len(ci.Common().Args) >= 2 && derivedFrom(ci.Common().Args[1], ec.(ssa.Value), 0) {
					writes = append(writes, ci.(ssa.Instruction))
				}
			}
			w, skip = loopSkip(emit, writes...)
			c.Check(len(writes) > 0 && !skip, "Emit/texts/result-written", pos, "every emitted text is written to the output", "the rendering of a text is not always written to the output (an iteration can reach "+c.nearPos(w)+" without the write)")
		}
	}
}
