package main

// Output write sites: calls of (*strings.Builder).WriteString/WriteByte/WriteRune whose
// argument is a constant or fmt.Sprintf with a constant format.

import (
	"go/constant"
	"sort"
	"strconv"

	"golang.org/x/tools/go/ssa"
)

type writeSite struct {
	call   ssa.CallInstruction
	method string      // WriteString / WriteByte / WriteRune
	sb     ssa.Value   // the builder
	format string      // constant text or Sprintf format ("" when neither)
	isFmt  bool        // argument is fmt.Sprintf(format, args...)
	args   []ssa.Value // Sprintf operands (unwrapped from interface conversion)
	arg    ssa.Value   // the raw argument
	konst  bool        // argument is a constant
}

// varargElems returns the elements stored into a varargs slice value.
func varargElems(v ssa.Value) []ssa.Value {
	sl, ok := v.(*ssa.Slice)
	if !ok {
		if c, ok := v.(*ssa.Const); ok && c.Value == nil {
			return nil
		}
		return nil
	}
	arr, ok := sl.X.(*ssa.Alloc)
	if !ok {
		return nil
	}
	elems := map[int64]ssa.Value{}
	for _, ref := range *arr.Referrers() {
		ia, ok := ref.(*ssa.IndexAddr)
		if !ok {
			continue
		}
		idx, ok := intConst(ia.Index)
		if !ok {
			continue
		}
		for _, r2 := range *ia.Referrers() {
			if st, ok := r2.(*ssa.Store); ok && st.Addr == ssa.Value(ia) {
				val := st.Val
				if mi, ok := val.(*ssa.MakeInterface); ok {
					val = mi.X
				}
				elems[idx] = val
			}
		}
	}
	var keys []int64
	for k := range elems {
		keys = append(keys, k)
	}
	sort.Slice(keys, func(i, j int) bool { return keys[i] < keys[j] })
	var out []ssa.Value
	for _, k := range keys {
		out = append(out, elems[k])
	}
	return out
}

// sprintfOf: if v is fmt.Sprintf(constFormat, args...) return format and operands.
func sprintfOf(v ssa.Value) (string, []ssa.Value, bool) {
	c, ok := v.(*ssa.Call)
	if !ok || calleeName(c) != "fmt.Sprintf" {
		return "", nil, false
	}
	f, ok := strConst(c.Call.Args[0])
	if !ok {
		return "", nil, false
	}
	var ops []ssa.Value
	if len(c.Call.Args) > 1 {
		ops = varargElems(c.Call.Args[1])
	}
	return f, ops, true
}

// writeSites lists the builder writes of fn in source order.
func writeSites(fn *ssa.Function) []writeSite {
	var out []writeSite
	for _, ci := range callsIn(fn) {
		n := calleeName(ci)
		var method string
		switch n {
		case "(*strings.Builder).WriteString":
			method = "WriteString"
		case "(*strings.Builder).WriteByte":
			method = "WriteByte"
		case "(*strings.Builder).WriteRune":
			method = "WriteRune"
		default:
			continue
		}
		args := ci.Common().Args
		ws := writeSite{call: ci, method: method, sb: args[0], arg: args[1]}
		if f, ops, ok := sprintfOf(args[1]); ok {
			ws.format, ws.args, ws.isFmt = f, ops, true
		} else if f, ops, ok := concatTemplate(args[1]); ok {
			// "a" + x + "b"  is treated like Sprintf("a%sb", x)
			ws.format, ws.args, ws.isFmt = f, ops, true
		} else if s, ok := strConst(args[1]); ok {
			ws.format, ws.konst = s, true
		} else if c, ok := args[1].(*ssa.Const); ok && c.Value != nil && c.Value.Kind() == constant.Int {
			if n, ok := constant.Int64Val(c.Value); ok {
				ws.format, ws.konst = string(rune(n)), true
			}
		}
		out = append(out, ws)
	}
	sort.SliceStable(out, func(i, j int) bool { return out[i].call.Pos() < out[j].call.Pos() })
	return out
}

func q(s string) string { return strconv.Quote(s) }

// concatTemplate flattens a chain of string concatenations with at least one constant
// piece into a Sprintf-like template: constants are copied ('%' doubled), other pieces
// become %s (%d for strconv.Itoa(x), with x as the operand).
func concatTemplate(v ssa.Value) (string, []ssa.Value, bool) {
	bo, ok := v.(*ssa.BinOp)
	if !ok || bo.Op.String() != "+" {
		return "", nil, false
	}
	var pieces []ssa.Value
	var flat func(x ssa.Value)
	flat = func(x ssa.Value) {
		if b, ok := x.(*ssa.BinOp); ok && b.Op.String() == "+" {
			flat(b.X)
			flat(b.Y)
			return
		}
		pieces = append(pieces, x)
	}
	flat(v)
	format := ""
	var ops []ssa.Value
	nConst := 0
	for _, p := range pieces {
		if s, ok := strConst(p); ok {
			nConst++
			for _, r := range s {
				if r == '%' {
					format += "%%"
				} else {
					format += string(r)
				}
			}
			continue
		}
		if call, ok := p.(*ssa.Call); ok && calleeName(call) == "strconv.Itoa" {
			format += "%d"
			ops = append(ops, call.Call.Args[0])
			continue
		}
		format += "%s"
		ops = append(ops, p)
	}
	if nConst == 0 {
		return "", nil, false
	}
	return format, ops, true
}
