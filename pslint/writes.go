package main

// Output write sites: calls of (*strings.Builder).WriteString/WriteByte/WriteRune whose
// argument is a constant or fmt.Sprintf with a constant format.

import (
	"go/constant"
	"go/token"
	"go/types"
	"regexp"
	"sort"
	"strconv"
	"strings"

	"golang.org/x/tools/go/ssa"
)

type writeSite struct {
	call   ssa.Instruction
	method string             // WriteString / WriteByte / WriteRune
	sb     ssa.Value          // the builder
	format string             // constant text or Sprintf format ("" when neither)
	isFmt  bool               // argument is fmt.Sprintf(format, args...)
	args   []ssa.Value        // Sprintf operands (unwrapped from interface conversion)
	arg    ssa.Value          // the raw argument
	konst  bool               // argument is a constant
	argT   []string           // operand terms in the namespace of the analysed function
	cond   dnf                // reaching condition of the write in that namespace
	via    *ssa.Function      // non-nil: the write is performed by this helper, called at `call`
	depth  int                // number of helper calls between the analysed function and the write
	inner  token.Pos          // position of the write itself (== call.Pos() when depth is 0)
	origin *ssa.Function      // the function containing the write itself
	alt    int                // >0: the k-th alternative of a merged operand (splitPhiOperand)
	origT  []string           // operand terms before any operand was split into alternatives
	done   map[ssa.Value]bool // operands already resolved into an alternative (not split again)
}

// varargElems returns the elements stored into a varargs slice value.
func varargElems(v ssa.Value) []ssa.Value {
	sl, ok := v.(*ssa.Slice)
	if !ok {
		if c, ok := v.(*ssa.Const); ok && c.Value == nil {
			return nil
		}
		return nil
	}
	arr, ok := sl.X.(*ssa.Alloc)
	if !ok {
		return nil
	}
	elems := map[int64]ssa.Value{}
	for _, ref := range *arr.Referrers() {
		ia, ok := ref.(*ssa.IndexAddr)
		if !ok {
			continue
		}
		idx, ok := intConst(ia.Index)
		if !ok {
			continue
		}
		for _, r2 := range *ia.Referrers() {
			if st, ok := r2.(*ssa.Store); ok && st.Addr == ssa.Value(ia) {
				val := st.Val
				if mi, ok := val.(*ssa.MakeInterface); ok {
					val = mi.X
				}
				elems[idx] = val
			}
		}
	}
	var keys []int64
	for k := range elems {
		keys = append(keys, k)
	}
	sort.Slice(keys, func(i, j int) bool { return keys[i] < keys[j] })
	var out []ssa.Value
	for _, k := range keys {
		out = append(out, elems[k])
	}
	return out
}

// sprintfOf: if v is fmt.Sprintf(constFormat, args...) return format and operands.
func sprintfOf(v ssa.Value) (string, []ssa.Value, bool) {
	c, ok := v.(*ssa.Call)
	if !ok || calleeName(c) != "fmt.Sprintf" {
		return "", nil, false
	}
	f, ok := strConst(c.Call.Args[0])
	if !ok {
		return "", nil, false
	}
	var ops []ssa.Value
	if len(c.Call.Args) > 1 {
		ops = varargElems(c.Call.Args[1])
	}
	return f, ops, true
}

// writeSites lists the builder writes of fn in source order.
func writeSites(fn *ssa.Function) []writeSite {
	var out []writeSite
	for _, ci := range callsIn(fn) {
		n := calleeName(ci)
		var method string
		switch n {
		case "(*strings.Builder).WriteString":
			method = "WriteString"
		case "(*strings.Builder).WriteByte":
			method = "WriteByte"
		case "(*strings.Builder).WriteRune":
			method = "WriteRune"
		default:
			continue
		}
		args := ci.Common().Args
		ws := writeSite{call: ci, method: method, sb: args[0], arg: args[1]}
		if f, ops, ok := flatTemplate(args[1], 0); ok {
			// "a" + x + "b"  is treated like Sprintf("a%sb", x); nested templates are spliced in
			ws.format, ws.args, ws.isFmt = f, ops, true
		} else if s, ok := strConst(args[1]); ok {
			ws.format, ws.konst = s, true
		} else if c, ok := args[1].(*ssa.Const); ok && c.Value != nil && c.Value.Kind() == constant.Int {
			if n, ok := constant.Int64Val(c.Value); ok {
				ws.format, ws.konst = string(rune(n)), true
			}
		}
		out = append(out, ws)
	}
	// A function that builds its text in a builder may return a directly formatted string
	// on some path (`if !x { return v + "\n" }`): that return is a write of the whole text.
	{
		res := fn.Signature.Results()
		if res.Len() >= 1 && types.Identical(res.At(0).Type(), types.Typ[types.String]) {
			for _, r := range returnsOf(fn) {
				if len(r.Results) == 0 {
					continue
				}
				v := r.Results[0]
				ws := writeSite{call: r, method: "Return", arg: v}
				if f, ops, ok := sprintfOf(v); ok {
					ws.format, ws.args, ws.isFmt = f, ops, true
				} else if f, ops, ok := concatTemplate(v); ok {
					ws.format, ws.args, ws.isFmt = f, ops, true
				} else {
					continue
				}
				out = append(out, ws)
			}
		}
	}
	sort.SliceStable(out, func(i, j int) bool { return out[i].call.Pos() < out[j].call.Pos() })
	return out
}

func q(s string) string { return strconv.Quote(s) }

// concatTemplate flattens a chain of string concatenations with at least one constant
// piece into a Sprintf-like template: constants are copied ('%' doubled), other pieces
// become %s (%d for strconv.Itoa(x), with x as the operand).
func concatTemplate(v ssa.Value) (string, []ssa.Value, bool) {
	bo, ok := v.(*ssa.BinOp)
	if !ok || bo.Op.String() != "+" {
		return "", nil, false
	}
	var pieces []ssa.Value
	var flat func(x ssa.Value)
	flat = func(x ssa.Value) {
		if b, ok := x.(*ssa.BinOp); ok && b.Op.String() == "+" {
			flat(b.X)
			flat(b.Y)
			return
		}
		pieces = append(pieces, x)
	}
	flat(v)
	format := ""
	var ops []ssa.Value
	nConst := 0
	for _, p := range pieces {
		if s, ok := strConst(p); ok {
			nConst++
			for _, r := range s {
				if r == '%' {
					format += "%%"
				} else {
					format += string(r)
				}
			}
			continue
		}
		if call, ok := p.(*ssa.Call); ok && calleeName(call) == "strconv.Itoa" {
			format += "%d"
			ops = append(ops, call.Call.Args[0])
			continue
		}
		format += "%s"
		ops = append(ops, p)
	}
	if nConst == 0 && len(pieces) < 2 {
		return "", nil, false
	}
	return format, ops, true
}

// sitesOf lists the builder writes performed by fn, including those performed on fn's
// builder by helper functions it calls (virtual inlining, depth 2): a helper's write is
// reported at the call instruction in fn, with its operands and its condition rewritten
// into fn's namespace ($k -> k-th argument) and conjoined with the condition of the call.
var bareParamRe = regexp.MustCompile(`^\$(\d+)$`)

func (c *Ctx) sitesOf(fn *ssa.Function) []writeSite {
	return c.sitesDepth(fn, 0, map[*ssa.Function]bool{})
}

func (c *Ctx) sitesDepth(fn *ssa.Function, depth int, onStack map[*ssa.Function]bool) []writeSite {
	pc := c.PC(fn)
	var out []writeSite
	for _, ws := range writeSites(fn) {
		for _, a := range ws.args {
			ws.argT = append(ws.argT, c.term(fn, a))
		}
		ws.inner = ws.call.Pos()
		ws.origin = fn
		ws.origT = append([]string{}, ws.argT...)
		ws.cond = pc.canonOf(pc.At(ws.call.Block()))
		if ws.cond.unknown {
			ws.cond = mkDNF(pc.Must(ws.call.Block()))
		}
		// a plain write of a string chosen by a helper: one site per alternative
		if !ws.isFmt && !ws.konst && ws.method == "WriteString" {
			if call, ok := ws.arg.(*ssa.Call); ok && callee(call) != nil && c.W.InRepo(callee(call)) {
				alts := c.stringAlts(fn, ws.arg, 0)
				if len(alts) > 1 || (len(alts) == 1 && (alts[0].konst || alts[0].isTmpl)) {
					for k, a := range alts {
						ns := ws
						ns.alt = k + 1
						ns.cond = andDNF(ws.cond, a.cond)
						// the text is produced by the helper: the site counts as the helper's,
						// seen from here (duties on it are judged like those of an inlined write)
						ns.via = callee(call)
						ns.depth = 1
						switch {
						case a.konst:
							ns.konst, ns.format = true, a.text
						case a.isTmpl:
							ns.isFmt, ns.format = true, a.format
							ns.argT = append([]string{}, a.argT...)
							ns.origT = append([]string{}, a.argT...)
							ns.args = nil
							foldConstOperands(&ns)
						default:
							ns.argT = []string{a.term}
						}
						out = append(out, ns)
					}
					continue
				}
			}
		}
		for _, sp := range c.splitPhiOperand(fn, ws) {
			foldConstOperands(&sp)
			out = append(out, sp)
		}
	}
	if depth >= inlineDepth {
		return out
	}
	onStack[fn] = true
	defer delete(onStack, fn)
	for _, ci := range callsIn(fn) {
		g := callee(ci)
		if g == nil || !c.W.InRepo(g) || onStack[g] || len(g.Blocks) == 0 {
			continue
		}
		args := ci.Common().Args
		hasBuilder := false
		for _, a := range args {
			if isBuilderPtr(a.Type()) {
				hasBuilder = true
			}
		}
		if !hasBuilder {
			continue
		}
		callCond := pc.canonOf(pc.At(ci.Block()))
		if callCond.unknown {
			callCond = mkDNF(pc.Must(ci.Block()))
		}
		for _, sub := range c.sitesDepth(g, depth+1, onStack) {
			// the builder written by the helper must be one of its parameters
			k := paramIndex(g, sub.sb)
			if k < 0 || k >= len(args) {
				continue
			}
			ns := writeSite{call: ci, method: sub.method, sb: args[k], format: sub.format, isFmt: sub.isFmt, konst: sub.konst, via: g, depth: sub.depth + 1, inner: sub.inner, origin: sub.origin}
			for _, t := range sub.argT {
				ns.argT = append(ns.argT, c.substParams(fn, ci, t))
			}
			// an operand that is a parameter of the helper, for which this caller passes a
			// formatted text (`label := Sprintf("%s_%d", n, id); helper(sb, label)`), is
			// spliced in: the write has the same template as if it were formatted in place
			for i := len(sub.argT) - 1; i >= 0 && ns.isFmt; i-- {
				m := bareParamRe.FindStringSubmatch(sub.argT[i])
				if m == nil {
					continue
				}
				pk, _ := strconv.Atoi(m[1])
				start, end := verbSpan(ns.format, i)
				if pk >= len(args) || start < 0 || ns.format[start:end] != "%s" {
					continue
				}
				if sf, sops, ok := flatTemplate(args[pk], 0); ok {
					var st []string
					for _, o := range sops {
						st = append(st, c.term(fn, o))
					}
					ns.format = ns.format[:start] + sf + ns.format[end:]
					ns.argT = append(append(append([]string{}, ns.argT[:i]...), st...), ns.argT[i+1:]...)
				}
			}
			for _, t := range sub.origT {
				ns.origT = append(ns.origT, c.substParams(fn, ci, t))
			}
			ns.alt = sub.alt
			sc := dnf{unknown: sub.cond.unknown}
			for _, cj := range sub.cond.cs {
				var n conj
				for _, l := range cj {
					n = append(n, normLit(l[:1]+c.substParams(fn, ci, l[1:])))
				}
				sort.Strings(n)
				sc.cs = append(sc.cs, n)
			}
			ns.cond = andDNF(callCond, sc)
			foldConstOperands(&ns)
			out = append(out, ns)
		}
	}
	sort.SliceStable(out, func(i, j int) bool { return out[i].call.Pos() < out[j].call.Pos() })
	return out
}

// siteMust: literals that hold whenever the write is performed.
func siteMust(ws writeSite) []string {
	d := ws.cond
	if d.unknown || len(d.cs) == 0 {
		return nil
	}
	count := map[string]int{}
	for _, cj := range d.cs {
		for _, l := range cj {
			count[l]++
		}
	}
	var out []string
	for l, n := range count {
		if n == len(d.cs) {
			out = append(out, l)
		}
	}
	sort.Strings(out)
	return out
}

const inlineDepth = 2

// isWriterHelper: fn receives a *strings.Builder, is only ever called statically from repo
// functions (never used as a value, never an interface method), so that every write it
// performs is seen, inlined, by sitesOf of each caller.
func (c *Ctx) isWriterHelper(fn *ssa.Function) bool {
	has := false
	for _, p := range fn.Params {
		if isBuilderPtr(p.Type()) {
			has = true
		}
	}
	if !has || len(c.W.callsTo(fn)) == 0 {
		return false
	}
	if fn.Signature.Recv() != nil {
		for _, pkg := range c.W.Pkgs {
			sc := pkg.Types.Scope()
			for _, n := range sc.Names() {
				tn, ok := sc.Lookup(n).(*types.TypeName)
				if !ok {
					continue
				}
				if it, ok := tn.Type().Underlying().(*types.Interface); ok {
					for i := 0; i < it.NumMethods(); i++ {
						if it.Method(i).Name() == fn.Name() {
							return false
						}
					}
				}
			}
		}
	}
	for _, g := range c.W.Funcs {
		used := false
		instrs(g, func(in ssa.Instruction) {
			for _, op := range in.Operands(nil) {
				f, ok := (*op).(*ssa.Function)
				if !ok || f == nil {
					continue
				}
				if f != fn && !(f.Synthetic != "" && f.Object() != nil && f.Object() == fn.Object()) {
					continue
				}
				if ci, ok := in.(ssa.CallInstruction); ok && ci.Common().Value == *op && f == fn {
					continue
				}
				used = true
			}
		})
		if used {
			return false
		}
	}
	return true
}

func isBuilderPtr(t types.Type) bool {
	if p, ok := t.(*types.Pointer); ok {
		if n, ok := p.Elem().(*types.Named); ok && n.Obj().Name() == "Builder" && n.Obj().Pkg() != nil && n.Obj().Pkg().Path() == "strings" {
			return true
		}
	}
	return false
}

// siteDuty is one write site on which a rule places an obligation.
type siteDuty struct {
	fn          *ssa.Function
	ws          writeSite
	ok          bool
	transferred bool // not satisfied in fn itself, fn is a writer helper: checked in its callers
}

// siteDuties evaluates an obligation on every relevant native write site of fns. A site
// that does not satisfy it inside a writer helper (isWriterHelper) is handed to the helper's
// callers, which see the same write inlined (sitesOf) with operands and condition in their
// own terms; the hand-over stops at the inlining depth.
func (c *Ctx) siteDuties(fns []*ssa.Function, relevant func(ws writeSite) bool, ok func(fn *ssa.Function, ws writeSite) bool) []siteDuty {
	type item struct {
		fn *ssa.Function
		ws writeSite
	}
	var work []item
	for _, fn := range fns {
		for _, ws := range c.sitesOf(fn) {
			if ws.depth == 0 && relevant(ws) {
				work = append(work, item{fn, ws})
			}
		}
	}
	var out []siteDuty
	for len(work) > 0 {
		it := work[0]
		work = work[1:]
		d := siteDuty{fn: it.fn, ws: it.ws}
		if ok(it.fn, it.ws) {
			d.ok = true
		} else if it.ws.depth < inlineDepth && c.isWriterHelper(it.fn) {
			seen := map[*ssa.Function]bool{}
			n := 0
			for _, call := range c.W.callsTo(it.fn) {
				f := call.Parent()
				if seen[f] {
					continue
				}
				seen[f] = true
				for _, ws2 := range c.sitesOf(f) {
					if ws2.via == it.fn && ws2.inner == it.ws.inner && ws2.depth == it.ws.depth+1 && ws2.alt == it.ws.alt {
						work = append(work, item{f, ws2})
						n++
					}
				}
			}
			d.transferred = n > 0
		} else if it.ws.method == "Return" && it.ws.depth == 0 {
			// a text produced by a builder-less helper: each caller that writes the result
			// directly sees the alternatives as its own sites (stringAlts) and is judged there
			calls := c.W.callsTo(it.fn)
			all := len(calls) > 0
			seen := map[*ssa.Function]bool{}
			for _, call := range calls {
				v, isV := call.(ssa.Value)
				written := false
				if isV && v.Referrers() != nil && len(*v.Referrers()) > 0 {
					written = true
					for _, r := range *v.Referrers() {
						ci, isCall := r.(ssa.CallInstruction)
						if _, dbg := r.(*ssa.DebugRef); dbg {
							continue
						}
						if !isCall || calleeName(ci) != "(*strings.Builder).WriteString" || len(ci.Common().Args) < 2 || ci.Common().Args[1] != v {
							written = false
						}
					}
				}
				all = all && written
				f := call.Parent()
				if !written || f == nil || seen[f] {
					continue
				}
				seen[f] = true
				for _, ws2 := range c.sitesOf(f) {
					if ws2.via == it.fn && ws2.depth == 1 && ws2.method == "WriteString" && ws2.alt > 0 && ws2.format == it.ws.format {
						work = append(work, item{f, ws2})
					}
				}
			}
			d.transferred = all
		}
		out = append(out, d)
	}
	return out
}

// argV: the i-th operand as an SSA value of the analysed function; nil for writes that
// are performed by a helper (their operands exist only as terms).
func (ws writeSite) argV(i int) ssa.Value {
	if i < len(ws.args) {
		return ws.args[i]
	}
	return nil
}

// splitPhiOperand: a formatted write one of whose %s operands is a merge of alternatives,
// at least one of them a string constant (`cmd := "a"; if p { cmd = "b" }; write("\t%s ..", cmd)`),
// is reported as one write per alternative: the constant is substituted into the format and
// the reaching condition is restricted to the edge that selects it. The two spellings of
// "choose the mnemonic" — one write per arm, or one write of a chosen word — thus give the
// same sites. Merges at loop heads are left alone.
func (c *Ctx) splitPhiOperand(fn *ssa.Function, ws writeSite) []writeSite {
	if !ws.isFmt {
		return []writeSite{ws}
	}
	pc := c.PC(fn)
	// an operand computed by a conditional value helper: one site per alternative
	for i, a := range ws.args {
		call, ok := a.(*ssa.Call)
		if !ok || ws.done[a] {
			continue
		}
		alts, ok := pc.altsOfCall(call)
		if !ok {
			continue
		}
		var out []writeSite
		for k, al := range alts {
			ns := ws
			ns.alt = ws.alt*8 + k + 1
			ns.cond = andDNF(ws.cond, dnf{cs: []conj{al.cond}})
			ns.args = append([]ssa.Value{}, ws.args...)
			ns.done = map[ssa.Value]bool{a: true} // resolved; the term stands for it from here on
			for k := range ws.done {
				ns.done[k] = true
			}
			ns.argT = append([]string{}, ws.argT...)
			ns.argT[i] = al.term
			out = append(out, c.splitPhiOperand(fn, ns)...) // other operands may have alternatives too
		}
		return out
	}
	for i, a := range ws.args {
		ph, ok := a.(*ssa.Phi)
		if !ok || isLoopHeader(ph.Block()) || !ph.Block().Dominates(ws.call.Block()) {
			continue
		}
		nConst := 0
		for _, e := range ph.Edges {
			if _, ok := strConst(e); ok {
				nConst++
			} else if _, _, ok := concatTemplate(e); ok {
				nConst++ // an alternative that is itself a concatenation (`line += " " + x`)
			}
		}
		start, end := verbSpan(ws.format, i)
		if nConst == 0 || start < 0 || ws.format[start:end] != "%s" {
			continue
		}
		var out []writeSite
		for k, e := range ph.Edges {
			pred := ph.Block().Preds[k]
			pd := pc.At(pred)
			if pd.unknown {
				pd = mkDNF(pc.Must(pred))
			}
			ed := dnf{cs: pc.edgeDNF(pred, ph.Block())}
			ns := ws
			ns.cond = andDNF(ws.cond, andDNF(pd, ed))
			ns.alt = ws.alt*8 + k + 1
			if s, ok := strConst(e); ok {
				ns.format = ws.format[:start] + strings.ReplaceAll(s, "%", "%%") + ws.format[end:]
				ns.args = append(append([]ssa.Value{}, ws.args[:i]...), ws.args[i+1:]...)
				ns.argT = append(append([]string{}, ws.argT[:i]...), ws.argT[i+1:]...)
			} else if f, ops, ok := concatTemplate(e); ok {
				ns.format = ws.format[:start] + f + ws.format[end:]
				ns.args = append(append(append([]ssa.Value{}, ws.args[:i]...), ops...), ws.args[i+1:]...)
				var opT []string
				for _, o := range ops {
					opT = append(opT, c.term(fn, o))
				}
				ns.argT = append(append(append([]string{}, ws.argT[:i]...), opT...), ws.argT[i+1:]...)
			} else {
				ns.args = append([]ssa.Value{}, ws.args...)
				ns.args[i] = e
				ns.argT = append([]string{}, ws.argT...)
				ns.argT[i] = c.term(fn, e)
			}
			out = append(out, c.splitPhiOperand(fn, ns)...)
		}
		return out
	}
	return []writeSite{ws}
}

// verbSpan returns the byte span of the i-th formatting verb of format.
func verbSpan(format string, i int) (int, int) {
	n := 0
	for p := 0; p < len(format); p++ {
		if format[p] != '%' {
			continue
		}
		if p+1 < len(format) && format[p+1] == '%' {
			p++
			continue
		}
		q := p + 1
		for q < len(format) && strings.ContainsRune("+-# 0123456789.", rune(format[q])) {
			q++
		}
		if q >= len(format) {
			return -1, -1
		}
		if n == i {
			return p, q + 1
		}
		n++
		p = q
	}
	return -1, -1
}

// foldConstOperands substitutes operands that are constants into the format, so that
// Sprintf("\t%s\n", "step_end"), "\t" + "step_end" + "\n" and "\tstep_end\n" are one shape.
func foldConstOperands(ws *writeSite) {
	if !ws.isFmt {
		return
	}
	for i := 0; i < len(ws.argT); {
		start, end := verbSpan(ws.format, i)
		if start < 0 {
			return
		}
		verb := ws.format[start:end]
		t := ws.argT[i]
		text, ok := "", false
		if verb == "%s" && strings.HasPrefix(t, `"`) {
			if u, err := strconv.Unquote(t); err == nil {
				text, ok = u, true
			}
		}
		if verb == "%d" {
			if _, err := strconv.Atoi(t); err == nil {
				text, ok = t, true
			}
		}
		if !ok {
			i++
			continue
		}
		ws.format = ws.format[:start] + strings.ReplaceAll(text, "%", "%%") + ws.format[end:]
		ws.argT = append(append([]string{}, ws.argT[:i]...), ws.argT[i+1:]...)
		if i < len(ws.args) {
			ws.args = append(append([]ssa.Value{}, ws.args[:i]...), ws.args[i+1:]...)
		}
	}
}

// flatReturn is one way a function can return, in its own namespace: a return of the function
// itself, or — for `return helper(sb, ...)` where helper is a writer helper — each return of
// the helper, with values and condition rewritten through the call.
type flatReturn struct {
	ret   *ssa.Return
	terms []string
	cond  dnf
}

func (c *Ctx) flatReturns(fn *ssa.Function) []flatReturn {
	return c.flatReturnsDepth(fn, 0)
}

func (c *Ctx) flatReturnsDepth(fn *ssa.Function, depth int) []flatReturn {
	pc := c.PC(fn)
	var out []flatReturn
	for _, r := range returnsOf(fn) {
		cond := pc.canonOf(pc.At(r.Block()))
		if cond.unknown {
			cond = mkDNF(pc.Must(r.Block()))
		}
		if len(r.Results) == 1 && depth < inlineDepth {
			if call, ok := r.Results[0].(*ssa.Call); ok {
				g := callee(call)
				if g != nil && g != fn && c.W.InRepo(g) && len(g.Blocks) > 0 && c.isWriterHelper(g) && call.Block() == r.Block() {
					for _, sub := range c.flatReturnsDepth(g, depth+1) {
						fr := flatReturn{ret: r}
						for _, t := range sub.terms {
							fr.terms = append(fr.terms, c.substParams(fn, call, t))
						}
						sc := dnf{unknown: sub.cond.unknown}
						for _, cj := range sub.cond.cs {
							var n conj
							for _, l := range cj {
								n = append(n, normLit(l[:1]+c.substParams(fn, call, l[1:])))
							}
							sort.Strings(n)
							sc.cs = append(sc.cs, n)
						}
						fr.cond = andDNF(cond, sc)
						out = append(out, fr)
					}
					continue
				}
			}
		}
		// results merged just before the return (`t := dflt; if c { t = x }; return t`): one
		// alternative per incoming edge of the merge
		var blk *ssa.BasicBlock
		for _, v := range r.Results {
			if ph, ok := v.(*ssa.Phi); ok && ph.Block() == r.Block() && !isLoopHeader(ph.Block()) {
				blk = ph.Block()
			}
		}
		if blk != nil && len(blk.Preds) <= 12 {
			for i, pred := range blk.Preds {
				pd := pc.canonOf(pc.At(pred))
				if pd.unknown {
					pd = mkDNF(pc.Must(pred))
				}
				ec := andDNF(pd, dnf{cs: pc.edgeDNF(pred, blk)})
				if len(ec.cs) == 0 && !ec.unknown {
					continue
				}
				fr := flatReturn{ret: r, cond: ec}
				for _, v := range r.Results {
					if ph, ok := v.(*ssa.Phi); ok && ph.Block() == blk {
						fr.terms = append(fr.terms, c.term(fn, ph.Edges[i]))
					} else {
						fr.terms = append(fr.terms, c.term(fn, v))
					}
				}
				out = append(out, fr)
			}
			continue
		}
		fr := flatReturn{ret: r, cond: cond}
		for _, v := range r.Results {
			fr.terms = append(fr.terms, c.term(fn, v))
		}
		out = append(out, fr)
	}
	return out
}

// strAlt is one value a string-valued expression can take.
type strAlt struct {
	konst bool
	text  string // constant text
	term  string // term (in the namespace of the analysed function) when not constant
	cond  dnf    // additional condition under which this alternative is the value
	// a text built from a template (Sprintf / concatenation with at least one constant piece)
	isTmpl bool
	format string
	argT   []string
}

// stringAlts lists the alternatives of a string value: a constant; a merge of alternatives
// (non-loop φ); or the result of a small side-effect-free repo helper that returns one of
// several strings (`func lineBreak(n, max int) string { if n >= max-1 { return "\\l" }; return "\\n" }`),
// whose returns are followed recursively and rewritten into fn's terms. Anything else is one
// non-constant alternative.
func (c *Ctx) stringAlts(fn *ssa.Function, v ssa.Value, depth int) []strAlt {
	truth := dnf{cs: []conj{{}}}
	if s, ok := strConst(v); ok {
		return []strAlt{{konst: true, text: s, cond: truth}}
	}
	if depth < 3 {
		switch x := v.(type) {
		case *ssa.Phi:
			if !isLoopHeader(x.Block()) {
				pc := c.PC(fn)
				var out []strAlt
				for i, e := range x.Edges {
					pred := x.Block().Preds[i]
					pd := pc.At(pred)
					if pd.unknown {
						pd = mkDNF(pc.Must(pred))
					}
					ec := andDNF(pd, dnf{cs: pc.edgeDNF(pred, x.Block())})
					for _, a := range c.stringAlts(fn, e, depth+1) {
						a.cond = andDNF(a.cond, ec)
						out = append(out, a)
					}
				}
				return out
			}
		case *ssa.Call:
			g := callee(x)
			if g != nil && g != fn && c.W.InRepo(g) && len(g.Blocks) > 0 && !x.Call.IsInvoke() && g.Signature.Results().Len() == 1 && c.T(fn).purity(g) >= purReadOnly {
				if b, ok := g.Signature.Results().At(0).Type().Underlying().(*types.Basic); ok && b.Kind() == types.String {
					hasLoop := false
					for _, b := range g.Blocks {
						if isLoopHeader(b) {
							hasLoop = true
						}
					}
					if !hasLoop {
						pg := c.PC(g)
						var out []strAlt
						for _, r := range returnsOf(g) {
							rc := pg.At(r.Block())
							if rc.unknown {
								rc = mkDNF(pg.Must(r.Block()))
							}
							for _, a := range c.stringAlts(g, r.Results[0], depth+1) {
								cond := andDNF(a.cond, rc)
								sc := dnf{unknown: cond.unknown}
								for _, cj := range cond.cs {
									var n conj
									for _, l := range cj {
										n = append(n, normLit(l[:1]+c.substParams(fn, x, l[1:])))
									}
									sort.Strings(n)
									sc.cs = append(sc.cs, n)
								}
								a.cond = sc
								if !a.konst {
									a.term = c.substParams(fn, x, a.term)
								}
								if a.isTmpl {
									var at []string
									for _, t := range a.argT {
										at = append(at, c.substParams(fn, x, t))
									}
									a.argT = at
								}
								out = append(out, a)
							}
						}
						if len(out) > 0 {
							return out
						}
					}
				}
			}
		}
	}
	if f, ops, ok := flatTemplate(v, 0); ok {
		a := strAlt{term: c.term(fn, v), cond: truth, isTmpl: true, format: f}
		for _, o := range ops {
			a.argT = append(a.argT, c.term(fn, o))
		}
		return []strAlt{a}
	}
	return []strAlt{{term: c.term(fn, v), cond: truth}}
}

// flatTemplate: the string-building expression v as one template and its operands, with
// nested templates spliced in: Sprintf("%s_%d", a+"_"+b, i) and Sprintf("%s_%s_%d", a, b, i)
// both give ("%s_%s_%d", [a b i]). ok=false when v is not a Sprintf / concatenation.
func flatTemplate(v ssa.Value, depth int) (string, []ssa.Value, bool) {
	f, ops, ok := sprintfOf(v)
	if !ok {
		f, ops, ok = concatTemplate(v)
	}
	if !ok {
		return "", nil, false
	}
	if depth > 4 {
		return f, ops, true
	}
	for i := 0; i < len(ops); i++ {
		start, end := verbSpan(f, i)
		if start < 0 || f[start:end] != "%s" {
			continue
		}
		if s, isC := strConst(ops[i]); isC {
			f = f[:start] + strings.ReplaceAll(s, "%", "%%") + f[end:]
			ops = append(append([]ssa.Value{}, ops[:i]...), ops[i+1:]...)
			i--
			continue
		}
		// strconv.Itoa(n) spliced into a string is what %d prints
		if call, isCall := ops[i].(*ssa.Call); isCall && calleeName(call) == "strconv.Itoa" {
			f = f[:start] + "%d" + f[end:]
			ops = append(append(append([]ssa.Value{}, ops[:i]...), call.Call.Args[0]), ops[i+1:]...)
			continue
		}
		if sf, sops, ok := flatTemplate(ops[i], depth+1); ok {
			f = f[:start] + sf + f[end:]
			ops = append(append(append([]ssa.Value{}, ops[:i]...), sops...), ops[i+1:]...)
			i += len(sops) - 1
		}
	}
	return f, ops, true
}
