package main

func runControlsImpl(w *World, verifDir, prop string, extra map[string]interface{}) {}
