package main

// Thorough tier: positive controls (DESIGN §7). Each control is a small edit that breaks
// one rule instance while still compiling; it is applied to a temporary copy of the
// analysed tree (outside /repo and /verif, removed at once) and the same analyser must
// report the expected rule there. Controls never change the verdict of the property;
// they show that the rules are not vacuous. Two sources:
//   /verif/controls/<prop>/*.json   hand-written snippet edits {file, old, new, rule}
//   /verif/seeded/<prop>-*/patch.diff  independently written breaking changes
//   /verif/redteam/<prop>-*/patch.diff white-box findings (written against the analyser's source)

import (
	"encoding/json"
	"fmt"
	"os"
	"os/exec"
	"path/filepath"
	"sort"
	"strings"
	"sync"
)

type control struct {
	Name string `json:"name"`
	File string `json:"file"`
	Old  string `json:"old"`
	New  string `json:"new"`
	Rule string `json:"rule"`
	Why  string `json:"why"`
}

type controlResult struct {
	Name   string `json:"name"`
	Source string `json:"source"`
	Status string `json:"status"` // fired | missed | skipped
	Rules  string `json:"rules_fired,omitempty"`
	Note   string `json:"note,omitempty"`
}

func copyTree(src, dst string) error {
	return filepath.Walk(src, func(p string, info os.FileInfo, err error) error {
		if err != nil {
			return err
		}
		rel, _ := filepath.Rel(src, p)
		if info.IsDir() {
			if info.Name() == ".git" {
				return filepath.SkipDir
			}
			return os.MkdirAll(filepath.Join(dst, rel), 0o755)
		}
		if !info.Mode().IsRegular() {
			return nil
		}
		b, err := os.ReadFile(p)
		if err != nil {
			return err
		}
		return os.WriteFile(filepath.Join(dst, rel), b, 0o644)
	})
}

func runOn(root, prop string) (string, error) {
	cmd := exec.Command(os.Args[0], "-prop", prop, "-root", root, "-no-evidence", "-verif", verifDirGlobal)
	cmd.Env = append(os.Environ(), "GOFLAGS=-mod=mod", "GOPROXY=off", "GOSUMDB=off", "GOTOOLCHAIN=local", "GOWORK=off")
	out, err := cmd.CombinedOutput()
	return string(out), err
}

func firedRules(out string) []string {
	set := map[string]bool{}
	for _, ln := range strings.Split(out, "\n") {
		if strings.HasPrefix(ln, "FAIL ") {
			f := strings.Fields(ln)
			if len(f) > 1 {
				set[f[1]] = true
			}
		}
	}
	var rs []string
	for r := range set {
		rs = append(rs, r)
	}
	sort.Strings(rs)
	return rs
}

func runControlsImpl(w *World, verifDir, prop string, extra map[string]interface{}) {
	type job struct {
		name, source string
		apply        func(dir string) (bool, string) // applied?, note
		wantRule     string
	}
	var jobs []job
	// hand-written controls
	files, _ := filepath.Glob(filepath.Join(verifDir, "controls", prop, "*.json"))
	sort.Strings(files)
	for _, f := range files {
		b, err := os.ReadFile(f)
		if err != nil {
			continue
		}
		var cs []control
		if err := json.Unmarshal(b, &cs); err != nil {
			var one control
			if err2 := json.Unmarshal(b, &one); err2 != nil {
				continue
			}
			cs = []control{one}
		}
		for _, ct := range cs {
			ct := ct
			jobs = append(jobs, job{name: ct.Name, source: "controls/" + prop + "/" + filepath.Base(f), wantRule: ct.Rule, apply: func(dir string) (bool, string) {
				p := filepath.Join(dir, ct.File)
				src, err := os.ReadFile(p)
				if err != nil {
					return false, "file missing"
				}
				if strings.Count(string(src), ct.Old) != 1 {
					return false, "the snippet to replace no longer occurs exactly once"
				}
				return os.WriteFile(p, []byte(strings.Replace(string(src), ct.Old, ct.New, 1)), 0o644) == nil, ""
			}})
		}
	}
	// seeded changes of this property
	seeded, _ := filepath.Glob(filepath.Join(verifDir, "seeded", prop+"-*", "patch.diff"))
	sort.Strings(seeded)
	for _, pf := range seeded {
		pf := pf
		jobs = append(jobs, job{name: filepath.Base(filepath.Dir(pf)), source: "seeded", apply: func(dir string) (bool, string) {
			cmd := exec.Command("patch", "-p1", "-s", "-i", pf)
			cmd.Dir = dir
			if out, err := cmd.CombinedOutput(); err != nil {
				return false, "patch does not apply: " + strings.TrimSpace(string(out))
			}
			return true, ""
		}})
	}
	// white-box red-team findings of this property (changes written against the analyser's source)
	redteam, _ := filepath.Glob(filepath.Join(verifDir, "redteam", prop+"-*", "patch.diff"))
	sort.Strings(redteam)
	for _, pf := range redteam {
		pf := pf
		jobs = append(jobs, job{name: filepath.Base(filepath.Dir(pf)), source: "redteam", apply: func(dir string) (bool, string) {
			cmd := exec.Command("patch", "-p1", "-s", "-i", pf)
			cmd.Dir = dir
			if out, err := cmd.CombinedOutput(); err != nil {
				return false, "patch does not apply: " + strings.TrimSpace(string(out))
			}
			return true, ""
		}})
	}
	if len(jobs) == 0 {
		extra["controls_total"] = 0
		return
	}
	results := make([]controlResult, len(jobs))
	var wg sync.WaitGroup
	sem := make(chan struct{}, 8)
	for i, j := range jobs {
		wg.Add(1)
		go func(i int, j job) {
			defer wg.Done()
			sem <- struct{}{}
			defer func() { <-sem }()
			res := controlResult{Name: j.name, Source: j.source}
			dir, err := os.MkdirTemp("", "pslint-control-")
			if err != nil {
				res.Status, res.Note = "skipped", err.Error()
				results[i] = res
				return
			}
			defer os.RemoveAll(dir)
			if err := copyTree(w.Root, dir); err != nil {
				res.Status, res.Note = "skipped", err.Error()
				results[i] = res
				return
			}
			ok, note := j.apply(dir)
			if !ok {
				res.Status, res.Note = "skipped", note
				results[i] = res
				return
			}
			out, _ := runOn(dir, prop)
			rules := firedRules(out)
			res.Rules = strings.Join(rules, " ")
			if strings.Contains(out, "cannot load") || strings.Contains(out, "type error") {
				res.Status, res.Note = "skipped", "the edited tree does not compile"
			} else if len(rules) == 0 {
				res.Status = "missed"
			} else if j.wantRule != "" && !strings.Contains(" "+res.Rules+" ", " "+j.wantRule+" ") {
				res.Status, res.Note = "missed", "expected rule "+j.wantRule
			} else {
				res.Status = "fired"
			}
			results[i] = res
		}(i, j)
	}
	wg.Wait()
	fired, missed, skipped := 0, 0, 0
	for _, r := range results {
		switch r.Status {
		case "fired":
			fired++
		case "missed":
			missed++
			fmt.Printf("CONTROL-MISS %s %s (%s) %s\n", prop, r.Name, r.Source, r.Note)
		default:
			skipped++
		}
	}
	extra["controls_total"] = len(results)
	extra["controls_fired"] = fired
	extra["controls_missed"] = missed
	extra["controls_skipped"] = skipped
	extra["controls"] = results
	fmt.Printf("controls %s: %d applied and detected, %d missed, %d skipped\n", prop, fired, missed, skipped)
}
