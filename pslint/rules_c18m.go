package main

import (
	"encoding/json"
	"fmt"
	"os"
	"path/filepath"
	"regexp"
	"sort"
	"strings"

	"golang.org/x/tools/go/ssa"
)

func init() {
	register(&Rule{ID: "C18.m", Doc: "the catalogue of rejections is closed: every error the lexer, parser and emitter can raise themselves carries one of the reviewed messages — a new reason to turn a program away is a change of the set of accepted programs and has to be reviewed as such", Floor: 40, Run: c18m})
}

// c18m. Every property quantifies over "all programs"; a program that used to compile and is now
// rejected falls out of all of them at once, and nothing in the emitted code shows it. The places
// where the compiler itself decides to reject are few and easy to enumerate: calls of the two
// ParseError constructors and of fmt.Errorf / errors.New in the library packages. The rule reads
// the message of each as a template (constant text with %-verbs, whether it was written with
// Sprintf, by concatenation or through a small helper) and compares the set with the reviewed
// catalogue /verif/rejections.json. A message that is not in the catalogue is reported at its
// site. (Messages that disappear are not reported: accepting more programs breaks no property
// stated here by itself, and the rules for the construct concerned see the rest.)
func c18m(c *Ctx) {
	var cat struct {
		Messages map[string]int      `json:"messages"` // message template -> number of sites reviewed
		Guards   map[string][]string `json:"guards"`   // message template -> for each site, the kinds of fact (EMPTY, MISS, ON:<option>, …) known to hold when the rejection is reached
		Kinds    map[string][]string `json:"kinds"`    // message template -> for each site, the token kinds the current / next token is known NOT to be when the rejection is reached
	}
	b, err := os.ReadFile(filepath.Join(verifDirGlobal, "rejections.json"))
	if err != nil || json.Unmarshal(b, &cat) != nil {
		c.Unk("catalogue", "-", "cannot read rejections.json")
		return
	}
	known := cat.Messages
	seen := map[string]int{}
	sigs := map[string][]string{}
	guardsSeen := map[string][]string{}
	guardPos := map[string][]string{}
	n := 0
	var fns []*ssa.Function
	for _, pkg := range []string{"lexer", "parser", "emitter"} {
		fns = append(fns, c.W.FuncsOf(pkg)...)
	}
	for _, fn := range fns {
		if isTestFunc(c.W, fn) || len(fn.Blocks) == 0 {
			continue
		}
		for _, ci := range callsIn(fn) {
			name := calleeName(ci)
			var msg ssa.Value
			args := ci.Common().Args
			switch {
			case strings.HasSuffix(name, "/parser.NewParseError") && len(args) == 2:
				msg = args[1]
			case strings.HasSuffix(name, "/parser.NewRangeParseError") && len(args) == 3:
				msg = args[2]
			case name == "errors.New" && len(args) == 1:
				msg = args[0]
			case name == "fmt.Errorf":
				msg = ci.Value()
			default:
				continue
			}
			if msg == nil {
				continue
			}
			tmpl := ""
			if s, isC := strConst(msg); isC {
				tmpl = s
			} else if call, isCall := msg.(*ssa.Call); isCall && name == "fmt.Errorf" && call == ci.Value() {
				if s, isC := strConst(args[0]); isC {
					tmpl = s
				}
			} else if f, _, ok := flatTemplate(msg, 0); ok {
				tmpl = f
			} else if hc, isHelper := msg.(*ssa.Call); isHelper && callee(hc) != nil && c.W.InRepo(callee(hc)) && len(callee(hc).Blocks) == 1 {
				// the text is made by a straight-line helper of the repository
				// (`missingOpeningBraceMessage(kind, name)`): its template is the message
				for _, r := range returnsOf(callee(hc)) {
					if len(r.Results) != 1 {
						continue
					}
					if f, _, ok := sprintfOf(r.Results[0]); ok {
						tmpl = f
					} else if f, _, ok := flatTemplate(r.Results[0], 0); ok {
						tmpl = f
					} else if s2, isC := strConst(r.Results[0]); isC {
						tmpl = s2
					}
				}
			} else if call, isCall := msg.(*ssa.Call); isCall && strings.HasSuffix(calleeName(call), ".Error") {
				// the text of another error handed on at a new place (C18.e judges re-wrapping)
				continue
			}
			n++
			if tmpl == "" {
				// a message that is computed (passed in, looked up): the constructor helper's
				// callers are judged where the text is made
				if _, isPar := msg.(*ssa.Parameter); isPar && (fn.Name() == "NewParseError" || fn.Name() == "NewRangeParseError") {
					continue // one constructor built on the other: their callers are the sites above
				}
				if par, isPar := msg.(*ssa.Parameter); isPar {
					// the text is made by the callers of this helper: each argument they pass is a
					// message of the catalogue
					idx := paramIndex(fn, par)
					for _, cs := range c.W.callsTo(fn) {
						if isTestFunc(c.W, cs.Parent()) || idx < 0 || idx >= len(cs.Common().Args) {
							continue
						}
						a := cs.Common().Args[idx]
						t2 := ""
						if s2, isC := strConst(a); isC {
							t2 = s2
						} else if f2, _, ok2 := flatTemplate(a, 0); ok2 {
							t2 = f2
						} else if call2, isCall2 := a.(*ssa.Call); isCall2 && strings.HasSuffix(calleeName(call2), ".Error") {
							continue // the text of another error handed on (C18.e)
						} else {
							t2 = "<computed: " + c.term(cs.Parent(), a) + ">"
						}
						_, okM := known[t2]
						c.Check(okM, fmt.Sprintf("rejection-through-helper[%s]@%s", t2, cs.Parent().Name()), c.W.Pos(cs.Pos()), "a reviewed reason to reject (message handed to "+fn.Name()+")", cs.Parent().Name()+" rejects through "+fn.Name()+" with a message that is not in the reviewed catalogue ("+pretty(t2)+")")
					}
					continue
				}
				tmpl = "<computed: " + c.term(fn, msg) + ">"
			}
			seen[tmpl]++
			key := fmt.Sprintf("rejection[%s]#%d", tmpl, seen[tmpl])
			// under which token kinds the rejection is reached: "expected X" is raised when the
			// token at hand is none of the kinds that are accepted there. Narrowing that set (a
			// number is no longer a case label) turns programs away with an old message.
			{
				kinds := map[string]bool{}
				for _, l := range c.mustLits(fn, ci.Block()) {
					l = verRe.ReplaceAllString(l, "")
					if m := notKindRe.FindStringSubmatch(l); m != nil {
						kinds[m[1]+":"+m[2]] = true
					}
				}
				var ks []string
				for k := range kinds {
					ks = append(ks, k)
				}
				sort.Strings(ks)
				sig := strings.Join(ks, ",")
				sigs[tmpl] = append(sigs[tmpl], sig)
			}
			// ... and under which other conditions: what else is known to hold where the rejection
			// is raised — something is empty, a lookup failed or succeeded, an option is on. The
			// facts are kept as kinds of fact, not as terms (terms change with every refactoring):
			// a rejection that is reached with fewer such facts being known — `len(x) == 0` widened
			// to `<= 1`, a second reason joined with `||` — turns away inputs it used to let through.
			{
				factsAt := func(f *ssa.Function, in ssa.Instruction) string {
					var gs []string
					for _, l := range c.mustLits(f, in.Block()) {
						if g := guardClass(verRe.ReplaceAllString(l, "")); g != "" {
							gs = append(gs, g)
						}
					}
					sort.Strings(gs)
					return strings.Join(gs, ",")
				}
				// a straight-line helper that only makes the error (`newMissingCaseError(tok, a, b)`)
				// decides nothing: the rejection is raised where the helper is called
				var callers []ssa.CallInstruction
				if len(fn.Blocks) == 1 && fn.Signature.Results().Len() == 1 && isErrorType(fn.Signature.Results().At(0).Type()) {
					for _, cs := range c.W.callsTo(fn) {
						if !isTestFunc(c.W, cs.Parent()) {
							callers = append(callers, cs)
						}
					}
				}
				if len(callers) > 0 {
					for _, cs := range callers {
						guardsSeen[tmpl] = append(guardsSeen[tmpl], factsAt(cs.Parent(), cs))
						guardPos[tmpl] = append(guardPos[tmpl], c.W.Pos(cs.Pos()))
					}
				} else {
					guardsSeen[tmpl] = append(guardsSeen[tmpl], factsAt(fn, ci))
					guardPos[tmpl] = append(guardPos[tmpl], c.W.Pos(ci.Pos()))
				}
			}
			// several reviewed messages that differ in a constant word may be produced by one
			// site with that word as an operand (`invalid %s '%s'` for maxLineLength, numLines,
			// …): the template then generalises messages of the catalogue and brings no new one
			if _, exact := known[tmpl]; !exact {
				re := regexp.QuoteMeta(tmpl)
				for _, v := range []string{"%s", "%d", "%v", "%q"} {
					re = strings.ReplaceAll(re, v, `.+`)
				}
				if rx, err := regexp.Compile("^" + re + "$"); err == nil {
					total := 0
					for m, k := range known {
						if rx.MatchString(m) && strings.Count(m, "%") < strings.Count(tmpl, "%") {
							total += k
						}
					}
					if total > 0 && seen[tmpl] <= total {
						c.OK(key, c.W.Pos(ci.Pos()), "generalises reviewed messages of the catalogue")
						continue
					}
				}
			}
			c.Check(seen[tmpl] <= known[tmpl], key, c.W.Pos(ci.Pos()), "a reviewed reason to reject", fn.Name()+" rejects with a message that is not in the reviewed catalogue, or at one more place than reviewed ("+pretty(tmpl)+"): a program that compiled before may now be turned away — every property is stated for all programs, so a new rejection has to be reviewed (and added to rejections.json) like a change of the language")
		}
	}
	// the accepted kinds at each reviewed message are the reviewed ones (as a multiset over the sites
	// of the message: sites may move between functions)
	for tmpl, want := range cat.Kinds {
		got := append([]string{}, sigs[tmpl]...)
		if len(got) == 0 {
			continue
		}
		w := append([]string{}, want...)
		sort.Strings(got)
		sort.Strings(w)
		// every site found must be matched by a reviewed site that turned away at least as much: the
		// kinds the reviewed site excluded are still excluded (a site reached under fewer
		// exclusions rejects tokens that used to be accepted)
		used := make([]bool, len(w))
		var bad []string
		for _, g := range got {
			ok := false
			for i, x := range w {
				if used[i] {
					continue
				}
				if kindsSubset(x, g) {
					used[i], ok = true, true
					break
				}
			}
			if !ok {
				bad = append(bad, "["+g+"]")
			}
		}
		c.Check(len(bad) == 0, "rejection-kinds["+tmpl+"]", "-", "raised for the reviewed token kinds", fmt.Sprintf("the message %q is now raised where the token at hand is none of %v; reviewed: %v — a kind that used to be accepted there is turned away", tmpl, bad, w))
	}
	// the same for the other facts known at each reviewed message (multiset inclusion, site by site)
	for tmpl, want := range cat.Guards {
		got := append([]string{}, guardsSeen[tmpl]...)
		if len(got) == 0 {
			continue
		}
		used := make([]bool, len(want))
		var bad []string
		at := "-"
		for k, g := range got {
			ok := false
			for i, x := range want {
				if !used[i] && multisetSubset(x, g) {
					used[i], ok = true, true
					break
				}
			}
			if !ok {
				bad = append(bad, "["+g+"]")
				at = guardPos[tmpl][k]
			}
		}
		c.Check(len(bad) == 0, "rejection-guards["+tmpl+"]", at, "raised under the reviewed facts", fmt.Sprintf("the message %q is now raised where only %v is known; reviewed: %v — the rejection is reached for inputs that used to pass it (a test was widened, or a second reason was joined to it)", tmpl, bad, want))
	}
	if os.Getenv("PSLINT_GEN_REJECTIONS") != "" {
		out, _ := json.MarshalIndent(map[string]interface{}{"comment": "reviewed rejection messages of lexer, parser and emitter (message template -> number of sites); generated once from the reviewed tree with PSLINT_GEN_REJECTIONS=<file> pslint -prop C18, extended only after review", "messages": seen, "kinds": cat.Kinds, "kinds_seen": sigs, "guards": cat.Guards, "guards_seen": guardsSeen}, "", " ")
		os.WriteFile(os.Getenv("PSLINT_GEN_REJECTIONS"), out, 0o644)
	}
	c.Check(n >= 60, "rejection-sites", "-", fmt.Sprintf("%d rejection sites with %d distinct messages", n, len(seen)), fmt.Sprintf("only %d rejection sites found", n))
}

// guardClass abstracts a must-literal into the kind of fact it states: EMPTY / NONEMPTY (a length
// compared with zero, a Builder's Len, a string compared with ""), HIT / MISS (a map lookup),
// ON:<field> / OFF:<field> (a boolean option of the parser). Everything else — token kinds (the
// "kinds" clause), error and nil tests, loop bounds — gives "".
var (
	gNonEmptyRe  = regexp.MustCompile(`^([-+])\(0 < builtin:len\(.*\)\)$`)
	gLenZeroRe   = regexp.MustCompile(`^([-+])\(\(\*strings\.Builder\)\.Len\(.*\)(@\d+)? == 0\)$`)
	gStrEmptyRe  = regexp.MustCompile(`^([-+])\(.* == ""\)$`)
	gLookupRe    = regexp.MustCompile(`^([-+])(?:\(\*[\w.]+\)\.)?[^( ][^ ]*\[.*\](#1)?$`)
	gLoopBoundRe = regexp.MustCompile(`^[-+]\(phi\([^)]*\)(#\d+)?(\+1)? < builtin:len\(`)
	gOptionRe    = regexp.MustCompile(`^([-+])\$0\.([A-Za-z]\w*)$`)
)

func guardClass(l string) string {
	if gLoopBoundRe.MatchString(l) || strings.HasPrefix(l[1:], "assert<") {
		return ""
	}
	pick := func(m []string, pos, neg string) string {
		if m[1] == "+" {
			return pos
		}
		return neg
	}
	if m := gNonEmptyRe.FindStringSubmatch(l); m != nil {
		return pick(m, "NONEMPTY", "EMPTY")
	}
	if m := gLenZeroRe.FindStringSubmatch(l); m != nil {
		return pick(m, "EMPTY", "NONEMPTY")
	}
	if m := gStrEmptyRe.FindStringSubmatch(l); m != nil {
		return pick(m, "EMPTY", "NONEMPTY")
	}
	if m := gOptionRe.FindStringSubmatch(l); m != nil {
		return pick(m, "ON:", "OFF:") + m[2]
	}
	if m := gLookupRe.FindStringSubmatch(l); m != nil {
		return pick(m, "HIT", "MISS")
	}
	return ""
}

var notKindRe = regexp.MustCompile(`^-\((?:mu\(b\d+,)?\$0\.(cur|peek\d?)Token\)?\.Type == "([^"]*)"\)$`)

// kindsSubset: every kind named in a is named in b.
func kindsSubset(a, b string) bool {
	if a == "" {
		return true
	}
	in := map[string]bool{}
	for _, k := range strings.Split(b, ",") {
		in[k] = true
	}
	for _, k := range strings.Split(a, ",") {
		if !in[k] {
			return false
		}
	}
	return true
}

// multisetSubset: the comma-separated multiset a is contained in b.
func multisetSubset(a, b string) bool {
	if a == "" {
		return true
	}
	have := map[string]int{}
	for _, k := range strings.Split(b, ",") {
		have[k]++
	}
	for _, k := range strings.Split(a, ",") {
		if have[k] == 0 {
			return false
		}
		have[k]--
	}
	return true
}
