package main

// C19 — tokenisation ignores layout and comments and reports true positions.

import (
	"go/types"
	gotoken "go/token"
	"fmt"
	"regexp"
	"sort"
	"strconv"
	"strings"
	"unicode"

	"golang.org/x/tools/go/ssa"
)

func init() {
	property("C19",
		"Static conformance of the lexer's position bookkeeping and tables: (a) width-fact typestate over every token construction site — a start/end column may be derived as 'counter - k' only where the last k characters are known to be one byte wide (ASCII case arms, peeked ASCII second characters); after a reader loop the current character is a lookahead of unknown width (possibly none at end of input), so the prev* counters must be used; byte counters go to byte fields and character counters to character fields; start fields are read before the token's first character is consumed; (b) readChar restarts the four column counters and increments the line exactly when the previous character was a newline; end of input is readPosition >= len(input) in readChar and peekChar alike, and readChar is the only function that stores the position, line and column counters; (c) on every non-queued path whitespace {space, tab, LF, CR} and '#' / '//' comments are skipped before the dispatch; (d) the keyword table equals the README keyword list; plus the token-origin clauses of C16.c and the lexer start state / -lm wiring of C17.f. NOT decided: layout invariance of the token sequence itself (runtime string scanning; false by design where an identifier touches a quote or a comment separates adjacent strings). Every counter store of readChar is a row of the position model under exactly its effective condition (C19.b); token literals are built from source text (C19.f); positions are data outside the lexer (C16.d). NextToken enters its word arm exactly for a letter and its number arm for a digit or a minus before a digit (C19.g); only the five fields the input is read through may decide anything in the lexer (C19.b); the input is cut at positions the lexer stood at and a constant prefix spells characters that were tested (C19.f).",
		[]string{"unicode.IsLetter / IsDigit / utf8.DecodeRuneInString behave as documented", "go/ssa lowering is faithful to the source"},
		"C19.a", "C19.b", "C19.c", "C19.d", "C19.e", "C16.a", "C16.c", "C17.f", "C19.f", "C16.d", "C19.g", "C18.m", "C18.d", "C18.n")

	register(&Rule{ID: "C19.a", Doc: "width-fact typestate over token construction sites", Floor: 66, Run: c19a})
	register(&Rule{ID: "C19.b", Doc: "readChar line/column reset; end-of-input test shared by readChar and peekChar", Floor: 15, Run: c19b})
	register(&Rule{ID: "C19.c", Doc: "whitespace and comments skipped before dispatch; whitespace and comment opener sets", Floor: 4, Run: c19c})
	register(&Rule{ID: "C19.e", Doc: "character classes of the lexer: isLetter = Unicode letters and '_', isHexDigit = [0-9a-fA-F] (evaluated from their definitions over U+0000..U+2FFFF)", Floor: 2, Run: c19e})
	register(&Rule{ID: "C19.d", Doc: "keyword table equals the documented keyword list", Floor: 30, Run: c19d})
}

var counterRe = regexp.MustCompile(`^\$0\.(charNumber|utf8CharNumber|prevCharNumber|prevUtf8CharNumber|lineNumber)(![A-Za-z0-9@_]+)?(-(\d+))?$`)

type counterUse struct {
	fam string // char, utf8, prevchar, prevutf8, line
	tag string // version tag ("" = function entry)
	sub int
	ok  bool
}

func parseCounter(t string) counterUse {
	m := counterRe.FindStringSubmatch(t)
	if m == nil {
		return counterUse{}
	}
	fam := map[string]string{"charNumber": "char", "utf8CharNumber": "utf8", "prevCharNumber": "prevchar", "prevUtf8CharNumber": "prevutf8", "lineNumber": "line"}[m[1]]
	sub := 0
	if m[4] != "" {
		fmt.Sscan(m[4], &sub)
	}
	return counterUse{fam: fam, tag: strings.TrimPrefix(m[2], "!"), sub: sub, ok: true}
}

func c19a(c *Ctx) {
	// state versions left by lexer helpers that end by reading a character (a string part read
	// by `readStringPart(&sb)` leaves the counters as the readChar of the closing quote did)
	consumerTag := func(tag string) bool { return false }
	if rcFn := c.Fn("lexer.Lexer.readChar"); rcFn != nil {
		names := map[string]bool{}
		for f := range lexerMustConsume(c, rcFn) {
			names[f.Name()] = true
		}
		consumerTag = func(tag string) bool {
			if !strings.HasPrefix(tag, "c") {
				return false
			}
			n := tag[1:]
			if i := strings.Index(n, "@"); i >= 0 {
				n = n[:i]
			}
			return names[n]
		}
	}
	fn := c.Fn("lexer.Lexer.NextToken")
	rst := c.Fn("lexer.Lexer.readStringToken")
	rs := c.Fn("lexer.Lexer.readString")
	if fn == nil || rst == nil || rs == nil {
		return
	}
	// A. the single-character token constructor: the counters are handed in, or read from the
	// lexer by a method — start = counter-1, end = counter, one line
	var nsc *ssa.Function
	nscFields := false
	{
		templ := func(g *ssa.Function) (ok, fields bool, why string) {
			var f map[string]string
			rets := returnsOf(g)
			if len(rets) != 1 || len(rets[0].Results) != 1 || !typeIs(rets[0].Results[0].Type(), "token", "Token") {
				return false, false, "not a single-return token constructor"
			}
			_, f = c.withFields(g, c.term(g, rets[0].Results[0]))
			if f == nil {
				return false, false, "cannot read the token built"
			}
			wantP := map[string]string{"Type": "$0", "LineNumber": "$2", "EndLineNumber": "$2", "StartCharIndex": "$3-1", "StartUtf8CharIndex": "$4-1", "EndCharIndex": "$3", "EndUtf8CharIndex": "$4"}
			wantF := map[string]string{"Type": "$1", "Literal": "conv<string>($0.ch)", "LineNumber": "$0.lineNumber", "EndLineNumber": "$0.lineNumber", "StartCharIndex": "$0.charNumber-1", "StartUtf8CharIndex": "$0.utf8CharNumber-1", "EndCharIndex": "$0.charNumber", "EndUtf8CharIndex": "$0.utf8CharNumber"}
			for _, form := range []map[string]string{wantP, wantF} {
				okF := true
				for k, w := range form {
					if f[k] != w {
						okF = false
						why = fmt.Sprintf("%s sets %s = %s, expected %s", g.Name(), k, f[k], w)
					}
				}
				if okF {
					return true, len(form) == len(wantF), ""
				}
			}
			return false, false, why
		}
		why := "no single-character token constructor found"
		if g := c.W.Func("lexer", "newSingleCharToken"); g != nil {
			ok, fields, w := templ(g)
			nsc, nscFields, why = g, fields, w
			c.Check(ok, "newSingleCharToken/template", c.W.FuncPos(g), "single-char token: start = counter-1, end = counter, one line", why)
		} else {
			// renamed, or turned into a method: the function NextToken's ASCII arms build their token with
			count := map[*ssa.Function]int{}
			for _, ci := range callsIn(fn) {
				if g := callee(ci); g != nil && c.W.InRepo(g) && g.Signature.Results().Len() == 1 && typeIs(g.Signature.Results().At(0).Type(), "token", "Token") && len(g.Blocks) == 1 {
					count[g]++
				}
			}
			for g, n := range count {
				if nsc == nil || n > count[nsc] || (n == count[nsc] && g.Name() < nsc.Name()) {
					nsc = g
				}
			}
			if nsc == nil {
				c.Unk("anchor:lexer.newSingleCharToken", "-", "anchored function lexer.newSingleCharToken not found (renamed or removed); the rule cannot be evaluated")
				return
			}
			ok, fields, w := templ(nsc)
			nscFields = fields
			c.Check(ok, "newSingleCharToken/template", c.W.FuncPos(nsc), "single-char token: start = counter-1, end = counter, one line", w)
		}
	}
	// dispatch block: exit of the comment loop
	var dispatch *ssa.BasicBlock
	for _, b := range fn.Blocks {
		if isLoopHeader(b) {
			for x := range loopBody(b) {
				for _, s := range x.Succs {
					if !loopBody(b)[s] {
						dispatch = s
					}
				}
			}
			break
		}
	}
	if dispatch == nil {
		c.Unk("NextToken/dispatch", c.W.FuncPos(fn), "cannot find the dispatch point after the comment loop")
		return
	}
	// a position is written where the token is known: after white space and comments have been
	// skipped. A position stored into NextToken's own token before the dispatch point (one
	// LineNumber store hoisted in front of the comment loop) is the position of whatever came
	// before the token
	{
		k := 0
		instrs(fn, func(in ssa.Instruction) {
			st, ok := in.(*ssa.Store)
			if !ok {
				return
			}
			base, t, f, ok := fieldAddrOf(st.Addr)
			if !ok || !typeIs(t, "token", "Token") || !(strings.HasSuffix(f, "CharIndex") || strings.HasSuffix(f, "LineNumber")) {
				return
			}
			if _, own := base.(*ssa.Alloc); !own {
				return
			}
			if st.Block() == dispatch || dispatch.Dominates(st.Block()) {
				return
			}
			k++
			c.Bad(fmt.Sprintf("NextToken/position-before-dispatch/%s#%d", f, k), c.W.Pos(st.Pos()), "NextToken stores "+f+" before white space and comments are skipped: the token would carry the position of what precedes it (the line of a comment, say)")
		})
	}
	// the value the dispatch compares
	chT := ""
	for _, in := range dispatch.Instrs {
		if bo, ok := in.(*ssa.BinOp); ok {
			chT = c.term(fn, bo.X)
		}
	}
	v0 := ""
	if i := strings.Index(chT, "!"); i >= 0 {
		v0 = chT[i+1:]
	}
	isReader := func(n string) bool {
		return n == "readNumber" || n == "readHexNumber" || n == "readIdentifier" || n == "readRaw" || n == "readString" || n == "readStringToken"
	}
	// armEnv: where token construction sites are judged — NextToken after its dispatch, or a
	// helper that NextToken calls, before anything is consumed, to build the token of an arm
	type armEnv struct {
		f      *ssa.Function
		prefix string
		v0     string // version of the counters when nothing of the token is consumed yet
		inArm  func(b *ssa.BasicBlock) bool
		armOf  func(b *ssa.BasicBlock) (int64, bool)
		chT    string
		// the caller had already peeked an ASCII character when it entered this helper
		peekedAtEntry bool
	}
	callsBefore := func(e armEnv, at ssa.Instruction) []string {
		var out []string
		for _, ci := range callsIn(e.f) {
			in := ci.(ssa.Instruction)
			if !e.inArm(in.Block()) || !instrDominates(in, at) {
				continue
			}
			f := callee(ci)
			if f == nil || !c.W.InRepo(f) || f == nsc {
				continue
			}
			if c.T(e.f).purity(f) >= purReadOnly {
				continue // classifiers / look-ahead: consume nothing
			}
			out = append(out, f.Name())
		}
		return out
	}
	peekedASCII := func(e armEnv, b *ssa.BasicBlock) bool {
		if e.peekedAtEntry {
			return true
		}
		arm, hasArm := e.armOf(b)
		for _, l := range c.mustLits(e.f, b) {
			// the peeked character equals the current one, which the arm knows to be ASCII
			if hasArm && arm > 0 && arm < 128 && strings.HasPrefix(l, "+(") && strings.HasSuffix(l, ")") {
				if ps := strings.Split(l[2:len(l)-1], " == "); len(ps) == 2 {
					for i := range ps {
						if ps[i] == e.chT && strings.HasPrefix(ps[1-i], "(*lexer.Lexer).peekChar($0)@") && !strings.Contains(ps[1-i], " ") {
							return true
						}
					}
				}
			}
			if strings.HasPrefix(l, "+((*lexer.Lexer).peekChar($0)@") {
				var n int64
				i := strings.LastIndex(l, " == ")
				fmt.Sscan(strings.TrimSuffix(l[i+4:], ")"), &n)
				if n > 0 && n < 128 {
					return true
				}
			}
		}
		return false
	}
	ver := func(e armEnv, field string) string {
		if e.v0 == "" {
			return field
		}
		return field + "!" + e.v0
	}
	nCalls, nStores := 0, 0
	var judge func(e armEnv, depth int)
	var judgeField func(e armEnv, f, vt string, at ssa.Instruction, via string)
	judge = func(e armEnv, depth int) {
		fn := e.f
		// B. single-character constructor call sites
		for _, call := range callsToIn(fn, nsc) {
			if !e.inArm(call.Block()) {
				continue
			}
			nCalls++
			a := call.Common().Args
			arm, hasArm := e.armOf(call.Block())
			key := fmt.Sprintf("%s/single-char[%s]", e.prefix, armName(arm, hasArm))
			pos := c.W.Pos(call.Pos())
			ok := len(callsBefore(e, call.(ssa.Instruction))) == 0
			if nscFields {
				ok = ok && c.term(fn, a[0]) == "$0"
			} else {
				ok = ok && c.term(fn, a[1]) == e.chT && c.term(fn, a[2]) == ver(e, "$0.lineNumber") && c.term(fn, a[3]) == ver(e, "$0.charNumber") && c.term(fn, a[4]) == ver(e, "$0.utf8CharNumber")
			}
			c.Check(ok, key+"/current-position", pos, "built from the current character and counters before anything is consumed", "single-char token is not built from (l.ch, l.lineNumber, l.charNumber, l.utf8CharNumber) as they are at dispatch")
			if hasArm && arm > 0 && arm < 128 {
				c.OK(key+"/width", pos, "ASCII arm: the character is one byte wide")
				continue
			}
			// arbitrary character: byte start must be overridden with the previous position
			fixed := false
			for _, in := range call.Block().Instrs {
				if st, isSt := in.(*ssa.Store); isSt {
					if _, _, f, isF := fieldAddrOf(st.Addr); isF && f == "StartCharIndex" && c.term(fn, st.Val) == ver(e, "$0.prevCharNumber") && instrDominates(call.(ssa.Instruction), st) {
						fixed = true
					}
				}
			}
			c.Check(fixed, key+"/width", pos, "arbitrary character: byte start taken from the previous position", "a single-char token is built with start = charNumber-1 for a character whose width is not known to be 1 (multi-byte illegal characters get a wrong byte column)")
		}
		// C. helpers that build the token of an arm: judged with the arm's width fact
		if depth == 0 {
			for _, ci := range callsIn(fn) {
				g := callee(ci)
				in := ci.(ssa.Instruction)
				if g == nil || g == nsc || g == rst || !e.inArm(in.Block()) || !c.W.InRepo(g) || len(g.Blocks) == 0 || isReader(g.Name()) {
					continue
				}
				res := g.Signature.Results()
				if res.Len() != 1 || !typeIs(res.At(0).Type(), "token", "Token") {
					continue
				}
				if g.Signature.Recv() == nil {
					// a plain function that is handed counters and returns a token: its columns are
					// whatever the caller computed; the typestate does not follow them through the
					// parameters, so such a constructor (other than the single-character one, whose
					// call sites clause B judges) is reported as undecided rather than passed over
					// a plain constructor (newTwoCharToken(typ, a, b, line, char, utf8)): the fields of
					// the token it returns are terms over its parameters; rewritten into the caller's
					// terms at this call they are judged like stores made here
					var fl map[string]string
					if rets := returnsOf(g); len(rets) == 1 && len(rets[0].Results) == 1 {
						_, fl = c.withFields(g, c.term(g, rets[0].Results[0]))
					}
					if fl == nil || len(g.Blocks) != 1 {
						c.Unk(fmt.Sprintf("%s/helper[%s]/plain-constructor", e.prefix, g.Name()), c.W.Pos(ci.Pos()), "the token of this arm is built by the plain function "+g.Name()+", whose result cannot be read as a single token literal over its parameters: its positions are not judged")
						continue
					}
					for _, f := range []string{"LineNumber", "EndLineNumber", "StartCharIndex", "StartUtf8CharIndex", "EndCharIndex", "EndUtf8CharIndex"} {
						ft, has := fl[f]
						if !has || ft == "" || ft == "zero" {
							c.Bad(fmt.Sprintf("%s/%s.%s", e.prefix, g.Name(), f), c.W.Pos(ci.Pos()), "the token built by "+g.Name()+" has no "+f)
							continue
						}
						nStores++
						judgeField(e, f, c.substParams(fn, ci, ft), in, g.Name()+".")
					}
					continue
				}
				key := fmt.Sprintf("%s/helper[%s]", e.prefix, g.Name())
				pos := c.W.Pos(ci.Pos())
				if len(callsBefore(e, in)) != 0 || c.term(fn, ci.Common().Args[0]) != "$0" {
					c.Bad(key+"/entered-unconsumed", pos, "the token of this arm is built by "+g.Name()+" after part of it was consumed: the helper's columns cannot be related to the arm's first character")
					continue
				}
				arm, hasArm := e.armOf(in.Block())
				judge(armEnv{
					f:      g,
					prefix: fmt.Sprintf("%s/%s[%s]", e.prefix, g.Name(), armName(arm, hasArm)),
					v0:     "",
					inArm:  func(*ssa.BasicBlock) bool { return true },
					armOf:  func(*ssa.BasicBlock) (int64, bool) { return arm, hasArm },
					chT:    "$0.ch",

					peekedAtEntry: peekedASCII(e, in.Block()),
				}, depth+1)
			}
		}
		// D. field stores into the token variable
		instrs(fn, func(in ssa.Instruction) {
			st, ok := in.(*ssa.Store)
			if !ok {
				return
			}
			base, t, f, ok := fieldAddrOf(st.Addr)
			if !ok || !typeIs(t, "token", "Token") {
				return
			}
			if _, isAlloc := base.(*ssa.Alloc); !isAlloc {
				return
			}
			if !strings.HasSuffix(f, "CharIndex") && !strings.HasSuffix(f, "LineNumber") {
				return
			}
			if !e.inArm(st.Block()) {
				return
			}
			nStores++
			judgeField(e, f, c.term(fn, st.Val), st, "")
		})
	}
	// judgeField: one position field of a token under construction is given the value vt (a term
	// of e.f) at instruction `at` — by a store, or by a plain constructor called there
	judgeField = func(e armEnv, f, vt string, at ssa.Instruction, via string) {
		{
			st := at
			cu := parseCounter(vt)
			arm, hasArm := e.armOf(st.Block())
			key := fmt.Sprintf("%s/%s%s[%s]", e.prefix, via, f, armName(arm, hasArm))
			pos := c.W.Pos(st.Pos())
			if !cu.ok {
				c.Bad(key, pos, f+" is set to "+pretty(vt)+", which is not one of the lexer's position counters")
				return
			}
			calls := callsBefore(e, st)
			// calls that happened before the value was read: decided by the version tag
			readerBefore := false
			for _, n := range calls {
				if isReader(n) && strings.Contains(cu.tag, "c"+n+"@") {
					readerBefore = true
				}
			}
			atV0 := cu.tag == e.v0
			afterOneRead := strings.HasPrefix(cu.tag, "creadChar@")
			byteField := f == "StartCharIndex" || f == "EndCharIndex"
			charField := f == "StartUtf8CharIndex" || f == "EndUtf8CharIndex"
			switch {
			case strings.HasSuffix(f, "LineNumber"):
				c.Check(cu.fam == "line" && (f == "EndLineNumber" || atV0 || afterOneRead), key, pos, "line taken from the line counter", f+" is "+pretty(vt)+", expected the line counter (start line read before the token is consumed)")
				return
			case byteField && cu.fam != "char" && cu.fam != "prevchar":
				c.Bad(key, pos, f+" (a byte column) is set from "+pretty(vt)+", which counts characters")
				return
			case charField && cu.fam != "utf8" && cu.fam != "prevutf8":
				c.Bad(key, pos, f+" (a character column) is set from "+pretty(vt)+", which counts bytes")
				return
			}
			isStart := strings.HasPrefix(f, "Start")
			switch {
			case isStart && (cu.fam == "prevchar" || cu.fam == "prevutf8"):
				c.Check(atV0 && cu.sub == 0, key, pos, "start = position before the current character, read before consuming it", "start column "+pretty(vt)+" is read after part of the token was consumed")
			case isStart && atV0 && cu.sub == 1:
				okW := hasArm && arm > 0 && (arm < 128 || cu.fam == "utf8")
				c.Check(okW, key, pos, "start = counter-1 for a character known to be one unit wide", "start column "+pretty(vt)+" subtracts 1 for a character whose width is not known to be 1")
			case isStart && atV0 && cu.sub == 0:
				c.Check(hasArm && arm == 0, key, pos, "end-of-input token starts at the counter", "start column "+pretty(vt)+" equals the counter although a character is being consumed")
			case isStart && afterOneRead && cu.sub == 2:
				okW := hasArm && arm > 0 && arm < 128 && peekedASCII(e, st.Block()) && len(calls) == 1
				c.Check(okW, key, pos, "two-character token: both characters are ASCII (case arm + peeked character), one readChar in between", "start column "+pretty(vt)+" subtracts 2 without both characters being known ASCII and exactly one readChar")
			case isStart:
				c.Bad(key, pos, "start column "+pretty(vt)+" is not read at the token's first character")
			case !isStart && (cu.fam == "prevchar" || cu.fam == "prevutf8"):
				c.Check(cu.sub == 0 && !atV0, key, pos, "end = position before the lookahead character", "end column "+pretty(vt)+" is read before the token was consumed / has an offset")
			case !isStart && readerBefore:
				raw := hasArm && arm == 96
				c.Check(raw, key, pos, "raw string: end is the counter after the closing backtick (excluded from the end-column clause)", "end column "+pretty(vt)+" is derived from the current-character counter after a reader loop: the current character is a lookahead of unknown width (none at end of input, several bytes for non-ASCII), use the prev* counters")
			case !isStart && afterOneRead && cu.sub == 0:
				c.Check(hasArm && arm > 0 && arm < 128 && peekedASCII(e, st.Block()), key, pos, "two-character token ends at the counter", "end column "+pretty(vt)+" for a two-character token whose characters are not known ASCII")
			case !isStart && atV0 && cu.sub == 0:
				c.Check(hasArm && arm == 0, key, pos, "end-of-input token ends at the counter", "end column "+pretty(vt)+" is read before the token is consumed")
			default:
				c.Bad(key, pos, "end column "+pretty(vt)+" does not follow the position algebra")
			}
		}
	}
	judge(armEnv{
		f:      fn,
		prefix: "NextToken",
		v0:     v0,
		inArm:  func(b *ssa.BasicBlock) bool { return dispatch.Dominates(b) },
		armOf: func(b *ssa.BasicBlock) (int64, bool) {
			for _, l := range c.mustLits(fn, b) {
				if strings.HasPrefix(l, "+("+chT+" == ") {
					var n int64
					fmt.Sscan(strings.TrimSuffix(strings.TrimPrefix(l, "+("+chT+" == "), ")"), &n)
					return n, true
				}
			}
			return 0, false
		},
		chT: chT,
	}, 0)
	// G. positions written through a pointer (a helper that "finishes" a token it is handed): the
	// typestate does not follow the token into the helper, but what is stored must still be one
	// of the lexer's counters of the right kind — byte columns from the byte counters, character
	// columns from the character counters, ends from the prev* counters after the token was
	// read — never something computed from the literal's length (bytes are not characters)
	for _, hf := range c.W.FuncsOf("lexer") {
		if isTestFunc(c.W, hf) {
			continue
		}
		nPtr := 0
		instrs(hf, func(in ssa.Instruction) {
			st, ok := in.(*ssa.Store)
			if !ok {
				return
			}
			base, t, f, ok := fieldAddrOf(st.Addr)
			if !ok || !typeIs(t, "token", "Token") {
				return
			}
			// (a parameter, or the token of the enclosing function captured by a function literal)
			isPtr := false
			switch b := base.(type) {
			case *ssa.Parameter:
				isPtr = true
			case *ssa.FreeVar:
				isPtr = true
			case *ssa.UnOp:
				_, isFV := b.X.(*ssa.FreeVar)
				isPtr = isFV
			}
			if !isPtr {
				return
			}
			if !strings.HasSuffix(f, "CharIndex") && !strings.HasSuffix(f, "LineNumber") {
				return
			}
			nPtr++
			vt := c.term(hf, st.Val)
			cu := parseCounter(vt)
			key := fmt.Sprintf("%s/through-pointer/%s#%d", hf.Name(), f, nPtr)
			okFam := cu.ok
			if cu.ok {
				switch {
				case strings.HasSuffix(f, "LineNumber"):
					okFam = cu.fam == "line"
				case f == "StartCharIndex":
					okFam = cu.fam == "char" || cu.fam == "prevchar"
				case f == "StartUtf8CharIndex":
					okFam = cu.fam == "utf8" || cu.fam == "prevutf8"
				case f == "EndCharIndex":
					okFam = cu.fam == "prevchar" || cu.fam == "char"
				case f == "EndUtf8CharIndex":
					okFam = cu.fam == "prevutf8" || cu.fam == "utf8"
				}
				// where the typestate cannot follow, no width may be assumed: `counter - k` is the
				// column of an earlier character only if the characters in between are one byte
				// wide, which is known at the sites of NextToken and not in a helper
				if cu.sub != 0 {
					okFam = false
				}
			}
			c.Check(okFam, key, c.W.Pos(st.Pos()), "a position stored through a token pointer is a lexer counter of the field's kind", hf.Name()+" sets "+f+" of the token it is handed to "+pretty(vt)+", which is not a position counter of that kind (a column computed from the literal's length counts bytes, and is wrong for characters of more than one byte)")
		})
	}
	c.Check(nCalls >= 10 && nStores >= 40, "NextToken/sites", c.W.FuncPos(fn), fmt.Sprintf("%d single-char sites, %d position stores", nCalls, nStores), fmt.Sprintf("found %d single-char sites and %d position stores; 16 and 60 were confirmed by hand", nCalls, nStores))
	// E. readStringToken: start at the opening quote
	{
		var f map[string]string
		var tokV ssa.Value
		var tokRet *ssa.Return
		for _, r := range returnsOf(rst) {
			_, f = c.withFields(rst, c.term(rst, r.Results[0]))
			tokV, tokRet = r.Results[0], r
		}
		okStart := f != nil && f["StartCharIndex"] == "$0.prevCharNumber" && f["StartUtf8CharIndex"] == "$0.prevUtf8CharNumber" && f["LineNumber"] == "$0.lineNumber"
		// F. the end fields, wherever they travel (several results, a record, locals): each is the
		// counter of its kind — line / previous byte column / previous character column — read in
		// readString right after a character (the closing quote) was consumed, or the 0 the
		// variables start with; the literal is readString's text
		okEnd := tokV != nil
		why := ""
		if tokV != nil {
			for field, fam := range map[string]string{"EndLineNumber": "line", "EndCharIndex": "prevchar", "EndUtf8CharIndex": "prevutf8"} {
				var fv ssa.Value
				if ld, isLd := tokV.(*ssa.UnOp); isLd {
					if al, isA := ld.X.(*ssa.Alloc); isA {
						fv = fieldValue(al, field, tokRet)
					}
				}
				if fv == nil {
					okEnd, why = false, "cannot read "+field+" of the returned token"
					continue
				}
				found := false
				for _, lf := range c.originLeaves(rst, fv) {
					if k, isC := intConst(lf.v); isC && k == 0 {
						continue
					}
					if lf.fn != rs {
						okEnd, why = false, field+" is "+pretty(c.term(lf.fn, lf.v))+" of "+lf.fn.Name()+", expected a counter read in readString"
						continue
					}
					cu := parseCounter(c.term(rs, lf.v))
					if cu.ok && cu.fam == fam && (strings.HasPrefix(cu.tag, "creadChar@") || consumerTag(cu.tag)) {
						found = true
					} else {
						okEnd, why = false, field+" comes from "+pretty(c.term(rs, lf.v))+", expected the "+fam+" counter read after the closing quote was consumed"
					}
				}
				if !found {
					okEnd = false
					if why == "" {
						why = field + " never receives a counter of readString"
					}
				}
			}
		}
		// (one way out: the positions judged above are those of the one return; a second return
		// would hand back a token whose fields nobody looked at)
		c.Check(len(returnsOf(rst)) == 1, "readStringToken/one-return", c.W.FuncPos(rst), "readStringToken has one return", fmt.Sprintf("readStringToken has %d returns; the position clauses judge one: a token returned early (for an empty string, say) carries positions no rule has read", len(returnsOf(rst))))
		c.Check(okStart, "readStringToken/positions", c.W.FuncPos(rst), "string token starts at the position before the opening quote", "readStringToken does not take (start byte, start char, line) from (prevCharNumber, prevUtf8CharNumber, lineNumber) at entry")
		c.Check(okEnd, "readString/end-positions", c.W.FuncPos(rs), "end = (line, prevCharNumber, prevUtf8CharNumber) right after consuming the closing quote, in the fields of their kind", "the end position of a string token is wrong: "+why)
		// called when the current character is the quote
		n := 0
		for _, call := range callsToIn(fn, rst) {
			n++
			must := c.mustLits(fn, call.Block())
			okQ := false
			for _, l := range must {
				if strings.HasPrefix(l, "+($0.ch!") && strings.HasSuffix(l, " == 34)") {
					okQ = true
				}
			}
			c.Check(okQ, fmt.Sprintf("readStringToken/call#%d-at-quote", n), c.W.Pos(call.Pos()), "called with the opening quote as current character", "readStringToken is called when the current character is not known to be '\"'")
		}
	}
}

func armName(n int64, ok bool) string {
	if !ok {
		return "default"
	}
	if n == 0 {
		return "EOF"
	}
	if n < 128 {
		return fmt.Sprintf("%q", rune(n))
	}
	return fmt.Sprintf("U+%04X", n)
}

// c19bTokenCarriesNothingElse: a token is a kind, a text and a position. The kind and the text are
// what C19 says layout must not change; the position is confined by C16.d (it never decides). A
// further field of token.Token would be a way for the lexer to tell the parser how the source was
// laid out (a "first token on its line" flag) that none of those rules follows: every access to
// a field of a token, in every package, is to one of the eight reviewed fields.
func c19bTokenCarriesNothingElse(c *Ctx) {
	allowed := map[string]bool{"Type": true, "Literal": true, "LineNumber": true, "EndLineNumber": true, "StartCharIndex": true, "EndCharIndex": true, "StartUtf8CharIndex": true, "EndUtf8CharIndex": true}
	n := 0
	bad := map[string]string{}
	for _, f := range c.W.Funcs {
		if isTestFunc(c.W, f) || len(f.Blocks) == 0 {
			continue
		}
		instrs(f, func(in ssa.Instruction) {
			var t types.Type
			idx := -1
			switch x := in.(type) {
			case *ssa.FieldAddr:
				t, idx = deref(x.X.Type()), x.Field
			case *ssa.Field:
				t, idx = x.X.Type(), x.Field
			default:
				return
			}
			if !typeIs(t, "token", "Token") {
				return
			}
			n++
			st, ok := t.Underlying().(*types.Struct)
			if !ok || idx >= st.NumFields() {
				return
			}
			name := st.Field(idx).Name()
			if !allowed[name] {
				if _, seen := bad[name+"@"+f.Name()]; !seen {
					bad[name+"@"+f.Name()] = c.W.Pos(in.Pos())
				}
			}
		})
	}
	var keys []string
	for k := range bad {
		keys = append(keys, k)
	}
	sort.Strings(keys)
	for _, k := range keys {
		parts := strings.SplitN(k, "@", 2)
		c.Bad("token-carries-kind-text-position-only/"+k, bad[k], parts[1]+" accesses Token."+parts[0]+", which is neither the kind, the text nor a position of the token: what the lexer puts there can depend on how the source is laid out, and no rule follows it into the parser")
	}
	c.Check(n >= 100, "token-carries-kind-text-position-only/scanned", "-", fmt.Sprintf("%d accesses to token fields, all to the eight reviewed fields", n), fmt.Sprintf("only %d accesses to token fields found", n))
}

func c19b(c *Ctx) {
	c19bTokenCarriesNothingElse(c)
	fn := c.Fn("lexer.Lexer.readChar")
	pk := c.Fn("lexer.Lexer.peekChar")
	if fn == nil || pk == nil {
		return
	}
	// the counters have one writer: whatever else moves through the input does so by calling
	// readChar (a shortcut that sets the counters itself has to re-derive lines and columns, and
	// sees line breaks differently from readChar sooner or later)
	{
		counters := map[string]bool{"ch": true, "position": true, "readPosition": true, "lineNumber": true, "charNumber": true, "utf8CharNumber": true, "prevCharNumber": true, "prevUtf8CharNumber": true}
		var bad []string
		for _, f := range c.W.FuncsOf("lexer") {
			if f == fn || isTestFunc(c.W, f) {
				continue
			}
			instrs(f, func(in ssa.Instruction) {
				st, ok := in.(*ssa.Store)
				if !ok {
					return
				}
				if _, t, fld, ok := fieldAddrOf(st.Addr); ok && typeIs(t, "lexer", "Lexer") && counters[fld] {
					if _, fresh := rootValue(st.Addr).(*ssa.Alloc); !fresh { // New initialises a fresh lexer
						bad = append(bad, f.Name()+" sets "+fld+" at "+c.W.Pos(st.Pos()))
					}
				}
			})
		}
		c.Check(len(bad) == 0, "counters/single-writer", c.W.FuncPos(fn), "only readChar moves the lexer's position, line and column counters", "the lexer's counters are also written outside readChar ("+strings.Join(bad, "; ")+"): lines and columns are then counted in two ways")
	}
	type row struct{ field, value, guard, label string }
	sizePhi := ""
	var sizeV ssa.Value
	for _, st := range storesToField(fn, "lexer", "Lexer", "readPosition") {
		if bo, ok := st.Val.(*ssa.BinOp); ok {
			sizeV = bo.Y
			if strings.HasPrefix(c.term(fn, bo.Y), "$0.readPosition") {
				sizeV = bo.X
			}
		}
		v := c.term(fn, st.Val)
		if i := strings.Index(v, " + "); i > 0 {
			sizePhi = strings.Trim(v[:i], "(")
			if strings.HasPrefix(sizePhi, "$0.readPosition") {
				sizePhi = strings.TrimSuffix(v[i+3:], ")")
			}
		}
	}
	nl := "+($0.ch == 10)"
	rows := []row{
		{"lineNumber", "$0.lineNumber+1", nl, "newline: line+1"},
		{"prevCharNumber", "0", nl, "newline: prev byte column 0"},
		{"prevUtf8CharNumber", "0", nl, "newline: prev char column 0"},
		{"charNumber", sizePhi, nl, "newline: byte column = width of the first character"},
		{"utf8CharNumber", "1", nl, "newline: char column 1"},
		{"prevCharNumber", "$0.charNumber", "", "prev byte column = old byte column"},
		{"prevUtf8CharNumber", "$0.utf8CharNumber", "", "prev char column = old char column"},
		{"position", "$0.readPosition", "", "position = old read position"},
	}
	for _, r := range rows {
		found := false
		for _, st := range storesToField(fn, "lexer", "Lexer", r.field) {
			v := c.term(fn, st.Val)
			must := c.mustLits(fn, st.Block())
			if v != r.value {
				continue
			}
			if r.guard == "" && !hasLit(must, nl) || r.guard != "" && hasLit(must, r.guard) {
				found = true
			}
		}
		c.Check(found, "readChar/"+r.label, c.W.FuncPos(fn), r.label, "readChar has no store "+r.field+" = "+r.value+" ("+r.label+")")
	}
	// advance by the decoded width; char counter +1 iff a character was read
	okAdv, okU := false, false
	for _, st := range storesToField(fn, "lexer", "Lexer", "charNumber") {
		v := c.term(fn, st.Val)
		if !hasLit(c.mustLits(fn, st.Block()), nl) && strings.Contains(v, "$0.charNumber") && strings.Contains(v, sizePhi) {
			okAdv = true
		}
	}
	for _, st := range storesToField(fn, "lexer", "Lexer", "utf8CharNumber") {
		if c.term(fn, st.Val) == "$0.utf8CharNumber+1" && hasLit(c.mustLits(fn, st.Block()), "+(0 < "+sizePhi+")") {
			okU = true
		}
	}
	c.Check(okAdv && okU, "readChar/advance", c.W.FuncPos(fn), "byte column grows by the decoded width, char column by one iff a character was read", "readChar does not advance (charNumber += width, utf8CharNumber++ iff width > 0)")
	// ... and nothing else: every store to a counter in readChar is one of the stores above, under
	// exactly its condition (a line that is also bumped for other characters, a column that is
	// not bumped for some of them, would make positions disagree with the source)
	{
		pc := c.PC(fn)
		var base *dnf
		for _, st := range storesToField(fn, "lexer", "Lexer", "position") {
			d := pc.canonOf(pc.At(st.Block()))
			base = &d
		}
		szLit := "+(0 < " + sizePhi + ")"
		type exp struct{ field, value, class string }
		// classes are about the store that counts: a store whose value a later store of the same
		// call overwrites is effective only where the later one does not run (so "advance, then
		// restart the columns after a line feed" and "after a line feed restart the columns and
		// return, else advance" are the same table)
		table := []exp{
			{"lineNumber", "$0.lineNumber+1", "NL"}, {"prevCharNumber", "0", "NL"}, {"prevUtf8CharNumber", "0", "NL"}, {"charNumber", sizePhi, "NL"}, {"utf8CharNumber", "1", "NL"},
			{"prevCharNumber", "$0.charNumber", "NN"}, {"prevUtf8CharNumber", "$0.utf8CharNumber", "NN"}, {"position", "$0.readPosition", "U"},
			{"utf8CharNumber", "$0.utf8CharNumber+1", "NNSZ"},
		}
		nStores := 0
		for _, fld := range []string{"lineNumber", "charNumber", "utf8CharNumber", "prevCharNumber", "prevUtf8CharNumber", "position", "readPosition"} {
			for i, st := range storesToField(fn, "lexer", "Lexer", fld) {
				nStores++
				v := c.term(fn, st.Val)
				class := ""
				for _, e := range table {
					if e.field == fld && e.value == v {
						class = e.class
					}
				}
				if class == "" && fld == "readPosition" && strings.Contains(v, "$0."+fld) && strings.Contains(v, sizePhi) {
					class = "U"
				}
				if class == "" && fld == "charNumber" && strings.Contains(v, "$0."+fld) && strings.Contains(v, sizePhi) {
					class = "NN"
				}
				key := fmt.Sprintf("readChar/exact/%s#%d", fld, i)
				pos := c.W.Pos(st.Pos())
				if class == "" || base == nil {
					c.Bad(key, pos, "readChar sets "+fld+" = "+pretty(v)+", which is none of the counter updates of the position model (advance by the decoded width; on the character after a line feed: line+1, columns restart)")
					continue
				}
				want := *base
				switch class {
				case "NL":
					want = dnfAndLit(want, nl)
				case "NN":
					want = dnfAndLit(want, negLit(nl))
				case "NNSZ":
					want = dnfAndLit(dnfAndLit(want, negLit(nl)), szLit)
				}
				d := pc.canonOf(pc.At(st.Block()))
				var later []dnf
				for _, st2 := range storesToField(fn, "lexer", "Lexer", fld) {
					if st2 != st && canReach(st, st2) {
						later = append(later, pc.canonOf(pc.At(st2.Block())))
					}
				}
				c.Check(dnfEffEquiv(d, later, want), key, pos, fld+" = "+pretty(v)+" counts exactly "+map[string]string{"U": "on every call", "NL": "when the previous character was a line feed", "NN": "when the previous character was not a line feed", "NNSZ": "when a character was read and the previous one was not a line feed"}[class], "readChar sets "+fld+" = "+pretty(v)+" under "+d.String()+fmt.Sprintf(" (overwritten later under %d other conditions)", len(later))+", expected to be the value that counts exactly under "+want.String())
			}
		}
		c.Check(nStores >= 10, "readChar/exact/stores", c.W.FuncPos(fn), "counter stores of readChar enumerated", fmt.Sprintf("expected at least 10 counter stores in readChar, found %d", nStores))
	}
	// the newline test uses the previous character
	// the width (chosen in place, or by a decoding helper): 0 at end of input, else the decoded size
	const inInput, atEnd = "+($0.readPosition < builtin:len($0.input))", "-($0.readPosition < builtin:len($0.input))"
	const decoded = "unicode/utf8.DecodeRuneInString($0.input[$0.readPosition:])#"
	okWidth, eofRead := sizeV != nil, false
	sawZero := false
	if sizeV != nil {
		for _, a := range c.resultAlts(fn, sizeV) {
			switch {
			case a.term == decoded+"1" && hasLit(a.must, inInput):
				eofRead = true
			case a.term == "0" && hasLit(a.must, atEnd):
				sawZero = true
			default:
				okWidth = false
			}
		}
	}
	c.Check(okWidth && eofRead && sawZero, "readChar/width-is-decoded-size", c.W.FuncPos(fn), "width is 0 at end of input, else the decoded size", "cannot identify the decoded width")
	// the counters are bookkeeping, not input: nowhere in the lexer is a line or column counter
	// compared with anything (a token boundary that depends on the layout — "the next literal is
	// on the same line" — makes the token sequence depend on line breaks)
	{
		// (stated the other way round: the fields a decision may read are the ones the input is
		// read through; the five counters and any field added later — "a line break was skipped"
		// — are not among them)
		inputFields := map[string]bool{"ch": true, "input": true, "position": true, "readPosition": true, "queuedTokens": true}
		counters := map[string]bool{}
		if lt := c.W.NamedType("lexer", "Lexer"); lt != nil {
			if st, ok := lt.Underlying().(*types.Struct); ok {
				for i := 0; i < st.NumFields(); i++ {
					if !inputFields[st.Field(i).Name()] {
						counters[st.Field(i).Name()] = true
					}
				}
			}
		}
		nCmp := 0
		for _, f := range c.W.FuncsOf("lexer") {
			if isTestFunc(c.W, f) {
				continue
			}
			taint := map[ssa.Value]bool{}
			instrs(f, func(in ssa.Instruction) {
				if u, ok := in.(*ssa.UnOp); ok && u.Op == gotoken.MUL {
					if _, t, fl, ok := fieldAddrOf(u.X); ok && typeIs(t, "lexer", "Lexer") && counters[fl] {
						taint[u] = true
					}
				}
			})
			for changed := true; changed; {
				changed = false
				instrs(f, func(in ssa.Instruction) {
					switch x := in.(type) {
					case *ssa.Phi:
						if taint[x] {
							return
						}
						for _, e := range x.Edges {
							if taint[e] {
								taint[x] = true
								changed = true
							}
						}
					case *ssa.UnOp:
						// a local that holds a counter value
						if a, ok := x.X.(*ssa.Alloc); ok && !taint[x] && a.Referrers() != nil {
							for _, r := range *a.Referrers() {
								if st, ok := r.(*ssa.Store); ok && st.Addr == ssa.Value(a) && taint[st.Val] {
									taint[x] = true
									changed = true
								}
							}
						}
					}
				})
			}
			instrs(f, func(in ssa.Instruction) {
				bo, ok := in.(*ssa.BinOp)
				if !ok {
					return
				}
				switch bo.Op {
				case gotoken.EQL, gotoken.NEQ, gotoken.LSS, gotoken.LEQ, gotoken.GTR, gotoken.GEQ:
				default:
					return
				}
				if taint[bo.X] || taint[bo.Y] {
					nCmp++
					c.Bad(fmt.Sprintf("%s/counter-compared#%d", f.Name(), nCmp), c.W.Pos(bo.Pos()), f.Name()+" compares a line / column counter ("+pretty(c.term(f, bo))+"): what the lexer does would depend on where in a line the text stands")
				}
			})
			// a flag kept in the lexer that decides directly
			instrs(f, func(in ssa.Instruction) {
				ifi, ok := in.(*ssa.If)
				if !ok {
					return
				}
				cond := ifi.Cond
				if u, isNot := cond.(*ssa.UnOp); isNot && u.Op == gotoken.NOT {
					cond = u.X
				}
				if taint[cond] {
					nCmp++
					c.Bad(fmt.Sprintf("%s/counter-compared#%d", f.Name(), nCmp), c.W.Pos(ifi.Pos()), f.Name()+" branches on a field of the lexer that is not part of reading the input ("+pretty(c.term(f, cond))+"): what the lexer does would depend on the layout the field remembers")
				}
			})
		}
		c.Check(nCmp == 0, "counters/never-compared", c.W.FuncPos(fn), "no line or column counter is compared anywhere in the lexer", "a position counter decides something in the lexer")
	}
	// the current character is the character that was decoded — as it is: 0 at end of input, else
	// the rune DecodeRuneInString reports (a '\r' turned into '\n' would count lines twice in a
	// CRLF file and change what strings and raw blocks contain)
	{
		okCh, nCh := true, 0
		whyCh := ""
		for _, st := range storesToField(fn, "lexer", "Lexer", "ch") {
			nCh++
			for _, a := range c.resultAlts(fn, st.Val) {
				switch {
				case a.term == decoded+"0":
				case a.term == "0":
				default:
					okCh = false
					whyCh = "readChar can set the current character to " + pretty(a.term) + ", which is neither the decoded rune nor the end-of-input 0"
				}
			}
		}
		c.Check(okCh && nCh == 1, "readChar/ch-is-the-decoded-rune", c.W.FuncPos(fn), "the current character is the decoded rune, unchanged", whyCh+fmt.Sprintf(" (%d stores to ch)", nCh))
	}
	// end-of-input test agrees
	// at end of input nothing but 0 can come back: every other result is produced inside the input
	eofPeek, okDecode := true, false
	for _, r := range returnsOf(pk) {
		for _, a := range c.resultAlts(pk, r.Results[0]) {
			must := append(append([]string{}, a.must...), c.mustLits(pk, r.Block())...)
			if a.term != "0" && !hasLit(must, inInput) {
				eofPeek = false
			}
			if a.term == decoded+"0" && hasLit(must, inInput) {
				okDecode = true
			}
		}
	}
	c.Check(eofRead, "readChar/end-of-input", c.W.FuncPos(fn), "a character is decoded exactly when readPosition < len(input)", "readChar's end-of-input test is not readPosition < len(input)")
	c.Check(eofPeek && okDecode, "peekChar/end-of-input", c.W.FuncPos(pk), "peekChar returns 0 exactly at end of input (readPosition >= len(input)) and otherwise decodes input[readPosition:]", "peekChar's end-of-input test is not readPosition >= len(input): look-ahead at the last character(s) of the input would differ from what readChar reads next")
}

func c19c(c *Ctx) {
	fn := c.Fn("lexer.Lexer.NextToken")
	sw := c.Fn("lexer.Lexer.skipWhitespace")
	sl := c.Fn("lexer.Lexer.skipToNextLine")
	if fn == nil || sw == nil || sl == nil {
		return
	}
	// a comment ends with its line: after the loop that reads up to the line feed (or the end of
	// input) skipToNextLine reads that one character and nothing more — no second line, no call of
	// itself (a comment ending in a backslash must not swallow the next line's tokens)
	if rc := c.Fn("lexer.Lexer.readChar"); rc != nil {
		var head *ssa.BasicBlock
		for _, b := range sl.Blocks {
			if isLoopHeader(b) {
				head = b
			}
		}
		okTail, why := head != nil, "skipToNextLine has no loop"
		if head != nil {
			body := loopBody(head)
			nRead := 0
			for _, ci := range callsIn(sl) {
				if body[ci.Block()] {
					continue
				}
				g := callee(ci)
				switch {
				case g == rc:
					nRead++
				case g != nil && c.W.InRepo(g) && c.T(sl).purity(g) < purReadOnly:
					okTail, why = false, "after the line is read skipToNextLine calls "+g.Name()+": more than the comment's own line is consumed"
				}
			}
			if okTail && nRead != 1 {
				okTail, why = false, fmt.Sprintf("after its loop skipToNextLine calls readChar %d times, expected exactly once (the line feed)", nRead)
			}
		}
		c.Check(okTail, "skipToNextLine/one-line", c.W.FuncPos(sl), "a comment is skipped up to and including its line feed, nothing more", why)
	}
	// adjacent string pieces: after a closing quote *all* whitespace (blanks as well as line
	// breaks) is skipped before the lexer looks for the next opening quote, on every path
	if rs := c.Fn("lexer.Lexer.readString"); rs != nil {
		var outer *ssa.BasicBlock
		for _, b := range rs.Blocks {
			if isLoopHeader(b) && loopHeaders(rs)[b] == b {
				// outermost loop: its header is not inside another loop's body
				inner := false
				for _, h := range rs.Blocks {
					if h != b && isLoopHeader(h) && loopBody(h)[b] {
						inner = true
					}
				}
				if !inner {
					outer = b
				}
			}
		}
		if outer == nil {
			c.Unk("readString/pieces-loop", c.W.FuncPos(rs), "cannot find the loop over the string pieces")
		} else {
			isSkip := func(in ssa.Instruction) bool {
				ci, ok := in.(ssa.CallInstruction)
				return ok && callee(ci) == sw
			}
			skipped := true
			for i, pred := range outer.Preds {
				_ = i
				if !outer.Dominates(pred) {
					continue // entry edge
				}
				// some body path to this back edge without the whitespace skipper?
				for _, s := range outer.Succs {
					if !loopBody(outer)[s] {
						continue
					}
					_, free := existsPath(pathQuery{from: point{s, 0}, avoid: isSkip, target: func(in ssa.Instruction) bool { return in.Block() == outer && idxInBlock(in) == 0 }})
					if free {
						skipped = false
					}
				}
			}
			// ... and nowhere else: inside a piece the characters are the string's content. A
			// whitespace skip inside the pieces loop either follows the closing quote (nothing is
			// copied between it and the next test for an opening quote) or stands under "a line
			// break inside the string was just skipped" (the documented continuation: newline
			// and indentation become one blank).
			for k, ci := range callsIn(rs) {
				if callee(ci) != sw || !loopBody(outer)[ci.Block()] {
					continue
				}
				underNewline := false
				for _, l := range c.mustLits(rs, ci.Block()) {
					// (a positive answer of a lexer method that itself consumes characters — the
					// line-break skipper, whatever it is called)
					if m := queueHelperRe.FindStringSubmatch(strings.TrimPrefix(l, "+")); strings.HasPrefix(l, "+") && m != nil {
						if h := c.W.Method("lexer", "Lexer", m[1]); h != nil && h != sw && c.T(rs).purity(h) < purReadOnly {
							underNewline = true
						}
					}
				}
				if underNewline {
					continue
				}
				_, copies := existsPath(pathQuery{from: after(ci.(ssa.Instruction)), target: func(in ssa.Instruction) bool {
					cc, ok := in.(ssa.CallInstruction)
					return ok && strings.HasPrefix(calleeName(cc), "(*strings.Builder).Write")
				}, stopAt: func(in ssa.Instruction) bool { return in.Block() == outer && idxInBlock(in) == 0 }})
				c.Check(!copies, fmt.Sprintf("readString/no-skip-inside-a-piece@%d", k), c.W.Pos(ci.Pos()), "whitespace is skipped only between pieces", "readString skips whitespace at a place from where it goes on copying characters without having looked for the next opening quote: blanks that belong to the string's content are swallowed")
			}
			c.Check(skipped, "readString/whitespace-between-pieces", c.W.FuncPos(rs), "all whitespace after a closing quote is skipped before the next piece is looked for", "after a string piece the lexer can look for the next opening quote without having skipped all whitespace: \"a\" \"b\" on one line and across lines would tokenise differently")
		}
	}
	// whitespace set
	{
		var head *ssa.BasicBlock
		for _, b := range sw.Blocks {
			if isLoopHeader(b) {
				head = b
			}
		}
		ok := false
		got := ""
		if head != nil {
			// condition of entering the body
			for b := range loopBody(head) {
				for _, ci := range callsIn(sw) {
					if ci.Block() == b && callee(ci) != nil && callee(ci).Name() == "readChar" {
						d := c.PC(sw).openPredicates(c.PC(sw).At(b))
						got = d.String()
						var set []string
						for _, at := range dnfAtoms(d) {
							set = append(set, at)
						}
						sort.Strings(set)
						want := mkDNF([]string{"+(" + loopCh(set) + " == 32)"}, []string{"+(" + loopCh(set) + " == 9)"}, []string{"+(" + loopCh(set) + " == 10)"}, []string{"+(" + loopCh(set) + " == 13)"})
						ok = dnfEquiv(d, want)
					}
				}
			}
		}
		c.Check(ok, "skipWhitespace/set", c.W.FuncPos(sw), "whitespace = space, tab, LF, CR", "skipWhitespace consumes under ["+got+"], expected exactly ch in {' ', '\\t', '\\n', '\\r'}")
	}
	// line breaks inside a string literal: LF and CR alike (a CRLF file must tokenise like its
	// LF twin): the joining space is written exactly when the current character is LF or CR,
	// whether that is tested in place or by a helper that consumes a run of LF / CR
	if rs := c.Fn("lexer.Lexer.readString"); rs != nil {
		nlSet := func(f *ssa.Function, d dnf) (bool, string) {
			// project onto the positive tests of the current character — the character of the
			// innermost loop (the one with the latest version tag)
			verRe := regexpMust(`^\(\$0\.ch!L(\d+) == `)
			maxVer := -1
			for _, a := range dnfAtoms(d) {
				if m := verRe.FindStringSubmatch(a); m != nil {
					var k int
					fmt.Sscan(m[1], &k)
					if k > maxVer {
						maxVer = k
					}
				}
			}
			out := dnf{}
			for _, cj := range d.cs {
				var n conj
				for _, l := range cj {
					if l[0] != '+' || !strings.HasPrefix(l[1:], "($0.ch") || !strings.Contains(l, " == ") {
						continue
					}
					if maxVer >= 0 {
						m := verRe.FindStringSubmatch(l[1:])
						if m == nil {
							continue // the character as it was before the loop
						}
						var k int
						fmt.Sscan(m[1], &k)
						if k != maxVer {
							continue
						}
					}
					n = append(n, l)
				}
				out.cs = append(out.cs, n)
			}
			out.cs = simplify(out.cs)
			var atoms []string
			for _, a := range dnfAtoms(out) {
				atoms = append(atoms, a)
			}
			ch := loopCh(atoms)
			want := mkDNF([]string{"+(" + ch + " == 10)"}, []string{"+(" + ch + " == 13)"})
			return dnfEquiv(out, want), out.String()
		}
		found := false
		for _, m := range c.unitOf(rs) {
			for _, ws := range c.sitesOf(m.fn) {
				if !(ws.konst && ws.format == " " && ws.depth == 0) {
					continue
				}
				found = true
				pos := c.W.Pos(ws.call.Pos())
				viaHelper := ""
				for _, l := range siteMust(ws) {
					if strings.HasPrefix(l, "+(*lexer.Lexer).") && strings.Contains(l, "@") {
						viaHelper = strings.TrimPrefix(l[:strings.Index(l, "@")], "+(*lexer.Lexer).")
						viaHelper = strings.TrimSuffix(viaHelper, "($0)")
					}
				}
				if viaHelper != "" {
					h := c.W.Method("lexer", "Lexer", viaHelper)
					okSet, got := false, ""
					okFlag := false
					if h != nil {
						for _, b := range h.Blocks {
							if !isLoopHeader(b) {
								continue
							}
							for x := range loopBody(b) {
								for _, ci := range callsIn(h) {
									if ci.Block() == x && callee(ci) != nil && callee(ci).Name() == "readChar" {
										okSet, got = nlSet(h, c.PC(h).At(x))
									}
								}
							}
						}
						// the result says whether anything was skipped: false on entry, true once the body ran
						for _, r := range returnsOf(h) {
							if ph, isPhi := r.Results[0].(*ssa.Phi); isPhi && isLoopHeader(ph.Block()) {
								sawFalse, sawTrue := false, false
								for i, e := range ph.Edges {
									back := ph.Block().Dominates(ph.Block().Preds[i])
									if t := c.term(h, e); t == "false" && !back {
										sawFalse = true
									} else if t == "true" && back {
										sawTrue = true
									}
								}
								okFlag = sawFalse && sawTrue
							}
						}
						// or: constant results, true only after a character was read, false only before
						if !okFlag {
							isRead := func(in ssa.Instruction) bool {
								ci, ok := in.(ssa.CallInstruction)
								return ok && callee(ci) != nil && callee(ci).Name() == "readChar"
							}
							nT, nF, bad := 0, 0, false
							for _, r := range returnsOf(h) {
								rr := r
								switch c.term(h, r.Results[0]) {
								case "true":
									nT++
									if _, free := existsPath(pathQuery{from: entry(h), avoid: isRead, target: func(in ssa.Instruction) bool { return in == ssa.Instruction(rr) }}); free {
										// ... unless every such way is contradictory (the loop is entered under
										// a test that guarantees its first iteration)
										if cs := unconsumedConds(c, h, rr.Block(), isRead, true); cs == nil || len(cs) > 0 {
											bad = true
										}
									}
								case "false":
									nF++
									for _, ci := range callsIn(h) {
										if isRead(ci.(ssa.Instruction)) {
											if _, reach := existsPath(pathQuery{from: after(ci.(ssa.Instruction)), target: func(in ssa.Instruction) bool { return in == ssa.Instruction(rr) }}); reach {
												bad = true
											}
										}
									}
								default:
									bad = true
								}
							}
							okFlag = nT > 0 && nF > 0 && !bad
						}
					}
					c.Check(okSet && okFlag, "readString/line-break-in-literal", pos, "a run of LF / CR inside a literal (reported by "+viaHelper+") becomes one space", "the helper "+viaHelper+" that decides whether a literal continues on the next line does not consume exactly a run of LF / CR characters and report whether there was one (consumes under ["+got+"]): a CRLF file would tokenise differently from its LF twin")
				} else {
					okSet, got := nlSet(m.fn, ws.cond)
					c.Check(okSet, "readString/line-break-in-literal", pos, "LF or CR inside a literal becomes one space", "the joining space inside a string literal is written under ["+got+"], expected exactly when the current character is LF or CR: a CRLF file would tokenise differently from its LF twin")
				}
			}
		}
		c.Check(found, "readString/line-break-in-literal/site", c.W.FuncPos(rs), "line breaks inside a literal are replaced by a space", "readString no longer writes a joining space for a line break inside a literal")
	}
	// comment openers and skipping before dispatch
	var dispatch, head *ssa.BasicBlock
	for _, b := range fn.Blocks {
		if isLoopHeader(b) && head == nil {
			head = b
			for x := range loopBody(b) {
				for _, s := range x.Succs {
					if !loopBody(b)[s] {
						dispatch = s
					}
				}
			}
		}
	}
	if head == nil || dispatch == nil {
		c.Bad("NextToken/comment-loop", c.W.FuncPos(fn), "cannot find the comment loop")
		return
	}
	var bodyD dnf
	nSkipLine, nSkipWs := 0, 0
	for b := range loopBody(head) {
		for _, ci := range callsIn(fn) {
			if ci.Block() != b {
				continue
			}
			if callee(ci) == sl {
				nSkipLine++
				bodyD = c.PC(fn).At(b)
			}
			if callee(ci) == sw {
				nSkipWs++
			}
		}
	}
	var ch string
	for _, at := range dnfAtoms(bodyD) {
		if strings.HasPrefix(at, "($0.ch") {
			ch = strings.TrimPrefix(at[:strings.Index(at, " == ")], "(")
		}
	}
	want := mkDNF([]string{"+(" + ch + " == 35)"}, []string{"+(" + ch + " == 47)", "+((*lexer.Lexer).peekChar($0)@0 == 47)"})
	// only what is said about the current and the next character matters here (the test for
	// queued tokens, however it is spelled, precedes the loop)
	got := dropAtoms(bodyD, func(a string) bool { return !strings.Contains(a, "$0.ch") && !strings.Contains(a, "peekChar(") })
	// ... and nothing that is not known before the loop is asked besides: a further conjunct
	// (the read position, a counter) would make a comment opener a token in some places
	{
		before := map[string]bool{}
		for _, a := range dnfAtoms(c.PC(fn).At(head)) {
			before[a] = true
		}
		var extra []string
		for _, a := range dnfAtoms(bodyD) {
			if !before[a] && !strings.Contains(a, "$0.ch") && !strings.Contains(a, "peekChar(") {
				extra = append(extra, a)
			}
		}
		c.Check(len(extra) == 0, "NextToken/comment-openers/nothing-else-asked", c.W.Pos(head.Instrs[0].Pos()), "whether a comment starts depends on the current and the next character only", "the comment loop also asks "+fmt.Sprint(prettyAll(extra))+": a '#' or '//' would be a comment in some places and a token in others")
	}
	// (the look-ahead made inside a predicate helper is the same look-ahead)
	{
		norm := dnf{unknown: got.unknown}
		for _, cj := range got.cs {
			var n conj
			for _, l := range cj {
				n = append(n, regexpMust(`peekChar\(\$0\)@v\d+x\d+`).ReplaceAllString(l, "peekChar($$0)@0"))
			}
			norm.cs = append(norm.cs, n)
		}
		got = norm
	}
	c.Check(nSkipLine == 1 && nSkipWs == 1 && dnfEquiv(got, want), "NextToken/comment-openers", c.W.Pos(head.Instrs[0].Pos()), "a comment starts with '#' or '//' and is skipped to the end of the line, followed by whitespace skipping", "the comment loop runs under ["+got.String()+"], expected (ch == '#') || (ch == '/' && peekChar() == '/'), skipping the line and then whitespace")
	pre := false
	for _, ci := range callsToIn(fn, sw) {
		if !loopBody(head)[ci.Block()] && instrDominates(ci.(ssa.Instruction), head.Instrs[0]) {
			pre = true
		}
	}
	c.Check(pre && head.Dominates(dispatch), "NextToken/skip-before-dispatch", c.W.FuncPos(fn), "whitespace and comments are skipped before the token dispatch on every non-queued path", "the dispatch can be reached without skipping whitespace and comments first")
	// skipToNextLine stops at LF or end of input
	{
		ok := false
		for _, b := range sl.Blocks {
			if isLoopHeader(b) {
				for x := range loopBody(b) {
					if x == b {
						continue
					}
					d := c.PC(sl).At(x)
					var chs string
					for _, at := range dnfAtoms(d) {
						if strings.HasPrefix(at, "($0.ch") {
							chs = strings.TrimPrefix(at[:strings.Index(at, " == ")], "(")
						}
					}
					if dnfEquiv(d, mkDNF([]string{"-(" + chs + " == 10)", "-(" + chs + " == 0)"})) {
						ok = true
					}
				}
			}
		}
		c.Check(ok, "skipToNextLine/stops", c.W.FuncPos(sl), "a comment ends at the newline or at end of input", "skipToNextLine does not stop exactly at '\\n' or end of input")
	}
}

func loopCh(atoms []string) string {
	for _, a := range atoms {
		if strings.HasPrefix(a, "($0.ch") {
			return strings.TrimPrefix(a[:strings.Index(a, " == ")], "(")
		}
	}
	return "$0.ch"
}

func c19d(c *Ctx) {
	kw := c.W.GlobalNamed("token", "keywords", "map[string]Type")
	tbl, ok := c.globalMapLiteral("token", kw)
	if !ok {
		c.Unk("anchor:token.keywords", "-", "keyword table not found")
		return
	}
	want := map[string]string{
		"script": "SCRIPT", "raw": "RAW", "text": "TEXT", "movement": "MOVEMENT", "mart": "MART", "mapscripts": "MAPSCRIPTS", "format": "FORMAT",
		"var": "VAR", "flag": "FLAG", "defeated": "DEFEATED", "TRUE": "TRUE", "FALSE": "FALSE", "true": "TRUE", "false": "FALSE",
		"if": "IF", "else": "ELSE", "elif": "ELSEIF", "do": "DO", "while": "WHILE", "break": "BREAK", "continue": "CONTINUE",
		"switch": "SWITCH", "case": "CASE", "default": "DEFAULT", "global": "GLOBAL", "local": "LOCAL", "poryswitch": "PORYSWITCH",
		"const": "CONST", "value": "VALUE", "moves": "MOVES",
	}
	// the effective classification is what GetIdentType returns: the table for a successful
	// lookup, plus spellings it decides itself (`case "true", "TRUE": return TRUE`)
	eff := map[string]string{}
	okHit, okMiss := false, false
	fn := c.Fn("token.GetIdentType")
	if fn != nil {
		for _, r := range c.flatReturns(fn) {
			v := r.terms[0]
			switch {
			case v == "@token."+kw+"[$0]#0":
				all := len(r.cond.cs) > 0
				for _, cj := range r.cond.cs {
					if !hasLit(cj, "+@token."+kw+"[$0]#1") {
						all = false
					}
				}
				if all {
					okHit = true
					for k, t := range tbl {
						if _, set := eff[k]; !set {
							eff[k] = t
						}
					}
				}
			case v == `"IDENT"`:
				all := len(r.cond.cs) > 0
				for _, cj := range r.cond.cs {
					if !hasLit(cj, "-@token."+kw+"[$0]#1") {
						all = false
					}
				}
				okMiss = okMiss || all
			case strings.HasPrefix(v, `"`):
				typ, _ := strconv.Unquote(v)
				for _, cj := range r.cond.cs {
					spelled := false
					for _, l := range cj {
						if strings.HasPrefix(l, `+($0 == "`) && strings.HasSuffix(l, `")`) {
							eff[strings.TrimSuffix(strings.TrimPrefix(l, `+($0 == "`), `")`)] = typ
							spelled = true
						}
					}
					if !spelled {
						c.Bad("GetIdentType/constant-return", c.W.Pos(r.ret.Pos()), "GetIdentType returns "+v+" on a path that does not test the identifier against a spelling")
					}
				}
			default:
				c.Bad("GetIdentType/return", c.W.Pos(r.ret.Pos()), "GetIdentType returns "+pretty(v)+", which is neither a table lookup, a constant type nor IDENT")
			}
		}
	}
	for k, w := range want {
		c.Check(eff[k] == w, "keyword["+k+"]", "token/token.go", k+" -> "+w, fmt.Sprintf("keyword %q maps to %q, expected %q", k, eff[k], w))
	}
	for k, v := range eff {
		if _, ok := want[k]; !ok {
			c.Bad("keyword["+k+"]", "token/token.go", fmt.Sprintf("undocumented keyword %q -> %q (an identifier spelled like this would stop being an identifier)", k, v))
		}
	}
	if fn != nil {
		c.Check(okHit && okMiss, "GetIdentType/lookup", c.W.FuncPos(fn), "keyword type if listed, IDENT otherwise", "GetIdentType is not (keywords[ident] if present else IDENT)")
	}
}

// c19e: the lexer's own character classes, which the other lexer rules use as vocabulary. Each
// definition is summarised and evaluated, rune by rune over U+0000..U+2FFFF (planes 0-2: every script the Unicode tables list letters for), against the class it
// stands for (however the class is spelled: comparisons, a switch, a digit table).
func c19e(c *Ctx) {
	for _, x := range []struct {
		fn   string
		want func(r rune) bool
		what string
	}{
		{"lexer.isLetter", func(r rune) bool { return unicode.IsLetter(r) || r == '_' }, "a letter is a Unicode letter or '_'"},
		{"lexer.isHexDigit", func(r rune) bool { return r >= '0' && r <= '9' || r >= 'a' && r <= 'f' || r >= 'A' && r <= 'F' }, "a hex digit is one of 0-9, a-f, A-F"},
	} {
		fn := c.W.Func("lexer", strings.TrimPrefix(x.fn, "lexer."))
		if fn == nil || len(fn.Blocks) == 0 {
			continue // written out in place: the rules read the test itself
		}
		sum := c.PC(fn).boolSummaryAny(fn)
		pos := c.W.FuncPos(fn)
		if sum == nil {
			c.Unk(fn.Name()+"/definition", pos, "cannot summarise "+fn.Name())
			continue
		}
		bad := ""
		for r := rune(0); r <= 0x2FFFF && bad == ""; r++ {
			if r >= 0xD800 && r <= 0xDFFF {
				continue // surrogates are not characters
			}
			switch dnfAtRune(sum.pos, r) {
			case -1:
				bad = fmt.Sprintf("cannot evaluate the definition at %q", r)
			case 1:
				if !x.want(r) {
					bad = fmt.Sprintf("%s(%q) is true", fn.Name(), r)
				}
			case 0:
				if x.want(r) {
					bad = fmt.Sprintf("%s(%q) is false", fn.Name(), r)
				}
			}
		}
		c.Check(bad == "", fn.Name()+"/definition", pos, x.what, bad+"; expected: "+x.what)
	}
}
