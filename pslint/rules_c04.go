package main

// C04 — emitted assembly is closed; C05 — -optimize changes layout only.

import (
	"go/token"
	"fmt"
	"go/types"
	"strconv"
	"strings"

	"golang.org/x/tools/go/ssa"
)

func init() {
	property("C04",
		"Static conformance of the mechanisms that keep the output closed: every generated label reference (goto / case / goto_if) is written with the script name as prefix and an id that was registered with registerJumpChunk on every path before the write; chunk labels are rendered exactly for the entry chunk and registered chunks, each chunk once, with its own body; jump destinations are ids of chunks that were created and enqueued (never the 'no chunk' value); nothing is dropped or duplicated on the way (C01.b/c/d: statement conservation, unique ids, single enqueue); every chunk body ends in a goto/terminator or falls through only into the chunk rendered next (C01.f); the optimised order is a permutation (check-before-append); hoisted labels are defined (C06.c); label clash checks (C20.e). Label sets hold every chunk / every text (C20.e), hoisted movements are all added (C20.d), Emit is total (C10.f).",
		[]string{"a rendered switch chunk is never the last chunk of either order (exemption for switchBranch.destChunkID)", "scheme argument of DESIGN §4 C01/C04"},
		"C04.a", "C04.b", "C04.c", "C04.f", "C01.b", "C01.c", "C01.d", "C01.f", "C03.b", "C20.e", "C08.a", "C01.e", "C06.c", "C20.d", "C10.f", "C01.h", "C08.e", "C10.g", "C13.b", "C18.m", "C15.c", "C02.i", "C17.a", "C06.b", "C08.b", "C18.d", "C18.n")
	property("C05",
		"Static conformance: the optimize flag is read only to choose the order in which the same chunk map is rendered (flag confinement), jump suppression is decided at render time against the actual next chunk (C01.f, both directions), every registered label is referenced on every path after its registration (no label without a reference), the order is a duplicate-free list starting at chunk 0 (C04.f) chosen without map-order dependence (C17.a). No emitter function writes an AST node or token, and New keeps its arguments unchanged (C05.a).",
		[]string{"scheme argument of DESIGN §4 C05: with C01.f the text of each chunk transfers control to the same successors whatever the order"},
		"C05.a", "C05.c", "C01.f", "C04.a", "C04.b", "C04.f", "C17.a", "C17.f", "C20.e", "C04.c", "C02.i", "C10.g", "C08.e", "C18.m", "C18.d", "C18.n")

	register(&Rule{ID: "C04.a", Doc: "every label reference uses the script name and an id registered before it on every path", Floor: 25, Run: c04a})
	register(&Rule{ID: "C04.b", Doc: "labels rendered iff entry or registered; every chunk rendered once with its own body; next-chunk id computed from the order", Floor: 8, Run: c04b})
	register(&Rule{ID: "C04.c", Doc: "jump destinations are ids of created chunks or return ids", Floor: 8, Run: c04c})
	register(&Rule{ID: "C04.f", Doc: "optimised order: every append is paired with a delete and guarded by a membership test", Floor: 4, Run: c04f})
	register(&Rule{ID: "C05.a", Doc: "the optimize flag only selects the chunk order", Floor: 5, Run: c05a})
	register(&Rule{ID: "C05.c", Doc: "every registered jump target is referenced on every path after the registration", Floor: 7, Run: c05c})
}

// registerParam finds the func(int) parameter of fn (registerJumpChunk).
func registerParam(fn *ssa.Function) *ssa.Parameter {
	for _, p := range fn.Params {
		if sig, ok := p.Type().Underlying().(*types.Signature); ok && sig.Params().Len() == 1 && sig.Results().Len() == 0 {
			if b, ok := sig.Params().At(0).Type().(*types.Basic); ok && b.Kind() == types.Int {
				return p
			}
		}
	}
	return nil
}

func registerCalls(fn *ssa.Function) []ssa.CallInstruction {
	rp := registerParam(fn)
	if rp == nil {
		return nil
	}
	var out []ssa.CallInstruction
	for _, ci := range callsIn(fn) {
		if ci.Common().Value == ssa.Value(rp) && !ci.Common().IsInvoke() {
			out = append(out, ci)
		}
	}
	return out
}

// labelRefs lists the write sites of fn that reference a generated label (<script>_<id>).
type labelRef struct {
	ws      writeSite
	prefixT string
	idT     string
	idV     ssa.Value // the operand itself (nil for writes made by a helper)
}

// paramOfTerm: the parameter a term of the form $k denotes.
func paramOfTerm(fn *ssa.Function, t string) *ssa.Parameter {
	if !strings.HasPrefix(t, "$") {
		return nil
	}
	k, err := strconv.Atoi(t[1:])
	if err != nil || k < 0 || k >= len(fn.Params) {
		return nil
	}
	return fn.Params[k]
}

func (c *Ctx) labelRefsOf(fn *ssa.Function) []labelRef {
	var out []labelRef
	for _, ws := range c.sitesOf(fn) {
		if !ws.isFmt || !strings.Contains(ws.format, "%s_%d") {
			continue
		}
		// position of the %s_%d pair among the verbs
		verbs := 0
		idx := strings.Index(ws.format, "%s_%d")
		for i := 0; i < idx; i++ {
			if ws.format[i] == '%' && i+1 < len(ws.format) && ws.format[i+1] != '%' {
				verbs++
			}
		}
		if verbs+1 < len(ws.argT) {
			out = append(out, labelRef{ws: ws, prefixT: ws.argT[verbs], idT: ws.argT[verbs+1], idV: ws.argV(verbs + 1)})
		}
	}
	return out
}

func c04a(c *Ctx) {
	rbc := c.Fn("emitter.renderBranchComparison")
	leafFn := c.Fn("emitter.leafExpressionBranch.renderBranchConditions")
	if rbc == nil || leafFn == nil {
		return
	}
	comparers := map[*ssa.Function]bool{}
	for _, n := range []string{"emitter.renderFlagComparison", "emitter.renderVarComparison", "emitter.renderDefeatedComparison"} {
		if f := c.Fn(n); f != nil {
			comparers[f] = true
		}
	}
	refOf := func(fn *ssa.Function, ws writeSite) (labelRef, bool) {
		for _, r := range c.labelRefsOf(fn) {
			if r.ws.call == ws.call && r.ws.inner == ws.inner && r.ws.depth == ws.depth {
				return r, true
			}
		}
		return labelRef{}, false
	}
	registered := func(fn *ssa.Function, ws writeSite) bool {
		r, ok := refOf(fn, ws)
		if !ok {
			return false
		}
		if comparers[fn] && ws.depth == 0 {
			return r.idT == "$1.id"
		}
		if fn.Name() == "getLabel" {
			return r.idT == "$0.id"
		}
		for _, rc := range registerCalls(fn) {
			same := c.term(fn, rc.Common().Args[0]) == r.idT || (r.idV != nil && rc.Common().Args[0] == r.idV)
			if same && instrDominates(rc.(ssa.Instruction), ws.call.(ssa.Instruction)) {
				return true
			}
		}
		return false
	}
	isRef := func(ws writeSite) bool { return ws.isFmt && strings.Contains(ws.format, "%s_%d") }
	for _, d := range c.siteDuties(c.W.FuncsOf("emitter"), isRef, registered) {
		fn := d.fn
		r, ok := refOf(fn, d.ws)
		if !ok {
			continue
		}
		fk := c.W.FuncKey(fn)
		idT := r.idT
		pos := c.W.Pos(r.ws.call.Pos())
		key := fk + "/ref[" + strings.TrimSpace(strings.SplitN(strings.TrimSpace(r.ws.format), " ", 2)[0]) + " " + pretty(idT) + "]"
		// prefix must be the script name parameter (a string parameter)
		pp := paramOfTerm(fn, r.prefixT)
		isParam := pp != nil
		okPrefix := isParam && types.Identical(pp.Type(), types.Typ[types.String])
		if fn.Name() == "getLabel" {
			okPrefix = isParam
		}
		c.Check(okPrefix, key+"/prefix", pos, "label prefix is the script name parameter", "label reference is built with prefix "+pretty(r.prefixT)+" instead of the script name")
		switch {
		case d.ok && comparers[fn] && d.ws.depth == 0:
			c.OK(key+"/id", pos, "comparison jumps to the destination it was given")
		case d.ok && fn.Name() == "getLabel":
			c.OK(key+"/id", pos, "a chunk's label carries its own id")
		case d.ok:
			c.OK(key+"/registered", pos, "registerJumpChunk("+pretty(idT)+") dominates the reference")
		case d.transferred:
			c.OK(key+"/registered-by-callers", pos, "helper writes the reference for its callers; each caller is checked with the write inlined")
		case comparers[fn] && d.ws.depth == 0:
			c.Bad(key+"/id", pos, "comparison references "+idT+", expected dest.id")
		case fn.Name() == "getLabel":
			c.Bad(key+"/id", pos, "getLabel formats "+idT+", expected the chunk's own id")
		default:
			c.Bad(key+"/registered", pos, "label "+pretty(idT)+" is referenced but registerJumpChunk was not called with it on every path before: its label may not be rendered")
		}
	}
	// comparison chain: leaf registers truthyDest.id, hands truthyDest down, and the dispatcher passes it on
	{
		okReg := false
		for _, call := range callsToIn(leafFn, rbc) {
			dest := c.term(leafFn, call.Common().Args[1])
			for _, rc := range registerCalls(leafFn) {
				if c.term(leafFn, rc.Common().Args[0]) == dest+".id" && instrDominates(rc.(ssa.Instruction), call.(ssa.Instruction)) {
					okReg = true
				}
			}
			c.Check(c.term(leafFn, call.Common().Args[2]) == "$2", "leaf/comparison-script-name", c.W.Pos(call.Pos()), "comparison gets the script name", "renderBranchComparison is not given the script name parameter")
		}
		c.Check(okReg, "leaf/registers-truthy-dest", c.W.FuncPos(leafFn), "the truthy destination is registered before the comparison that references it is rendered", "leaf branch renders its comparison without registering the truthy destination id first")
		n := 0
		for f := range comparers {
			for _, call := range callsToIn(rbc, f) {
				n++
				a := call.Common().Args
				okPass := len(a) >= 3 && c.term(rbc, a[1]) == "$1" && c.term(rbc, a[2]) == "$2" && c.term(rbc, a[0]) == "$0"
				if !okPass && len(a) >= 3 && c.term(rbc, a[0]) == "$0" {
					// ... or the destination's expression and its label, formatted here
					okPass = c.term(rbc, a[1]) == "$1.operatorExpression"
					lf, lops, isT := flatTemplate(a[2], 0)
					okPass = okPass && isT && lf == "%s_%d" && len(lops) == 2 && c.term(rbc, lops[0]) == "$2" && c.term(rbc, lops[1]) == "$1.id"
				}
				c.Check(okPass, "renderBranchComparison/passes-dest/"+f.Name(), c.W.Pos(call.Pos()), "dispatcher passes (sb, dest, scriptName) on", "renderBranchComparison calls "+f.Name()+" with different (sb, dest, scriptName)")
			}
		}
		c.Check(n == 3, "renderBranchComparison/dispatch-count", c.W.FuncPos(rbc), "three comparison kinds", fmt.Sprintf("found %d comparison renderer calls, expected 3", n))
	}
}

func c05c(c *Ctx) {
	rbc := c.Fn("emitter.renderBranchComparison")
	for _, fn := range c.W.FuncsOf("emitter") {
		for i, rc := range registerCalls(fn) {
			x := c.term(fn, rc.Common().Args[0])
			isRef := func(in ssa.Instruction) bool {
				ci, ok := in.(ssa.CallInstruction)
				if !ok {
					return false
				}
				if rbc != nil && callee(ci) == rbc && c.term(fn, ci.Common().Args[1])+".id" == x {
					return true
				}
				return false
			}
			refCalls := map[ssa.Instruction]bool{}
			for _, r := range c.labelRefsOf(fn) {
				if r.idT == x || (r.idV != nil && r.idV == rc.Common().Args[0]) {
					refCalls[r.ws.call.(ssa.Instruction)] = true
				}
			}
			_, unref := existsPath(pathQuery{from: after(rc.(ssa.Instruction)), exitIs: true, avoid: func(in ssa.Instruction) bool { return refCalls[in] || isRef(in) }})
			c.Check(!unref, fmt.Sprintf("%s/register#%d[%s]", c.W.FuncKey(fn), i, pretty(x)), c.W.Pos(rc.Pos()), "every path after the registration writes a reference to the label", "registerJumpChunk("+pretty(x)+") can be followed by a return without any reference to that label being written: an unreferenced sub-label would be emitted")
		}
	}
}

func c04b(c *Ctx) {
	fn := c.Fn("emitter.Emitter.renderChunks")
	rl := c.Fn("emitter.chunk.renderLabel")
	rs := c.Fn("emitter.chunk.renderStatements")
	rb := c.Fn("emitter.chunk.renderBranching")
	if fn == nil || rl == nil || rs == nil || rb == nil {
		return
	}
	name := "renderChunks"
	// the register closure writes jumpChunks[id] = true
	var closure *ssa.MakeClosure
	instrs(fn, func(in ssa.Instruction) {
		if mc, ok := in.(*ssa.MakeClosure); ok {
			closure = mc
		}
	})
	var jumpMap ssa.Value
	if closure != nil && len(closure.Bindings) == 1 {
		cf := closure.Fn.(*ssa.Function)
		ok := false
		instrs(cf, func(in ssa.Instruction) {
			if mu, isMU := in.(*ssa.MapUpdate); isMU {
				if c.T(cf).Term(mu.Key) == "$0" && c.T(cf).Term(mu.Value) == "true" {
					ok = true
				}
			}
		})
		// binding is the address of / the map variable
		jumpMap = closure.Bindings[0]
		c.Check(ok, name+"/register-closure", c.W.Pos(closure.Pos()), "registerJumpChunk(id) records id in the jump set", "the register closure does not store jumpChunks[id] = true")
	} else {
		c.Bad(name+"/register-closure", c.W.FuncPos(fn), "cannot find the registerJumpChunk closure with its single captured map")
	}
	// the jump set is filled by the register closure and by nothing else: renderChunks itself only
	// looks entries up, and the closure is only handed to renderBranching (it is the branch
	// renderers that know what is jumped to)
	if closure != nil && jumpMap != nil {
		var bad []string
		nUses := 0
		var mapUses func(m ssa.Value, f *ssa.Function, inClosure bool)
		mapUses = func(m ssa.Value, f *ssa.Function, inClosure bool) {
			if m.Referrers() == nil {
				return
			}
			for _, r := range *m.Referrers() {
				nUses++
				switch y := r.(type) {
				case *ssa.Lookup, *ssa.DebugRef:
				case *ssa.MapUpdate:
					if !inClosure {
						bad = append(bad, "entry written at "+c.W.Pos(y.Pos()))
					}
				case *ssa.MakeClosure:
				case *ssa.Store:
					if y.Val == m {
						if _, isCell := y.Addr.(*ssa.Alloc); !isCell {
							bad = append(bad, "the set is stored elsewhere at "+c.W.Pos(y.Pos()))
						}
					}
				case *ssa.UnOp:
					mapUses(y, f, inClosure)
				case *ssa.Range:
					// reading
				default:
					bad = append(bad, fmt.Sprintf("used by %T at %s", r, c.W.Pos(r.Pos())))
				}
			}
		}
		mapUses(jumpMap, fn, false)
		if cell, isCell := jumpMap.(*ssa.Alloc); isCell {
			// the value stored into the cell is a fresh map
			for _, r := range *cell.Referrers() {
				if st, ok := r.(*ssa.Store); ok && st.Addr == ssa.Value(cell) {
					if _, isMk := st.Val.(*ssa.MakeMap); !isMk {
						bad = append(bad, "the set is replaced at "+c.W.Pos(st.Pos()))
					}
				}
			}
		}
		cf := closure.Fn.(*ssa.Function)
		nUpd := 0
		for _, fv := range cf.FreeVars {
			mapUses(fv, cf, true)
		}
		instrs(cf, func(in ssa.Instruction) {
			if _, isMU := in.(*ssa.MapUpdate); isMU {
				nUpd++
			}
			if ci, isCall := in.(ssa.CallInstruction); isCall && calleeName(ci) == "builtin:delete" {
				bad = append(bad, "the closure deletes at "+c.W.Pos(ci.Pos()))
			}
		})
		if nUpd != 1 {
			bad = append(bad, fmt.Sprintf("the closure updates the set %d times", nUpd))
		}
		// the closure's own uses
		if closure.Referrers() != nil {
			for _, r := range *closure.Referrers() {
				switch y := r.(type) {
				case *ssa.DebugRef:
				case ssa.CallInstruction:
					if y.Common().Value == ssa.Value(closure) {
						bad = append(bad, "renderChunks registers a jump target itself at "+c.W.Pos(y.Pos()))
					} else if callee(y) != rb {
						bad = append(bad, "the register closure is handed to "+calleeName(y)+" at "+c.W.Pos(y.Pos()))
					}
				default:
					bad = append(bad, fmt.Sprintf("the register closure is used by %T at %s", r, c.W.Pos(r.Pos())))
				}
			}
		}
		c.Check(len(bad) == 0 && nUses >= 3, name+"/jump-set-closed", c.W.Pos(closure.Pos()), "the jump set is written by the register closure only, and only the branch renderers register", "the set of chunks that get a label is tampered with outside the branch renderers: "+strings.Join(bad, "; ")+" (a label that is jumped to may be missing, or one nobody jumps to may appear)")
	}
	// label rendering
	calls := callsToIn(fn, rl)
	if len(calls) != 1 {
		c.Bad(name+"/label-site", c.W.FuncPos(fn), fmt.Sprintf("expected one renderLabel call, found %d", len(calls)))
	} else {
		call := calls[0]
		recv := c.term(fn, call.Common().Args[0]) // $1[K]
		k := ""
		if strings.HasPrefix(recv, "$1[") && strings.HasSuffix(recv, "]") {
			k = strings.TrimSuffix(strings.TrimPrefix(recv, "$1["), "]")
		}
		d := c.PC(fn).At(call.Block())
		// expected: (K == 0) | jump[K]
		var jm string
		atoms := dnfAtoms(d)
		for _, a := range atoms {
			if strings.HasSuffix(a, "["+k+"]") && !strings.HasPrefix(a, "(") {
				jm = a
			}
		}
		want := mkDNF([]string{"+(" + k + " == 0)"}, []string{"+" + jm})
		// ignore loop-membership literals (range condition)
		dd := dropAtoms(d, func(a string) bool { return isRangeTest(a) })
		c.Check(k != "" && jm != "" && dnfEquiv(dd, want), name+"/label-iff-entry-or-registered", c.W.Pos(call.Pos()), "a chunk's label is rendered exactly when it is chunk 0 or was registered as a jump target", "renderLabel is reached under ["+pretty(dd.String())+"], expected exactly (chunkID == 0) || jumpChunks[chunkID] for the chunk being rendered ("+pretty(recv)+")")
		if jumpMap != nil && jm != "" {
			// the map looked up is the one the closure writes
			mapTerm := strings.TrimSuffix(jm, "["+k+"]")
			bindTerm := c.term(fn, jumpMap)
			c.Check(strings.Contains(mapTerm, strings.TrimPrefix(bindTerm, "&")) || mapTerm == bindTerm || sameMapCell(c, fn, jumpMap, mapTerm), name+"/label-set-is-register-set", c.W.Pos(call.Pos()), "the set consulted is the one registerJumpChunk fills", "labels are decided from "+pretty(mapTerm)+" but registerJumpChunk fills "+pretty(bindTerm))
		}
		c.Check(c.term(fn, call.Common().Args[1]) == "$2" && c.term(fn, call.Common().Args[2]) == "$3", name+"/label-args", c.W.Pos(call.Pos()), "label rendered with the script name and scope", "renderLabel called with unexpected script name / scope arguments")
		// body written right after for the same chunk id
		okBody := false
		for _, ws := range c.sitesOf(fn) {
			if ws.call.Block().Dominates(call.Block()) || call.Block().Dominates(ws.call.Block()) || true {
				at := c.term(fn, ws.arg)
				if strings.Contains(at, "["+k+"]") && strings.Contains(at, "String") && sameLoop(ws.call.Block(), call.Block()) {
					okBody = true
				}
			}
		}
		c.Check(okBody, name+"/body-of-same-chunk", c.W.Pos(call.Pos()), "the body written under a label is the body rendered for the same chunk id", "the body appended in the label loop is not chunkBodies[<same chunk id>]")
	}
	// body loop: statements and branching of the same chunk into the same builder, next id from the order
	rsCalls, rbCalls := callsToIn(fn, rs), callsToIn(fn, rb)
	if len(rsCalls) == 1 && len(rbCalls) == 1 {
		a, b := rsCalls[0].Common().Args, rbCalls[0].Common().Args
		chunkT := c.term(fn, a[0])
		okSame := chunkT == c.term(fn, b[0]) && c.term(fn, a[1]) == c.term(fn, b[2]) && strings.HasPrefix(chunkT, "$1[")
		c.Check(okSame, name+"/statements-then-branch-same-chunk", c.W.Pos(rbCalls[0].Pos()), "statements and branching of one chunk go to one builder", "renderStatements and renderBranching are not called on the same chunk / builder")
		c.Check(instrDominates(rsCalls[0].(ssa.Instruction), rbCalls[0].(ssa.Instruction)), name+"/statements-before-branch", c.W.Pos(rbCalls[0].Pos()), "statements are rendered before the branch", "renderBranching does not follow renderStatements")
		c.Check(c.term(fn, b[1]) == "$2" && closure != nil && b[4] == ssa.Value(closure), name+"/branch-args", c.W.Pos(rbCalls[0].Pos()), "branching gets the script name and the register closure", "renderBranching is not given (scriptName, ..., registerJumpChunk)")
		// nextChunkID
		// nextChunkID: a value chosen in place, or by a helper that chooses it
		type nextAlt struct {
			term string
			must []string
		}
		var nalts []nextAlt
		nxPos := c.W.Pos(rbCalls[0].Pos())
		if nx, isPhi := b[3].(*ssa.Phi); isPhi {
			nxPos = c.W.Pos(nx.Pos())
			for i, e := range nx.Edges {
				nalts = append(nalts, nextAlt{c.term(fn, e), c.edgeMust(fn, nx.Block().Preds[i], nx.Block())})
			}
		} else if call, isCall := b[3].(*ssa.Call); isCall {
			if alts, ok := c.PC(fn).altsOfCall(call); ok {
				for _, a := range alts {
					na := nextAlt{term: c.T(fn).Canon(a.term)}
					for _, l := range a.cond {
						na.must = append(na.must, c.T(fn).Canon(l))
					}
					nalts = append(nalts, na)
				}
			}
		}
		if len(nalts) == 0 {
			c.Bad(name+"/next-chunk-id", c.W.Pos(rbCalls[0].Pos()), "nextChunkID is not chosen between 'next in order' and -1")
		} else {
			k := strings.TrimSuffix(strings.TrimPrefix(chunkT, "$1["), "]") // chunkIDs[i]
			okNext, okLast := false, false
			var shown []string
			for _, na := range nalts {
				et, must := na.term, na.must
				shown = append(shown, et)
				idx := ""
				if j := strings.LastIndex(k, "["); j > 0 {
					idx = strings.TrimSuffix(k[j+1:], "]")
				}
				base := ""
				if j := strings.LastIndex(k, "["); j > 0 {
					base = k[:j]
				}
				if et == base+"["+addOne(idx)+"]" && hasLit(must, "+"+ltTerm(idx, "builtin:len("+base+")-1")) {
					okNext = true
				} else if et == "-1" && hasLit(must, "-"+ltTerm(idx, "builtin:len("+base+")-1")) {
					okLast = true
				} else {
					okNext, okLast = false, false
					break
				}
			}
			c.Check(okNext && okLast, name+"/next-chunk-id", nxPos, "nextChunkID = id that follows in the order, -1 for the last chunk", "nextChunkID is not (order[i+1] if i < len-1 else -1): "+pretty(fmt.Sprint(shown)))
		}
		// error from renderStatements is propagated
		_ = a
	} else {
		c.Bad(name+"/body-loop", c.W.FuncPos(fn), "expected one renderStatements and one renderBranching call")
	}
}

func sameLoop(a, b *ssa.BasicBlock) bool {
	lh := loopHeaders(a.Parent())
	return lh[a] != nil && lh[a] == lh[b]
}

// sameMapCell: the closure binding is the address of the local that holds the map named by mapTerm.
func sameMapCell(c *Ctx, fn *ssa.Function, binding ssa.Value, mapTerm string) bool {
	a, ok := binding.(*ssa.Alloc)
	if !ok {
		return false
	}
	for _, ref := range *a.Referrers() {
		if st, ok := ref.(*ssa.Store); ok && st.Addr == ssa.Value(a) && c.term(fn, st.Val) == mapTerm {
			return true
		}
	}
	return false
}

func dropAtoms(d dnf, drop func(string) bool) dnf {
	out := dnf{unknown: d.unknown}
	for _, cj := range d.cs {
		var n conj
		for _, l := range cj {
			if !drop(l[1:]) {
				n = append(n, l)
			}
		}
		out.cs = append(out.cs, n)
	}
	out.cs = simplify(out.cs)
	return out
}

func c04c(c *Ctx) {
	// every &jump{destChunkID: X} / breakContext / leaf / conditionDestination destination is
	// a chunk id created in the same function, a return id (split result / parameter), the
	// entry id returned by a condition constructor, or a value read from the break tables.
	for _, fn := range c.W.FuncsOf("emitter") {
		infos := c.chunkAllocs(fn)
		ids := map[string]bool{}
		for _, ci := range infos {
			ids[ci.id] = true
		}
		var checkTerm func(a *ssa.Alloc, typ, field string, mayLeave bool, v string)
		check := func(a *ssa.Alloc, typ, field string, mayLeave bool) {
			use := lastUse(a)
			// a destination chosen among alternatives (`dest := body.id; if cond { dest = entry }`):
			// every alternative is checked
			if fv := fieldValue(a, field, use); fv != nil {
				if _, isPhi := fv.(*ssa.Phi); isPhi {
					var leaves []ssa.Value
					phiLeaves(fv, map[ssa.Value]bool{}, &leaves)
					for _, lf := range leaves {
						checkTerm(a, typ, field, mayLeave, c.term(fn, lf))
					}
					return
				}
			}
			checkTerm(a, typ, field, mayLeave, c.fieldAtUse(fn, a, field, use))
		}
		checkTerm = func(a *ssa.Alloc, typ, field string, mayLeave bool, v string) {
			pos := c.W.Pos(a.Pos())
			key := fmt.Sprintf("%s/%s.%s[%s]", c.W.FuncKey(fn), typ, field, pretty(v))
			switch {
			case ids[v]:
				c.OK(key, pos, "destination is the id of a chunk created here")
			case strings.HasPrefix(v, "emitter.splitBooleanExpressionChunks@") && (strings.HasSuffix(v, "#2") || strings.HasSuffix(v, "#1.id")):
				c.OK(key, pos, "destination is the entry/link chunk reported by the condition constructor")
			case strings.HasPrefix(v, "phi(") && strings.Contains(v, "initialEntryChunkID"):
				c.OK(key, pos, "destination is the merged entry id of the condition (checked in C01.e)")
			case v == splitR || (strings.HasPrefix(v, "$") && !strings.Contains(v, ".")):
				c.Check(mayLeave || fn.Name() == "createConditionDestination" || strings.HasPrefix(v, "$"), key, pos, "destination is a return id / parameter handed in by the caller", "a destination that may be 'leave' (-1) is stored in "+typ+"."+field+", which is rendered without a -1 test")
			case strings.Contains(v, "]#0") && strings.Contains(v, ".ScopeStatment"):
				// the point after the loop / switch that is broken out of: a return id, which is
				// 'leave' (-1) when that construct is the last statement of the script
				c.Check(mayLeave, key, pos, "destination read from the break table (may be 'leave'; rendered with a -1 test)", "the destination of a break — the return point of the construct it leaves, -1 when that construct ends the script — is stored in "+typ+"."+field+", which is rendered without a -1 test: 'goto <script>_-1', or nothing at all, would be emitted")
			case strings.Contains(v, "]#0") && strings.Contains(v, ".LoopStatment"):
				c.OK(key, pos, "destination read from the continue table (a loop's entry chunk)")
			default:
				c.Bad(key, pos, typ+"."+field+" is set to "+pretty(v)+", which is not a chunk id created here, a return id, or a condition entry id")
			}
		}
		for _, a := range allocsOf(fn, "emitter", "jump") {
			check(a, "jump", "destChunkID", false)
		}
		for _, a := range allocsOf(fn, "emitter", "breakContext") {
			check(a, "breakContext", "destChunkID", true)
		}
		for _, a := range allocsOf(fn, "emitter", "leafExpressionBranch") {
			check(a, "leafExpressionBranch", "falseyReturnID", true)
		}
		for _, a := range allocsOf(fn, "emitter", "conditionDestination") {
			check(a, "conditionDestination", "id", false)
		}
	}
}

func c04f(c *Ctx) {
	fn := c.Fn("emitter.optimizeChunkOrder")
	if fn == nil {
		return
	}
	// the search for "any chunk not yet listed" looks at every id: each loop of the function other
	// than the outer one runs exactly while its counter is below the number of chunks (one short,
	// and the chunk with the highest id is never found: the outer loop then never ends)
	for _, b := range fn.Blocks {
		if !isLoopHeader(b) {
			continue
		}
		ifi, isIf := b.Instrs[len(b.Instrs)-1].(*ssa.If)
		if !isIf {
			continue
		}
		t := verRe.ReplaceAllString(c.term(fn, ifi.Cond), "")
		if !strings.Contains(t, " < ") || strings.Contains(t, "rangeindex") || strings.Contains(t, "next?") {
			continue
		}
		okT := regexpMust(`^\((phi\([^)]*\)(#\d+)?|builtin:len\(phi\([^)]*\)(#\d+)?\)) < builtin:len\(\$0\)\)$`).MatchString(t)
		c.Check(okT, "optimizeChunkOrder/loop-bound@"+c.W.Pos(ifi.Pos()), c.W.Pos(ifi.Pos()), "the loop runs while its counter is below the number of chunks", "a loop of optimizeChunkOrder runs under "+pretty(t)+", expected a counter compared with len(chunks) itself: with a smaller bound some chunk is never reached and the ordering does not terminate")
	}
	// completeness: the order is handed back only when it is as long as the table of chunks (or
	// the table is empty). With every listed id taken out of the not-yet-listed set (below), an
	// order of that length lists every chunk.
	for i, r := range returnsOf(fn) {
		okR := false
		var lits []string
		for _, l := range c.mustLits(fn, r.Block()) {
			l = verRe.ReplaceAllString(l, "")
			lits = append(lits, l)
			if regexpMust(`^-\(builtin:len\(.*\) < builtin:len\(\$0\)\)$`).MatchString(l) || l == "+(builtin:len($0) == 0)" || l == "-(0 < builtin:len($0))" || l == "+(builtin:len($0) <= 0)" {
				okR = true
			}
		}
		if !okR {
			// the block after the loop: entered only from the loop test `len(order) < len(chunks)` failing
			b := r.Block()
			okR = len(b.Preds) > 0
			for _, p := range b.Preds {
				ifi, isIf := p.Instrs[len(p.Instrs)-1].(*ssa.If)
				if !isIf || len(p.Succs) != 2 || p.Succs[1] != b {
					okR = false
					continue
				}
				t := verRe.ReplaceAllString(c.term(fn, ifi.Cond), "")
				if !regexpMust(`^\(builtin:len\(.*\) < builtin:len\(\$0\)\)$`).MatchString(t) {
					okR = false
				}
				// what is measured is what is returned
				if bo, isB := ifi.Cond.(*ssa.BinOp); isB {
					if lc, isC := bo.X.(*ssa.Call); !isC || len(lc.Call.Args) != 1 || lc.Call.Args[0] != r.Results[0] {
						okR = false
					}
				}
			}
		}
		c.Check(okR, fmt.Sprintf("optimizeChunkOrder/complete-at-return#%d", i), c.W.Pos(r.Pos()), "the order is returned only once it has as many entries as there are chunks", "optimizeChunkOrder can return under ["+strings.Join(lits, " ")+"] — not known to be the point where the order is as long as the chunk table: chunks could be left out of the optimised output")
	}
	n := 0
	for _, ci := range callsIn(fn) {
		call, ok := ci.(*ssa.Call)
		if !ok || calleeName(call) != "builtin:append" || !reachesReturn(call, 0) {
			continue
		}
		elems := varargElems(call.Call.Args[1])
		if len(elems) != 1 {
			continue
		}
		n++
		x := c.term(fn, elems[0])
		pos := c.W.Pos(call.Pos())
		key := "optimizeChunkOrder/append[" + pretty(x) + "]"
		// paired delete in the same block
		del := false
		for _, in := range call.Block().Instrs {
			if d, ok := in.(*ssa.Call); ok && calleeName(d) == "builtin:delete" && c.term(fn, d.Call.Args[1]) == x {
				del = true
			}
		}
		c.Check(del, key+"/deleted", pos, "the id is removed from the unvisited set when it is listed", "id "+pretty(x)+" is appended to the order without being deleted from the unvisited set (it could be listed twice)")
		if x == "0" {
			c.Check(!isLoopMember(call.Block()), key+"/entry-first", pos, "chunk 0 is listed first, once", "chunk 0 is appended inside the loop")
			continue
		}
		guard := false
		// membership is read with the comma-ok form, or — the set being a map to bool that only
		// ever stores true and shrinks by delete — as the value itself
		onlyTrue := true
		instrs(fn, func(in ssa.Instruction) {
			if mu, ok := in.(*ssa.MapUpdate); ok {
				if k, isC := mu.Value.(*ssa.Const); !isC || k.Value == nil || k.Value.String() != "true" {
					onlyTrue = false
				}
			}
		})
		for _, l := range c.mustLits(fn, call.Block()) {
			if strings.HasPrefix(l, "+") && strings.HasSuffix(l, "["+x+"]#1") {
				guard = true
			}
			if onlyTrue && strings.HasPrefix(l, "+") && strings.HasSuffix(l, "["+x+"]") {
				guard = true
			}
		}
		c.Check(guard, key+"/guarded", pos, "an id is listed only if it is still unvisited", "id "+pretty(x)+" is appended without a membership test in the unvisited set (duplicate or unknown id in the order)")
	}
	c.Check(n == 3, "optimizeChunkOrder/append-sites", c.W.FuncPos(fn), "three places extend the order (entry, tail, lowest unvisited)", fmt.Sprintf("found %d appends to the order, expected 3", n))
}

func c05a(c *Ctx) {
	fn := c.Fn("emitter.Emitter.renderChunks")
	if fn == nil {
		return
	}
	// the option is read through the emitter itself, where every read is counted below: the
	// Emitter is never copied whole (a copy's fields can be read without a trace)
	{
		nCopy := 0
		for _, f := range c.W.Funcs {
			if isTestFunc(c.W, f) || len(f.Blocks) == 0 {
				continue
			}
			instrs(f, func(in ssa.Instruction) {
				u, ok := in.(*ssa.UnOp)
				if !ok || u.Op != token.MUL {
					return
				}
				if _, isStruct := u.Type().Underlying().(*types.Struct); isStruct && typeIs(u.Type(), "emitter", "Emitter") {
					nCopy++
					c.Bad(fmt.Sprintf("emitter-copied/%s#%d", c.W.FuncKey(f), nCopy), c.W.Pos(u.Pos()), c.W.FuncKey(f)+" copies the Emitter: its options (optimize, line markers) could then be read from the copy, outside the places where the rules follow them")
				}
			})
		}
		c.Check(nCopy == 0, "emitter-copied/none", "-", "the Emitter is only used through its pointer", "the Emitter is copied")
	}
	// the emitter renders the program it is given: no emitter function writes into an AST node
	// (New pruning "dead" statements when optimising would change which labels and commands exist)
	{
		eff := c.Eff()
		nAst := 0
		for _, f := range c.W.FuncsOf("emitter") {
			if isTestFunc(c.W, f) {
				continue
			}
			for k, site := range eff.sites[f] {
				if strings.HasPrefix(k, "ast.") || strings.HasPrefix(k, "token.") {
					nAst++
					c.Bad("emitter-writes-ast/"+c.W.FuncKey(f)+"["+k+"]", c.W.Pos(site.Pos()), c.W.FuncKey(f)+" writes "+k+": the emitter would change the program it renders (and could do so depending on its options)")
				}
			}
		}
		c.Check(nAst == 0, "emitter-writes-ast/none", "-", "no emitter function writes a field of an AST node or token it was given", "the emitter modifies the AST")
		// New keeps its arguments as they are
		if nw := c.Fn("emitter.New"); nw != nil {
			for _, fld := range []struct {
				name string
				par  int
			}{{"program", 0}, {"optimize", 1}, {"enableLineMarkers", 2}, {"inputFilepath", 3}} {
				okStore := false
				for _, st := range storesToField(nw, "emitter", "Emitter", fld.name) {
					if fld.par < len(nw.Params) && st.Val == ssa.Value(nw.Params[fld.par]) {
						okStore = true
					} else {
						okStore = false
						break
					}
				}
				c.Check(okStore, "New/keeps-argument/"+fld.name, c.W.FuncPos(nw), "Emitter."+fld.name+" is the constructor's argument, unchanged", "Emitter."+fld.name+" is not simply the constructor's argument")
			}
			// the parser's constructor likewise: lexer, command configuration, font path, font id,
			// line length and switches are kept as they were handed in (a "defensive copy" that
			// aliases or drops entries changes what AutoVar commands, format() and poryswitch see)
			if pn := c.Fn("parser.New"); pn != nil {
				for _, fld := range []struct {
					name string
					par  int
				}{{"l", 0}, {"commandConfig", 1}, {"fontConfigFilepath", 2}, {"defaultFontID", 3}, {"maxLineLength", 4}, {"compileSwitches", 5}} {
					okStore := false
					for _, st := range storesToField(pn, "parser", "Parser", fld.name) {
						if fld.par < len(pn.Params) && st.Val == ssa.Value(pn.Params[fld.par]) {
							okStore = true
						} else {
							okStore = false
							break
						}
					}
					c.Check(okStore, "parser.New/keeps-argument/"+fld.name, c.W.FuncPos(pn), "Parser."+fld.name+" is the constructor's argument, unchanged", "Parser."+fld.name+" is not simply the constructor's argument: what the parser works with is no longer what the caller configured")
				}
			}
			// ... and the optimize argument goes nowhere else (a second field fed from it would be
			// a second switch that the confinement of Emitter.optimize does not see)
			if len(nw.Params) > 1 && nw.Params[1].Referrers() != nil {
				nUse := 0
				okUse := true
				for _, r := range *nw.Params[1].Referrers() {
					if _, isDbg := r.(*ssa.DebugRef); isDbg {
						continue
					}
					nUse++
					st, isSt := r.(*ssa.Store)
					if !isSt {
						okUse = false
						continue
					}
					if _, _, f, ok := fieldAddrOf(st.Addr); !ok || f != "optimize" {
						okUse = false
					}
				}
				c.Check(okUse && nUse == 1, "New/optimize-flows-only-into-its-field", c.W.FuncPos(nw), "the optimize argument is stored in Emitter.optimize and used for nothing else", "the optimize argument of New is used for more than Emitter.optimize: the flag could influence more than the chunk order")
			}
		}
	}
	// all reads of Emitter.optimize
	nReads := 0
	for _, f := range c.W.Funcs {
		instrs(f, func(in ssa.Instruction) {
			fa, ok := in.(*ssa.FieldAddr)
			if !ok || !typeIs(fa.X.Type(), "emitter", "Emitter") || fieldName(fa.X.Type(), fa.Field) != "optimize" {
				return
			}
			for _, r := range *fa.Referrers() {
				if u, ok := r.(*ssa.UnOp); ok {
					nReads++
					c.Check(f == fn, "optimize-read/"+c.W.FuncKey(f), c.W.Pos(u.Pos()), "optimize is read only where the chunk order is chosen", "Emitter.optimize is read in "+c.W.FuncKey(f)+": the flag could influence more than the chunk order")
					if f != fn {
						continue
					}
					// only use: an If
					refs := *u.Referrers()
					onlyIf := len(refs) == 1
					var ifi *ssa.If
					if onlyIf {
						ifi, onlyIf = refs[0].(*ssa.If)
					}
					if !onlyIf {
						c.Bad("optimize-read/single-branch", c.W.Pos(u.Pos()), "the flag value is used for more than one branch decision")
						continue
					}
					// blocks exclusive to either arm: dominated by a successor of the If and not the join
					b := ifi.Block()
					join := joinOf(b)
					if join == nil {
						c.Bad("optimize-read/join", c.W.Pos(u.Pos()), "cannot find where the two arms of the optimize branch join")
						continue
					}
					clean := true
					why := ""
					for _, blk := range f.Blocks {
						if blk == b || blk == join || !(b.Succs[0].Dominates(blk) || b.Succs[1].Dominates(blk)) || join.Dominates(blk) {
							continue
						}
						for _, in := range blk.Instrs {
							switch x := in.(type) {
							case ssa.CallInstruction:
								n := calleeName(x)
								// (or a helper of the package that writes nothing and hands back a list of ids)
								pureIDs := false
								if g := callee(x); g != nil && c.W.InRepo(g) && c.W.PkgShort(g) == "emitter" && c.T(f).purity(g) >= purReadOnly && g.Signature.Results().Len() == 1 && types.TypeString(g.Signature.Results().At(0).Type(), nil) == "[]int" {
									pureIDs = true
								}
								if n != "builtin:append" && n != "sort.Ints" && n != c.W.ModPath+"/emitter.optimizeChunkOrder" && n != "builtin:len" && !pureIDs {
									clean = false
									why = "calls " + n
								}
							case *ssa.MapUpdate:
								clean = false
								why = "updates a map"
							case *ssa.Store:
								if _, fresh := rootValue(x.Addr).(*ssa.Alloc); !fresh {
									clean = false
									why = "writes memory"
								}
							}
						}
					}
					c.Check(clean, "optimize-branch/only-computes-order", c.W.Pos(ifi.Pos()), "the two arms only compute an id order (optimizeChunkOrder / sorted keys)", "an arm of the optimize branch "+why)
					nPhi := 0
					okType := true
					for _, in := range join.Instrs {
						if p, ok := in.(*ssa.Phi); ok {
							nPhi++
							if sl, ok := p.Type().Underlying().(*types.Slice); !ok || !types.Identical(sl.Elem(), types.Typ[types.Int]) {
								okType = false
							}
						}
					}
					c.Check(nPhi == 1 && okType, "optimize-branch/only-order-differs", c.W.Pos(ifi.Pos()), "the only value that depends on the flag is the []int chunk order", fmt.Sprintf("%d values depend on the optimize flag after the branch (expected only the []int order)", nPhi))
				}
			}
		})
	}
	c.Check(nReads == 1, "optimize-read/count", c.W.FuncPos(fn), "one read of the flag", fmt.Sprintf("Emitter.optimize is read at %d places, expected 1", nReads))
}

// joinOf finds the nearest block dominated by b (not by one successor alone) where both arms meet.
func joinOf(b *ssa.BasicBlock) *ssa.BasicBlock {
	for _, cand := range b.Dominees() {
		if cand != b.Succs[0] && cand != b.Succs[1] {
			return cand
		}
	}
	// one arm may be empty (successor is the join)
	for _, s := range b.Succs {
		if len(s.Preds) > 1 {
			return s
		}
	}
	return nil
}
