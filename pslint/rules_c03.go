package main

// C03 — switch selects exactly the matching body; C04/C05 clauses that live in the same code.

import (
	"fmt"
	"go/types"
	"sort"
	"strings"

	"golang.org/x/tools/go/ssa"
)

func init() {
	property("C03",
		"Static conformance of the switch lowering: every case-body chunk returns to the statement's return id and is registered under the value / default flag of the case that owns or shares it (same index term), body-less cases scan forward from i+1 and stop at the first body, registered destinations are always ids of enqueued chunks, the default bookkeeping flag is set exactly where a default destination is stored and is consulted at both exits, trailing body-less cases get their own empty chunk when a default body exists, rendering writes 'switch', then one registered 'case' line per entry in order, then the default/return tail by the branch protocol; break-stack pairing and duplicate-case rejection on the parser side. The default-owner and trailing-case registrations are under exactly their condition (C03.a/b); break nodes record the stack top (C20.b).",
		[]string{"scheme argument of DESIGN §4 C01/C03", "go/ssa lowering is faithful to the source"},
		"C03.a", "C03.b", "C03.c", "C03.d", "C03.e", "C01.f", "C10.e", "C20.a", "C20.c", "C13.a", "C01.e", "C01.h", "C20.b", "C10.g", "C08.e", "C18.m", "C19.d", "C18.d", "C18.n", "C05.a", "C19.e")

	register(&Rule{ID: "C03.a", Doc: "case bodies return after the switch and are registered under their own case's value / default flag", Floor: 8, Run: c03a})
	register(&Rule{ID: "C03.b", Doc: "shared bodies: forward scan from i+1 to the first body; registered destinations are chunk ids, never -1", Floor: 6, Run: c03b})
	register(&Rule{ID: "C03.c", Doc: "default bookkeeping consistent at every exit; switch chunk wiring", Floor: 9, Run: c03c})
	register(&Rule{ID: "C03.d", Doc: "switch rendering: header, registered case lines in order, operands of the same entry", Floor: 4, Run: c03d})
	register(&Rule{ID: "C03.e", Doc: "the parser lists the cases of a switch in the order they are written: one entry per parsed case or default, appended in the iteration that parsed it; a registered destination is computed in its own iteration", Floor: 6, Run: c03e})
}

type scbInfo struct {
	a        valInstr // the composite literal, or the call of a constructor helper that returns one
	value    string   // comparisonValue term
	dest     string   // destChunkID term
	destVal  ssa.Value
	isDeflt  bool // stored into switchBranch.defaultCase
	appended bool // appended to the cases list
	must     []string
}

func (c *Ctx) switchCaseBranches(fn *ssa.Function) []scbInfo {
	var out []scbInfo
	for _, a := range allocsOf(fn, "emitter", "switchCaseBranch") {
		use := lastUse(a)
		in := scbInfo{a: a, value: c.fieldAtUse(fn, a, "comparisonValue", use), dest: c.fieldAtUse(fn, a, "destChunkID", use), must: c.mustLits(fn, a.Block())}
		for _, ref := range *a.Referrers() {
			switch r := ref.(type) {
			case *ssa.FieldAddr:
				if fieldName(r.X.Type(), r.Field) == "destChunkID" {
					for _, r2 := range *r.Referrers() {
						if st, ok := r2.(*ssa.Store); ok && st.Addr == ssa.Value(r) {
							in.destVal = st.Val
						}
					}
				}
			case *ssa.Store:
				if r.Val == ssa.Value(a) {
					if _, _, f, ok := fieldAddrOf(r.Addr); ok && f == "defaultCase" {
						in.isDeflt = true
					}
				}
			}
		}
		if len(appendsHolding(a)) > 0 {
			in.appended = true
		}
		out = append(out, in)
	}
	// made by a constructor helper (`newDefaultCaseBranch(stmt, dest)`): fields read through the call
	for _, ci := range callsIn(fn) {
		call, ok := ci.(*ssa.Call)
		g := callee(ci)
		if !ok || g == nil || !c.W.InRepo(g) || g.Signature.Results().Len() != 1 || !typeIs(g.Signature.Results().At(0).Type(), "emitter", "switchCaseBranch") {
			continue
		}
		f := c.valueFields(fn, call, call)
		if f == nil {
			continue
		}
		in := scbInfo{a: call, value: f["comparisonValue"], dest: f["destChunkID"], must: c.mustLits(fn, call.Block())}
		// the destination as a value of fn, when the helper takes it as a parameter
		for _, r := range returnsOf(g) {
			if gf := c.valueFields(g, r.Results[0], r); gf != nil {
				if k := paramIndexOfTerm(gf["destChunkID"]); k >= 0 && k < len(call.Call.Args) {
					in.destVal = call.Call.Args[k]
				}
			}
		}
		if call.Referrers() != nil {
			for _, ref := range *call.Referrers() {
				if st, isSt := ref.(*ssa.Store); isSt && st.Val == ssa.Value(call) {
					if _, _, fld, ok := fieldAddrOf(st.Addr); ok && fld == "defaultCase" {
						in.isDeflt = true
					}
				}
			}
			if len(appendsHolding(call)) > 0 {
				in.appended = true
			}
		}
		out = append(out, in)
	}
	sort.SliceStable(out, func(i, j int) bool { return out[i].a.Pos() < out[j].a.Pos() })
	return out
}

func caseIndexOf(stmts string) (string, bool) {
	if strings.HasPrefix(stmts, "$0.Cases[") && strings.HasSuffix(stmts, "].Body.Statements") {
		return strings.TrimSuffix(strings.TrimPrefix(stmts, "$0.Cases["), "].Body.Statements"), true
	}
	return "", false
}

func c03a(c *Ctx) {
	name := "emitter.createSwitchStatementChunks"
	fn := c.Fn(name)
	splitFn := c.Fn("emitter.chunk.splitChunkForBranch")
	if fn == nil || splitFn == nil {
		return
	}
	calls := callsToIn(fn, splitFn)
	if len(calls) != 1 {
		c.Bad(name+"/split-call", c.W.FuncPos(fn), "expected exactly one splitChunkForBranch call")
		return
	}
	a := calls[0].Common().Args
	c.Check(c.term(fn, a[0]) == "$2" && c.term(fn, a[1]) == "$1" && c.term(fn, a[2]) == "$4" && c.term(fn, a[3]) == "$3", name+"/split-call", c.W.Pos(calls[0].Pos()), "curChunk.splitChunkForBranch(index, counter, workList)", "splitChunkForBranch called with unexpected arguments")
	scbs := c.switchCaseBranches(fn)
	nBodies := 0
	for _, ci := range c.chunkAllocs(fn) {
		k, ok := caseIndexOf(ci.stmts)
		if !ok {
			continue
		}
		nBodies++
		role := "case-body[" + pretty(k) + "]"
		pos := c.W.Pos(ci.a.Pos())
		c.Check(ci.retID == splitR, name+"/"+role+"/returnID", pos, "case body continues after the switch (no fall-through into the next body)", "case body chunk returns to "+pretty(ci.retID)+", expected the return id of the switch statement")
		c.Check(hasLit(c.mustLits(fn, ci.a.Block()), "+(0 < builtin:len($0.Cases["+k+"].Body.Statements))"), name+"/"+role+"/non-empty", pos, "body chunk only for a case that has a body", "a body chunk is created without testing that Cases["+pretty(k)+"] has statements")
		// default registration for the owner: a defaultCase store with this chunk's id under +Cases[k].IsDefault
		found := false
		for _, s := range scbs {
			if s.isDeflt && s.dest == ci.id && hasLit(s.must, "+$0.Cases["+k+"].IsDefault") && instrDominates(ci.a, s.a) {
				// exactly then: no further condition between "this case owns the body" and "it is the default"
				pc := c.PC(fn)
				if dnfEquiv(pc.canonOf(pc.At(s.a.Block())), dnfAndLit(pc.canonOf(pc.At(ci.a.Block())), "+$0.Cases["+k+"].IsDefault")) {
					found = true
				}
			}
		}
		c.Check(found, name+"/"+role+"/default-owner", pos, "when the case owning this body is 'default' the body is recorded as the default destination", "no default-destination record guarded by Cases["+pretty(k)+"].IsDefault (the case that owns this body) with this chunk's id: a 'default:' that owns the body would never be taken")
	}
	c.Check(nBodies == 2, name+"/body-sites", c.W.FuncPos(fn), "two body-chunk sites: own body and shared (forward-scanned) body", fmt.Sprintf("found %d case-body chunk sites, expected 2", nBodies))
	// every registration is keyed by the right case
	for i, s := range scbs {
		pos := c.W.Pos(s.a.Pos())
		key := fmt.Sprintf("%s/registration#%d", name, i)
		switch {
		case s.isDeflt:
			ok := false
			for _, l := range s.must {
				if strings.HasPrefix(l, "+$0.Cases[") && strings.HasSuffix(l, "].IsDefault") {
					ok = true
				}
			}
			c.Check(ok && !s.appended, key+"(default)", pos, "default destination recorded only for a case flagged IsDefault", "a default destination is recorded on a path where no case is known to be the default")
		case s.appended:
			ok := strings.HasPrefix(s.value, "$0.Cases[") && strings.HasSuffix(s.value, "].Value")
			why := "case line compares with " + pretty(s.value) + ", expected the Value of a case"
			if ok {
				k := strings.TrimSuffix(strings.TrimPrefix(s.value, "$0.Cases["), "].Value")
				if !hasLit(s.must, "-$0.Cases["+k+"].IsDefault") {
					ok = false
					why = "case line for Cases[" + pretty(k) + "] is registered without excluding the default case (its Value is unset)"
				}
			}
			c.Check(ok, key+"(case)", pos, "case line uses the value of a non-default case", why)
		default:
			c.Bad(key, pos, "switchCaseBranch is neither recorded as default nor appended to the case list")
		}
	}
}

func c03b(c *Ctx) {
	name := "emitter.createSwitchStatementChunks"
	fn := c.Fn(name)
	if fn == nil {
		return
	}
	infos := c.chunkAllocs(fn)
	idSet := map[string]bool{}
	for _, ci := range infos {
		idSet[ci.id] = true
	}
	// registered destinations are chunk ids
	for i, s := range c.switchCaseBranches(fn) {
		pos := c.W.Pos(s.a.Pos())
		key := fmt.Sprintf("%s/registration#%d/dest", name, i)
		if idSet[s.dest] {
			c.OK(key, pos, "destination is the id of a chunk created here ("+pretty(s.dest)+")")
			continue
		}
		// merged value: all leaves are chunk ids or -1, and -1 is excluded by a dominating test
		var leaves []ssa.Value
		if s.destVal != nil {
			phiLeaves(s.destVal, map[ssa.Value]bool{}, &leaves)
		}
		ok := len(leaves) > 0
		hasMinus := false
		for _, lf := range leaves {
			if k, isC := intConst(lf); isC && k == -1 {
				hasMinus = true
				continue
			}
			if !idSet[c.term(fn, lf)] {
				ok = false
			}
		}
		if ok && hasMinus {
			ok = hasLit(s.must, "-("+s.dest+" == -1)")
		}
		c.Check(ok, key, pos, "destination is a chunk id on every path (the 'no body' value -1 is excluded by a test)", "case destination "+pretty(s.dest)+" may be -1 or something other than the id of a chunk created here: a 'case' line would reference an undefined label")
	}
	// forward scan: j starts at i+1, advances by one, stops at the first body
	var shared *chunkInfo
	var own *chunkInfo
	for i := range infos {
		if k, ok := caseIndexOf(infos[i].stmts); ok {
			if hasLit(c.mustLits(fn, infos[i].a.Block()), "-(0 < builtin:len($0.Cases[") || containsPrefix(c.mustLits(fn, infos[i].a.Block()), "-(0 < builtin:len($0.Cases[") {
				shared = &infos[i]
			} else {
				own = &infos[i]
			}
			_ = k
		}
	}
	if shared == nil || own == nil {
		c.Bad(name+"/scan/sites", c.W.FuncPos(fn), "cannot tell the own-body site from the shared-body (forward scan) site")
		return
	}
	jTerm, _ := caseIndexOf(shared.stmts)
	iTerm, _ := caseIndexOf(own.stmts)
	var jPhi *ssa.Phi
	instrs(fn, func(in ssa.Instruction) {
		if p, ok := in.(*ssa.Phi); ok && c.term(fn, p) == jTerm {
			jPhi = p
		}
	})
	if jPhi == nil {
		c.Unk(name+"/scan/index", c.W.Pos(shared.a.Pos()), "scan index "+pretty(jTerm)+" is not a loop variable")
		return
	}
	startOK, stepOK := false, false
	for _, e := range jPhi.Edges {
		et := c.term(fn, e)
		if et == iTerm+"+1" {
			startOK = true
		}
		if et == jTerm+"+1" {
			stepOK = true
		}
	}
	// ... up to the last case: the scan goes on while j < len(Cases), and stops for no other
	// reason than having found a body (a scan that gives up after a few cases, or one case early,
	// leaves the cases in front without a destination)
	{
		jh := jPhi.Block()
		okBound := false
		got := ""
		if ifi, isIf := jh.Instrs[len(jh.Instrs)-1].(*ssa.If); isIf {
			got = verRe.ReplaceAllString(c.term(fn, ifi.Cond), "")
			jt := verRe.ReplaceAllString(c.term(fn, jPhi), "")
			okBound = got == "("+jt+" < builtin:len($0.Cases))"
		}
		// (and no test beside it ends the scan: every other way out of the scan loop is the one
		// taken after a body was found)
		body := loopBody(jh)
		for _, b := range fn.Blocks {
			if !body[b] || b == jh {
				continue
			}
			for _, sc := range b.Succs {
				if body[sc] {
					continue
				}
				found := false
				for _, l := range c.edgeMust(fn, b, sc) {
					if strings.HasPrefix(l, "+(0 < builtin:len(") && strings.Contains(l, ".Body.Statements") {
						found = true
					}
				}
				if !found {
					okBound = false
					got += "; also left at " + c.nearPos(b.Instrs[len(b.Instrs)-1])
				}
			}
		}
		c.Check(okBound, name+"/scan/to-the-last-case", c.W.Pos(jPhi.Pos()), "the scan for a shared body looks at every later case", "the forward scan continues under "+pretty(got)+", expected exactly j < len(Cases): a body further down would not be found and the cases in front of it get no destination")
	}
	c.Check(startOK && stepOK, name+"/scan/from-i+1", c.W.Pos(jPhi.Pos()), "the scan for a shared body starts at the next case and advances by one", "the forward scan does not start at i+1 / advance by one (edges: "+pretty(fmt.Sprint(edgeTerms(c, fn, jPhi)))+")")
	// stops at first hit: from the shared-body allocation the scan header is not re-entered within the same outer iteration
	outer := loopHeaders(fn)[jPhi.Block()]
	outerOf := func(b *ssa.BasicBlock) *ssa.BasicBlock {
		// header of the loop that contains the scan loop
		body := loopBody(jPhi.Block())
		for _, p := range jPhi.Block().Preds {
			if !body[p] {
				return loopHeaders(fn)[p]
			}
		}
		return nil
	}
	_ = outer
	oh := outerOf(jPhi.Block())
	_, again := existsPath(pathQuery{from: after(shared.a),
		target: func(in ssa.Instruction) bool { return in.Block() == jPhi.Block() && idxInBlock(in) == 0 },
		stopAt: func(in ssa.Instruction) bool { return oh != nil && in.Block() == oh && idxInBlock(in) == 0 }})
	c.Check(!again, name+"/scan/first-hit", c.W.Pos(shared.a.Pos()), "the scan stops at the first case that has a body", "after finding a body the scan continues (a body-less case could be bound to a later body as well)")
	// every body-less case between i and j is registered with the shared chunk: the apply loop
	applyOK := false
	for _, s := range c.switchCaseBranches(fn) {
		if s.appended && s.dest == shared.id {
			for _, l := range s.must {
				if strings.HasPrefix(l, "+(") && strings.HasSuffix(l, " < "+jTerm+")") {
					applyOK = true
				}
			}
		}
	}
	c.Check(applyOK, name+"/scan/apply-to-all-shared", c.W.Pos(shared.a.Pos()), "all body-less cases before the found body are bound to it", "no registration of the shared body for the body-less cases i..j-1")
	// trailing body-less case with a default body: own empty chunk
	trailing := false
	for _, s := range c.switchCaseBranches(fn) {
		if !s.appended {
			continue
		}
		for _, ci := range infos {
			if ci.id == s.dest && strings.Contains(ci.stmts, "[0]ast.Statement") && ci.retID == splitR {
				neg := false
				for _, l := range s.must {
					if strings.HasPrefix(l, "+(phi(") && strings.HasSuffix(l, " == -1)") {
						neg = true
					}
				}
				// ... exactly when a default destination exists (the bookkeeping flag is set) and the
				// case is not the default itself: without a default body the case has nothing to be
				// kept out of, with one it must not run it
				flagSet, notDefault := false, false
				for _, l := range s.must {
					if strings.HasPrefix(l, "+phi(") && !strings.Contains(l, " == ") && !strings.Contains(l, " < ") {
						flagSet = true
					}
					if strings.HasPrefix(l, "-$0.Cases[") && strings.HasSuffix(l, "].IsDefault") {
						notDefault = true
					}
				}
				if neg && flagSet && notDefault {
					trailing = true
					// ... and under nothing else: relative to the place where "no body was found"
					// is established, the only further conditions are those two
					var ref *ssa.BasicBlock
					for _, b := range fn.Blocks {
						if len(b.Preds) != 1 || !(b == ci.a.Block() || b.Dominates(ci.a.Block())) {
							continue
						}
						lit := c.PC(fn).edgeLit(b.Preds[0], b)
						if strings.HasPrefix(lit, "+(phi(") && strings.HasSuffix(lit, " == -1)") {
							ref = b
						}
					}
					if ref != nil {
						base := map[string]bool{}
						for _, l := range c.mustLits(fn, ref) {
							base[l] = true
						}
						var extra []string
						for _, l := range s.must {
							if base[l] {
								continue
							}
							if strings.HasPrefix(l, "+phi(") && !strings.Contains(l, " == ") && !strings.Contains(l, " < ") {
								continue
							}
							if strings.HasPrefix(l, "-$0.Cases[") && strings.HasSuffix(l, "].IsDefault") {
								continue
							}
							extra = append(extra, l)
						}
						c.Check(len(extra) == 0, name+"/trailing-empty-case/no-further-condition", c.W.Pos(ci.a.Pos()), "the empty chunk is made exactly when a default destination exists and the case is not the default", fmt.Sprintf("the empty chunk for a trailing body-less case is made under further conditions %v: when they fail, the case's value runs the default body", extra))
					} else {
						c.Unk(name+"/trailing-empty-case/no-further-condition", c.W.Pos(ci.a.Pos()), "cannot find the place where 'no body was found' is established")
					}
				}
			}
		}
	}
	c.Check(trailing, name+"/trailing-empty-case", c.W.FuncPos(fn), "a trailing body-less case gets an empty chunk of its own (it must not fall into the default body)", "trailing body-less cases are not given a destination: with a default body present their values would run the default body")
}

func containsPrefix(ls []string, p string) bool {
	for _, l := range ls {
		if strings.HasPrefix(l, p) {
			return true
		}
	}
	return false
}

func edgeTerms(c *Ctx, fn *ssa.Function, p *ssa.Phi) []string {
	var out []string
	for _, e := range p.Edges {
		out = append(out, c.term(fn, e))
	}
	return out
}

func c03c(c *Ctx) {
	name := "emitter.createSwitchStatementChunks"
	fn := c.Fn(name)
	if fn == nil {
		return
	}
	sbs := allocsOf(fn, "emitter", "switchBranch")
	if len(sbs) != 1 {
		c.Bad(name+"/switchBranch", c.W.FuncPos(fn), fmt.Sprintf("expected one switchBranch allocation, found %d", len(sbs)))
		return
	}
	sb := sbs[0]
	var destStore *ssa.Store
	var defStores []*ssa.Store
	for _, ref := range *sb.Referrers() {
		fa, ok := ref.(*ssa.FieldAddr)
		if !ok {
			continue
		}
		for _, r2 := range *fa.Referrers() {
			st, ok := r2.(*ssa.Store)
			if !ok || st.Addr != ssa.Value(fa) {
				continue
			}
			switch fieldName(fa.X.Type(), fa.Field) {
			case "destChunkID":
				destStore = st
			case "defaultCase":
				defStores = append(defStores, st)
			}
		}
	}
	if destStore == nil {
		c.Bad(name+"/no-default-dest", c.W.Pos(sb.Pos()), "switchBranch.destChunkID is never set: a switch without default would jump to chunk 0")
		return
	}
	c.Check(c.term(fn, destStore.Val) == splitR, name+"/no-default-dest", c.W.Pos(destStore.Pos()), "without a default the switch continues at its return id", "switchBranch.destChunkID is "+pretty(c.term(fn, destStore.Val))+", expected the return id of the statement")
	// the flag guarding it
	var flag ssa.Value
	for b := destStore.Block(); b != nil; b = b.Idom() {
		idom := b.Idom()
		if idom == nil {
			break
		}
		if ifi, ok := idom.Instrs[len(idom.Instrs)-1].(*ssa.If); ok && (idom.Succs[0] == b || idom.Succs[1] == b) && idom.Succs[0] != idom.Succs[1] {
			flag = ifi.Cond
			c.Check(idom.Succs[1] == b, name+"/flag-polarity", c.W.Pos(destStore.Pos()), "return-id destination used only when no default was processed", "destChunkID is set when the default flag is true")
			break
		}
	}
	if flag == nil {
		c.Bad(name+"/flag", c.W.Pos(destStore.Pos()), "the no-default destination is not guarded by a 'default processed' flag")
		return
	}
	phis := map[*ssa.Phi]bool{}
	var collect func(v ssa.Value)
	collect = func(v ssa.Value) {
		if p, ok := v.(*ssa.Phi); ok && !phis[p] {
			phis[p] = true
			for _, e := range p.Edges {
				collect(e)
			}
		}
	}
	collect(flag)
	storeBlocks := map[*ssa.BasicBlock]bool{}
	for _, st := range defStores {
		storeBlocks[st.Block()] = true
	}
	setBlocks := map[*ssa.BasicBlock]bool{}
	okEdges := true
	for p := range phis {
		for i, e := range p.Edges {
			if cst, ok := e.(*ssa.Const); ok && cst.Value != nil && cst.Value.String() == "true" {
				pred := p.Block().Preds[i]
				setBlocks[pred] = true
				if !storeBlocks[pred] {
					okEdges = false
				}
			}
		}
	}
	c.Check(okEdges, name+"/flag-set-only-with-default", c.W.FuncPos(fn), "the flag becomes true only where a default destination is stored", "the 'default processed' flag is set on a path that stores no default destination (the switch would lose its 'no match' continuation)")
	for i, st := range defStores {
		c.Check(setBlocks[st.Block()], fmt.Sprintf("%s/default-store#%d/sets-flag", name, i), c.W.Pos(st.Pos()), "storing a default destination sets the flag", "a default destination is stored without setting the 'default processed' flag: destChunkID would override it... and the elision test would ignore it")
	}
	c.Check(len(defStores) == 3, name+"/default-store-count", c.W.FuncPos(fn), "default destination recorded at the three places a default can own or share a body", fmt.Sprintf("found %d default-destination stores, expected 3 (own body, found-by-scan body, shared body)", len(defStores)))
	// early elision return consults the flag
	nEarly := 0
	for _, r := range returnsOf(fn) {
		must := c.mustLits(fn, r.Block())
		if !(containsPrefix(must, "+(phi(") && containsSuffix(must, " == -1)")) {
			continue
		}
		nEarly++
		flagNeg := false
		for p := range phis {
			if hasLit(must, "-"+c.term(fn, p)) {
				flagNeg = true
			}
		}
		emptyCases := containsPrefix(must, "-(0 < builtin:len(phi(")
		noBody := containsPrefix(must, "+(phi(") && containsSuffix(must, " == -1)")
		c.Check(flagNeg && emptyCases && noBody, name+"/elide-only-if-nothing-to-do", c.W.Pos(r.Pos()), "the switch is elided only when no case and no default has a body", fmt.Sprintf("the switch is dropped under %v; it may only be dropped when no case is registered, the remaining cases have no body and no default body was processed", must))
	}
	c.Check(nEarly == 1, name+"/elide-site", c.W.FuncPos(fn), "one elision exit", fmt.Sprintf("found %d early returns inside the case loop, expected 1", nEarly))
	// wiring of the switch chunk
	var swChunk *chunkInfo
	infos := c.chunkAllocs(fn)
	for i := range infos {
		if infos[i].stmts == "zero" || infos[i].stmts == "nil" {
			swChunk = &infos[i]
		}
	}
	if swChunk == nil {
		c.Bad(name+"/switch-chunk", c.W.FuncPos(fn), "cannot find the switch chunk (no statements)")
		return
	}
	// a switch whose branches all decline (no case matches and there is no default, or nothing
	// has a body) goes on after the switch: the switch chunk returns where the statement returns
	c.Check(swChunk.retID == splitR, name+"/switch-chunk-returns-after-switch", c.W.Pos(swChunk.a.Pos()), "the switch chunk returns to the statement's return id", "the switch chunk returns to "+pretty(swChunk.retID)+", expected the return id of the statement ("+pretty(splitR)+"): when no case matches, execution would not continue after the switch")
	for _, r := range returnsOf(fn) {
		dest, isJump := c.structFieldOf(fn, r.Results[1], "emitter", "jump", "destChunkID", r)
		c.Check(isJump && dest == swChunk.id, name+"/entry-jump", c.W.Pos(r.Pos()), "the statement jumps to the switch chunk", "returned jump targets "+pretty(dest)+", expected the switch chunk "+pretty(swChunk.id))
		c.Check(c.term(fn, r.Results[2]) == splitR, name+"/returned-return-id", c.W.Pos(r.Pos()), "returned break target is the statement's return id", "returned return id is "+pretty(c.term(fn, r.Results[2])))
		if mm := c.mustLits(fn, r.Block()); !(containsPrefix(mm, "+(phi(") && containsSuffix(mm, " == -1)")) {
			bb := c.fieldAtUse(fn, swChunk.a, "branchBehavior", r)
			c.Check(bb == c.term(fn, sb), name+"/switch-chunk-branch", c.W.Pos(r.Pos()), "the switch chunk ends with the switch branch", "switch chunk's branch behaviour is "+pretty(bb))
			op := c.fieldAtUse(fn, sb, "operand", r)
			c.Check(op == "$0.Operand", name+"/operand", c.W.Pos(r.Pos()), "switch operand is the statement's operand", "switch operand is "+pretty(op))
		}
	}
}

func containsSuffix(ls []string, s string) bool {
	for _, l := range ls {
		if strings.HasSuffix(l, s) {
			return true
		}
	}
	return false
}

func isLoopMember(b *ssa.BasicBlock) bool {
	return loopHeaders(b.Parent())[b] != nil
}

func c03d(c *Ctx) {
	name := "emitter.switchBranch.renderBranchConditions"
	fn := c.Fn(name)
	if fn == nil {
		return
	}
	var header, caseLine *writeSite
	ws := c.sitesOf(fn)
	for i := range ws {
		switch ws[i].format {
		case "\tswitch %s\n":
			header = &ws[i]
		case "\tcase %s, %s_%d\n":
			caseLine = &ws[i]
		}
	}
	if header == nil || caseLine == nil {
		c.Bad(name+"/lines", c.W.FuncPos(fn), "cannot find the 'switch' header write and the 'case' line write")
		return
	}
	c.Check(len(header.argT) == 1 && header.argT[0] == "$0.operand.Literal", name+"/header-operand", c.W.Pos(header.call.Pos()), "'switch <operand>'", "switch header prints "+header.argT[0])
	domAll := true
	for _, w := range ws {
		if w.depth > 0 && !strings.Contains(w.format, "%s_%d") && !strings.Contains(w.format, "case") {
			continue // lines written by shared helpers that are neither case lines nor jumps (line markers)
		}
		if w.call != header.call && !instrDominates(header.call, w.call) {
			domAll = false
		}
	}
	c.Check(domAll && !isLoopMember(header.call.Block()), name+"/header-first-once", c.W.Pos(header.call.Pos()), "header written once, before everything else", "the switch header is not written exactly once before the case lines")
	// case line: element of range over $0.cases
	if len(caseLine.argT) == 3 {
		v, s, d := caseLine.argT[0], caseLine.argT[1], caseLine.argT[2]
		elem := strings.TrimSuffix(d, ".destChunkID")
		ok := strings.HasPrefix(elem, "$0.cases[") && v == elem+".comparisonValue.Literal" && s == "$2" && d == elem+".destChunkID"
		c.Check(ok, name+"/case-line-operands", c.W.Pos(caseLine.call.Pos()), "'case <value of entry k>, <script>_<destination of entry k>'", fmt.Sprintf("case line prints (%s, %s, %s); value and destination must come from the same entry of s.cases and the label prefix must be the script name", pretty(v), s, pretty(d)))
		// full range in order: index phi from -1 step +1, no early exit from the loop body
		if ph, isPhi := rootIndexPhi(caseLine.argV(2)); isPhi {
			_ = ph
			c.OK(name+"/case-loop", c.W.Pos(caseLine.call.Pos()), "case lines come from a range over s.cases")
		} else {
			idx := strings.TrimSuffix(strings.TrimPrefix(elem, "$0.cases["), "]")
			c.Check(strings.HasPrefix(idx, "phi(") && strings.HasSuffix(idx, "+1"), name+"/case-loop", c.W.Pos(caseLine.call.Pos()), "case lines come from a full in-order range over s.cases", "case lines are not produced by an in-order range over s.cases (index "+pretty(idx)+")")
		}
		h := loopHeaders(fn)[caseLine.call.Block()]
		if h != nil {
			exits := 0
			for b := range loopBody(h) {
				for _, s := range b.Succs {
					if !loopBody(h)[s] && b != h {
						exits++
					}
				}
				if _, isRet := b.Instrs[len(b.Instrs)-1].(*ssa.Return); isRet {
					exits++
				}
			}
			c.Check(exits == 0, name+"/case-loop-complete", c.W.Pos(caseLine.call.Pos()), "no case entry is skipped (no break/return inside the loop)", "the loop over the cases can be left early")
			// ... nor passed over: every turn writes its case line (a `continue` for a case whose
			// body happens to come next loses that case's value)
			if wsk, skip := loopSkip(fn, caseLine.call.(ssa.Instruction)); skip {
				c.Bad(name+"/every-case-rendered", c.W.Pos(caseLine.call.Pos()), "a turn of the loop over the cases can pass ("+c.nearPos(wsk)+") without writing the case line: that value would no longer be tested")
			} else {
				c.OK(name+"/every-case-rendered", c.W.Pos(caseLine.call.Pos()), "every turn writes its case line")
			}
		}
	} else {
		c.Bad(name+"/case-line-operands", c.W.Pos(caseLine.call.Pos()), "case line does not have 3 operands")
	}
	_ = types.Typ
}

// c03e: body-less cases share the body of the case written after them, so the ORDER of
// SwitchStatement.Cases is part of the meaning. (i) The parser appends to Cases only inside the
// case loop, and every iteration that parsed a case body appends an entry before the next case is
// read — a case held back and listed later changes which body its neighbours share. (ii) In the
// emitter the destination registered for a case is computed in the iteration of that case: it
// does not flow in from an earlier iteration through a variable that is not reset.
func c03e(c *Ctx) {
	// a case is the default exactly when it was written as `default`: wherever the parser sets
	// IsDefault it sets it to a constant, true in the arm of the `default` keyword and nowhere else
	// (a default demoted to an ordinary case for any reason is emitted as `case , …` with no value)
	if fn0 := c.Fn("parser.Parser.parseSwitchStatement"); fn0 != nil {
		n := 0
		for _, u := range c.unitOf(fn0) {
			for _, st := range storesToField(u.fn, "ast", "SwitchCase", "IsDefault") {
				n++
				k, isC := st.Val.(*ssa.Const)
				okC := isC && k.Value != nil
				if okC && k.Value.String() == "true" {
					inDefault := false
					for _, l := range c.mustLits(u.fn, st.Block()) {
						if strings.HasPrefix(l, "+($0.curToken") && strings.HasSuffix(l, `.Type == "DEFAULT")`) {
							inDefault = true
						}
					}
					okC = inDefault || u.fn != fn0
				}
				c.Check(okC, fmt.Sprintf("parseSwitchStatement/is-default-is-the-keyword#%d", n), c.W.Pos(st.Pos()), "IsDefault is the constant true in the default arm", "IsDefault is set to "+pretty(c.term(u.fn, st.Val))+" (or outside the default arm): whether a case is the default must depend on the keyword alone")
			}
		}
		c.Check(n >= 1, "parseSwitchStatement/is-default-is-the-keyword", c.W.FuncPos(fn0), "the default case is marked", "no store of SwitchCase.IsDefault found in the switch parser")
	}
	if fn := c.Fn("parser.Parser.parseSwitchStatement"); fn != nil {
		psb := c.Fn("parser.Parser.parseSwitchBlockStatement")
		var appends []*ssa.Call
		for _, st := range storesToField(fn, "ast", "SwitchStatement", "Cases") {
			if call, ok := st.Val.(*ssa.Call); ok && calleeName(call) == "builtin:append" {
				appends = append(appends, call)
				continue
			}
			// a list gathered in a local and stored at the end: the appends that feed it
			var leaves []ssa.Value
			seenL := map[ssa.Value]bool{}
			var gather func(v ssa.Value)
			gather = func(v ssa.Value) {
				if seenL[v] {
					return
				}
				seenL[v] = true
				switch x := v.(type) {
				case *ssa.Phi:
					for _, e := range x.Edges {
						gather(e)
					}
				case *ssa.Call:
					if calleeName(x) == "builtin:append" {
						leaves = append(leaves, x)
						gather(x.Call.Args[0])
					}
				}
			}
			gather(st.Val)
			for _, lf := range leaves {
				appends = append(appends, lf.(*ssa.Call))
			}
		}
		// ... or a helper that does the appending (`addCase(statement, c)`)
		for _, ci := range callsIn(fn) {
			g := callee(ci)
			call, isCall := ci.(*ssa.Call)
			if g == nil || !isCall || g == fn || !c.W.InRepo(g) || len(g.Blocks) == 0 {
				continue
			}
			for _, st := range storesToField(g, "ast", "SwitchStatement", "Cases") {
				if ap, ok := st.Val.(*ssa.Call); ok && calleeName(ap) == "builtin:append" {
					appends = append(appends, call)
					break
				}
			}
		}
		isAppend := func(in ssa.Instruction) bool {
			for _, a := range appends {
				if in == ssa.Instruction(a) {
					return true
				}
			}
			return false
		}
		var head *ssa.BasicBlock
		if psb != nil {
			for _, call := range callsToIn(fn, psb) {
				if h := loopHeaders(fn)[call.Block()]; h != nil {
					head = h
				}
			}
		}
		if head == nil || len(appends) == 0 {
			c.Bad("parseSwitchStatement/case-list", c.W.FuncPos(fn), "cannot find the case loop and the appends to the case list")
		} else {
			body := loopBody(head)
			for i, a := range appends {
				c.Check(body[a.Block()], fmt.Sprintf("parseSwitchStatement/case-appended-in-loop#%d", i), c.W.Pos(a.Pos()), "a case is listed in the iteration that parsed it", "an entry is added to the case list outside the case loop: it would not stand where the case was written, and body-less neighbours would share the wrong body")
			}
			for i, call := range callsToIn(fn, psb) {
				if !body[call.Block()] {
					continue
				}
				_, skip := existsPath(pathQuery{from: after(call.(ssa.Instruction)), avoid: isAppend, edgeOK: notErrorEdge, target: func(in ssa.Instruction) bool {
					if r, ok := in.(*ssa.Return); ok {
						return isSuccessReturn(r)
					}
					return in.Block() == head && in == head.Instrs[0]
				}})
				c.Check(!skip, fmt.Sprintf("parseSwitchStatement/case-listed#%d", i), c.W.Pos(call.Pos()), "every parsed case or default is entered into the case list before the next one is read", "after a case body was parsed the next case (or the end) can be reached without an entry having been added to the case list")
			}
		}
	}
	if fn := c.Fn("emitter.createSwitchStatementChunks"); fn != nil {
		n := 0
		for _, s := range c.switchCaseBranches(fn) {
			if s.destVal == nil {
				continue
			}
			n++
			outer := loopHeaders(fn)[s.a.Block()]
			for outer != nil {
				// outermost loop around the registration = the case loop
				up := (*ssa.BasicBlock)(nil)
				for _, h := range fn.Blocks {
					if h != outer && isLoopHeader(h) && loopBody(h)[outer] {
						up = h
					}
				}
				if up == nil {
					break
				}
				outer = up
			}
			bad := ""
			seen := map[ssa.Value]bool{}
			var walk func(v ssa.Value)
			walk = func(v ssa.Value) {
				p, ok := v.(*ssa.Phi)
				if !ok || seen[v] {
					return
				}
				seen[v] = true
				if outer != nil && p.Block() == outer {
					bad = c.term(fn, p)
					return
				}
				for _, e := range p.Edges {
					walk(e)
				}
			}
			walk(s.destVal)
			c.Check(bad == "", fmt.Sprintf("createSwitchStatementChunks/registration#%d/dest-of-this-iteration", n), c.W.Pos(s.a.Pos()), "the destination of a case is computed in the iteration of that case", "the destination registered for a case can be "+pretty(bad)+", a value carried over from an earlier iteration of the case loop (a variable that is not reset per case): a trailing body-less case would jump into an earlier case's body")
		}
		c.Check(n > 0, "createSwitchStatementChunks/registrations", c.W.FuncPos(fn), fmt.Sprintf("%d registrations", n), "no case registrations found")
	}
}
