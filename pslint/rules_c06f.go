package main

import (
	"fmt"
	"strings"

	"golang.org/x/tools/go/ssa"
)

func init() {
	register(&Rule{ID: "C06.f", Doc: "the parser's tables have owners: the hoisting tables are touched only by the two registering functions (and reset by ParseProgram), the constants table only by the definition parser and the substitution helper, and hoisted data is registered only by the top-level statement parser, after the statement was parsed", Floor: 8, Run: c06f})
}

// c06f (who may touch what). The rules for hoisting (C06.b–d) and for constants (C13) read the
// functions that are supposed to use these tables. That is only the whole story if nobody else
// touches them: an explicit text entered into the dedup set by parseTextStatement, data registered
// early from a condition parser (so that numbering no longer follows the order of appearance), a
// constant looked up through a helper that is handed the table.
func c06f(c *Ctx) {
	owners := map[string][]string{
		"inlineTexts":          {"ParseProgram", "addImplicitTexts"},
		"inlineTextsSet":       {"ParseProgram", "addImplicitTexts"},
		"inlineTextCounts":     {"ParseProgram", "addImplicitTexts"},
		"inlineMovements":      {"ParseProgram", "addImplicitMovements"},
		"inlineMovementsSet":   {"ParseProgram", "addImplicitMovements"},
		"inlineMovementCounts": {"ParseProgram", "addImplicitMovements"},
		"constants":            {"tryReplaceWithConstant", "parseConstant"},
	}
	// a private helper of an owner belongs to the owner
	inUnit := map[string]map[*ssa.Function]bool{}
	for _, os := range owners {
		for _, o := range os {
			if inUnit[o] != nil {
				continue
			}
			inUnit[o] = map[*ssa.Function]bool{}
			if f := c.Fn("parser.Parser." + o); f != nil {
				inUnit[o][f] = true
				if o == "ParseProgram" {
					continue // (everything is a helper of ParseProgram: it resets the tables itself)
				}
				for _, m := range c.unitOf(f) {
					inUnit[o][m.fn] = true
				}
			}
		}
	}
	resetUnit := map[*ssa.Function]bool{}
	if pp := c.Fn("parser.Parser.ParseProgram"); pp != nil {
		for _, ci := range callsIn(pp) {
			if g := callee(ci); g != nil && c.W.InRepo(g) {
				// called by ParseProgram and by nobody else
				only := true
				for _, cs := range c.W.callsTo(g) {
					if cs.Parent() != pp && !isTestFunc(c.W, cs.Parent()) {
						only = false
					}
				}
				if only {
					resetUnit[g] = true
				}
			}
		}
	}
	nTouch := 0
	for _, fn := range c.W.Funcs {
		if isTestFunc(c.W, fn) || len(fn.Blocks) == 0 {
			continue
		}
		k := 0
		instrs(fn, func(in ssa.Instruction) {
			fa, ok := in.(*ssa.FieldAddr)
			if !ok || !typeIs(fa.X.Type(), "parser", "Parser") {
				return
			}
			f := fieldName(fa.X.Type(), fa.Field)
			os, watched := owners[f]
			if !watched {
				return
			}
			nTouch++
			if _, fresh := fa.X.(*ssa.Alloc); fresh {
				return // a parser being made
			}
			okOwner := false
			for _, o := range os {
				if inUnit[o][fn] {
					okOwner = true
				}
			}
			// a helper of ParseProgram that does nothing with the table but make it anew (the
			// reset at the start of a compilation, moved into a function of its own)
			if !okOwner && resetUnit[fn] && fa.Referrers() != nil {
				onlyReset := true
				for _, r := range *fa.Referrers() {
					st, isSt := r.(*ssa.Store)
					if !isSt || st.Addr != ssa.Value(fa) {
						onlyReset = false
						continue
					}
					if _, isMk := st.Val.(*ssa.MakeMap); !isMk && !emptyListValue(st.Val) {
						onlyReset = false
					}
				}
				okOwner = onlyReset
			}
			// the table does not travel either: what is read out of the field is looked up, ranged
			// over, measured, appended to or updated in place — not handed to anybody
			if okOwner && fa.Referrers() != nil {
				for _, r := range *fa.Referrers() {
					ld, isLd := r.(*ssa.UnOp)
					if !isLd || ld.Referrers() == nil {
						continue
					}
					for _, r2 := range *ld.Referrers() {
						switch y := r2.(type) {
						case *ssa.Lookup, *ssa.Range, *ssa.MapUpdate, *ssa.DebugRef, *ssa.Index, *ssa.IndexAddr:
						case *ssa.Call:
							if n := calleeName(y); n != "builtin:len" && n != "builtin:append" && n != "builtin:delete" {
								okOwner = false
							}
						case *ssa.Slice:
						default:
							okOwner = false
						}
					}
				}
			}
			k++
			c.Check(okOwner, fmt.Sprintf("owners/%s/%s#%d", c.W.FuncKey(fn), f, k), c.W.Pos(fa.Pos()), "Parser."+f+" is used by one of its owners ("+strings.Join(os, ", ")+")", c.W.FuncKey(fn)+" touches Parser."+f+" (or hands the table to somebody else); its owners are "+strings.Join(os, ", ")+": the rules that decide hoisting / substitution read those functions and nothing else")
		})
	}
	// the maps the parser is handed (the -s switches, the command configuration, the font table)
	// are input: no function of the parser package — method or not — enters into, or deletes from,
	// a map it reaches through the Parser, other than the owned tables above
	nMapW := 0
	for _, fn := range c.W.FuncsOf("parser") {
		if isTestFunc(c.W, fn) || len(fn.Blocks) == 0 {
			continue
		}
		k := 0
		instrs(fn, func(in ssa.Instruction) {
			var m ssa.Value
			what := ""
			switch x := in.(type) {
			case *ssa.MapUpdate:
				m, what = x.Map, "enters a value into"
			case ssa.CallInstruction:
				if calleeName(x) == "builtin:delete" {
					m, what = x.Common().Args[0], "deletes from"
				}
			}
			if m == nil {
				return
			}
			r := mapRootField(m)
			if r == "" {
				return
			}
			nMapW++
			if _, owned := owners[strings.TrimPrefix(r, "Parser.")]; owned {
				return
			}
			k++
			c.Bad(fmt.Sprintf("input-maps-read-only/%s/%s#%d", c.W.FuncKey(fn), r, k), c.W.Pos(in.Pos()), c.W.FuncKey(fn)+" "+what+" "+r+": what the parser is handed (switches, configuration) is input, and a change made while compiling one text is still there when the next one is compiled")
		})
	}
	c.Check(nMapW >= 5, "input-maps-read-only/census", "-", fmt.Sprintf("%d map writes through the Parser, all into its own tables", nMapW), fmt.Sprintf("only %d map writes through the Parser found", nMapW))
	// registration: only after a whole top-level statement
	nReg := 0
	for _, name := range []string{"addImplicitData", "addImplicitTexts", "addImplicitMovements"} {
		g := c.Fn("parser.Parser." + name)
		if g == nil {
			continue
		}
		for _, ci := range c.W.callsTo(g) {
			caller := ci.Parent()
			if isTestFunc(c.W, caller) {
				continue
			}
			nReg++
			okCaller := caller.Name() == "parseTopLevelStatement" || caller.Name() == "addImplicitData" || inUnit["addImplicitTexts"][caller] || inUnit["addImplicitMovements"][caller]
			if !okCaller {
				// a private helper of the top-level statement parser
				if top := c.Fn("parser.Parser.parseTopLevelStatement"); top != nil {
					for _, m := range c.unitOf(top) {
						if m.fn == caller {
							okCaller = true
						}
					}
				}
			}
			c.Check(okCaller, fmt.Sprintf("registration/%s->%s@%d", caller.Name(), name, c.T(caller).callOrd[ci]), c.W.Pos(ci.Pos()), "hoisted data is registered by the top-level statement parser", caller.Name()+" registers hoisted texts / movements itself: labels are numbered in the order of registration, which must be the order of appearance in the finished statement")
		}
	}
	c.Check(nTouch >= 20 && nReg >= 3, "owners/census", "-", fmt.Sprintf("%d uses of the watched tables, %d registrations", nTouch, nReg), fmt.Sprintf("only %d uses of the watched tables and %d registrations found", nTouch, nReg))
}
