package main

// C17 — compilation is deterministic and independent of unrelated statements.

import (
	"fmt"
	"go/token"
	"go/types"
	"strings"

	"golang.org/x/tools/go/ssa"
)

func init() {
	property("C17",
		"Static determinism and independence: (a) every range over a map only fills a set/map or a slice that is sorted before any other use; (b) no function outside package initialisation writes a package-level variable or a map/slice held in one (no state survives a compilation); (e) the blank line between top-level outputs is written exactly when something was emitted before: its guard reads a counter that goes up by one with every emitted output and with nothing else (not the position of the statement in the file, which also counts statements emitted elsewhere); (c) library code contains no goroutine, channel operation, select, or call into time / math/rand / crypto/rand / environment lookups, and reads files only in LoadFontConfig and main; (d) Emitter fields are written only by New, no emitter function updates a map it did not create itself (the text-label set is filled only in Emit), and the Parser fields written while parsing are exactly the token window, the scope stacks, the font cache, the constant table and the hoisting tables the property allows. The address of a package-level variable is only loaded from (C17.b); map ranges carry only order-insensitive values (C17.a); the font table is read-only once loaded (C17.g). The command-line wrapper adds nothing (C17.h): Emit's result reaches the file or stdout as it is, the file is truncated, flags are never overwritten, no byte of the input is rewritten; map ranges neither return early with an element-derived value nor fill a map under a computed key (C17.a).",
		[]string{"determinism of the Go runtime and of the standard-library functions used (fmt, strings, sort, strconv, regexp, encoding/json)", "go/ssa lowering is faithful to the source"},
		"C17.a", "C17.b", "C17.c", "C17.d", "C17.e", "C17.f", "C20.a", "C06.b", "C20.d", "C17.g", "C17.h", "C06.f", "C10.f", "C05.a", "C18.m", "C18.n", "C18.d", "C19.b")

	register(&Rule{ID: "C17.a", Doc: "map iteration is order-insensitive (fills a set, or a slice sorted before use)", Floor: 4, Run: c17a})
	register(&Rule{ID: "C17.b", Doc: "no package-level state is written outside init", Floor: 1, Run: c17b})
	register(&Rule{ID: "C17.c", Doc: "no goroutines, channels, clocks, randomness or environment in library code; files read only in LoadFontConfig/main", Floor: 3, Run: c17c})
	register(&Rule{ID: "C17.e", Doc: "the separator between top-level outputs depends only on whether something was emitted before", Floor: 3, Run: c17e})
	register(&Rule{ID: "C17.f", Doc: "wiring: each command-line option reaches the constructor parameter and the field of its meaning, with its documented default; the lexer starts at line 1", Floor: 10, Run: c17f})
	register(&Rule{ID: "C17.d", Doc: "emitter state is immutable after New; parser cross-statement state is the allowed set", Floor: 23, Run: c17d})
}

func isTestFunc(w *World, fn *ssa.Function) bool {
	return strings.HasSuffix(w.Fset.Position(fn.Pos()).Filename, "_test.go")
}

func c17a(c *Ctx) {
	for _, fn := range c.W.Funcs {
		instrs(fn, func(in ssa.Instruction) {
			rg, ok := in.(*ssa.Range)
			if !ok {
				return
			}
			if _, isMap := rg.X.Type().Underlying().(*types.Map); !isMap {
				return
			}
			key := c.W.FuncKey(fn) + "/range[" + pretty(c.term(fn, rg.X)) + "]"
			pos := c.W.Pos(rg.Pos())
			// loop = natural loop whose header contains the Next
			var next *ssa.Next
			for _, r := range *rg.Referrers() {
				if n, ok := r.(*ssa.Next); ok {
					next = n
				}
			}
			if next == nil {
				c.Unk(key, pos, "range without next")
				return
			}
			body := loopBody(next.Block())
			var slices []ssa.Value // accumulated slices
			bad := ""
			for b := range body {
				for _, x := range b.Instrs {
					switch y := x.(type) {
					case *ssa.MapUpdate:
						// inserting into a set/map is order-insensitive when the keys are distinct —
						// the key is the key being ranged over — or when the values are equal (a
						// constant, or a value made outside the loop): a key computed from the
						// element (lower-cased, truncated) can collide, and then the last one wins
						keyIsRangeKey := false
						if ex, isEx := y.Key.(*ssa.Extract); isEx && ex.Tuple == ssa.Value(next) && ex.Index == 1 {
							keyIsRangeKey = true
						}
						valSame := false
						switch v := y.Value.(type) {
						case *ssa.Const:
							valSame = true
						case ssa.Instruction:
							valSame = !body[v.Block()]
						default:
							valSame = true // parameters, globals
						}
						if st, isStruct := y.Value.Type().Underlying().(*types.Struct); isStruct && st.NumFields() == 0 {
							valSame = true
						}
						if !keyIsRangeKey && !valSame {
							bad = "enters " + c.term(fn, y.Value) + " under the computed key " + c.term(fn, y.Key) + " (two elements can share that key: which one stays depends on the iteration order)"
						}
					case *ssa.Return:
						// leaving in the middle: which element triggers it first depends on the order,
						// unless what is returned does not depend on the element at all
						for _, res := range y.Results {
							if ri, isI := res.(ssa.Instruction); isI && body[ri.Block()] {
								if k, isC := res.(*ssa.Const); isC && k != nil {
									continue
								}
								bad = "returns " + c.term(fn, res) + " from inside the loop (with several offending elements, which one is reported depends on the iteration order)"
							}
						}
					case *ssa.Store:
						root := rootValue(y.Addr)
						if a, ok := root.(*ssa.Alloc); ok && (a.Comment == "varargs" || body[a.Block()]) {
							continue
						}
						if ia, ok := y.Addr.(*ssa.IndexAddr); ok {
							slices = append(slices, ia.X)
							continue
						}
						if al, ok := y.Addr.(*ssa.Alloc); ok {
							// a local that lives in memory (captured by a closure, address taken): what is
							// left in it after the loop must not depend on which element came last —
							// a constant, a value made outside the loop, or a count (itself plus a constant)
							okVal := false
							switch v := y.Val.(type) {
							case *ssa.Const:
								okVal = true
							case *ssa.BinOp:
								if ld, isLd := v.X.(*ssa.UnOp); isLd && ld.X == ssa.Value(al) {
									_, okVal = v.Y.(*ssa.Const)
								}
								if !okVal && !body[v.Block()] {
									okVal = true
								}
							case ssa.Instruction:
								okVal = !body[v.Block()]
							default:
								okVal = true // parameters, globals
							}
							if okVal {
								continue
							}
							bad = "leaves " + c.term(fn, y.Val) + ", made from the element at hand, in the variable " + c.term(fn, al) + " that outlives the loop (with several matching elements, which one remains depends on the iteration order)"
							continue
						}
						bad = "stores to " + c.term(fn, y.Addr)
					case ssa.CallInstruction:
						n := calleeName(y)
						switch {
						case n == "builtin:append":
							slices = append(slices, y.(ssa.Value))
						case n == "builtin:len" || n == "builtin:delete":
						case pureStd[n]:
						default:
							if f := callee(y); f != nil && c.W.InRepo(f) && c.T(fn).purity(f) >= purReadOnly {
								continue
							}
							bad = "calls " + n
						}
					}
				}
			}
			// leaving the loop in the middle (the exit blocks of an early return are not part of the
			// natural loop): what is returned there must not come from the element at hand
			for b := range body {
				for _, sc := range b.Succs {
					if body[sc] || b == next.Block() {
						continue
					}
					seenB := map[*ssa.BasicBlock]bool{}
					var scan func(x *ssa.BasicBlock, depth int)
					scan = func(x *ssa.BasicBlock, depth int) {
						if seenB[x] || body[x] || depth > 4 {
							return
						}
						seenB[x] = true
						for _, in2 := range x.Instrs {
							if ret, isRet := in2.(*ssa.Return); isRet {
								for _, res := range ret.Results {
									var leaves []ssa.Value
									phiLeaves(res, map[ssa.Value]bool{}, &leaves)
									for _, lf := range leaves {
										// made in the loop body, or afterwards out of something made there
										var derives func(v ssa.Value, depth int) bool
										derives = func(v ssa.Value, depth int) bool {
											ri, isI := v.(ssa.Instruction)
											if !isI || depth > 5 {
												return false
											}
											if ri.Block() != nil && body[ri.Block()] {
												return true
											}
											var ops []*ssa.Value
											for _, op := range ri.Operands(ops) {
												if *op != nil && derives(*op, depth+1) {
													return true
												}
											}
											return false
										}
										if derives(lf, 0) {
											bad = "is left early with " + c.term(fn, lf) + ", made from the element at hand, as the result (with several such elements, which one is reported depends on the iteration order)"
										}
									}
								}
							}
						}
						for _, y := range x.Succs {
							scan(y, depth+1)
						}
					}
					scan(sc, 0)
				}
			}
			// values carried from one iteration to the next: only order-insensitive accumulations
			// (integer arithmetic with the carried value, boolean flags set to a constant); a string
			// built up in map order, or "the last key seen", depends on the order
			for _, x := range next.Block().Instrs {
				ph, isPhi := x.(*ssa.Phi)
				if !isPhi {
					break
				}
				if _, isSlice := ph.Type().Underlying().(*types.Slice); isSlice {
					slices = append(slices, ph)
					continue
				}
				var leaves []ssa.Value
				seenV := map[ssa.Value]bool{ph: true}
				var walk func(v ssa.Value)
				walk = func(v ssa.Value) {
					if seenV[v] {
						return
					}
					seenV[v] = true
					if q, ok := v.(*ssa.Phi); ok && body[q.Block()] {
						for _, e := range q.Edges {
							walk(e)
						}
						return
					}
					leaves = append(leaves, v)
				}
				for i, p := range next.Block().Preds {
					if body[p] {
						walk(ph.Edges[i])
					}
				}
				for _, lf := range leaves {
					okAcc := false
					bt, _ := ph.Type().Underlying().(*types.Basic)
					switch {
					case bt != nil && bt.Info()&types.IsBoolean != 0:
						_, okAcc = lf.(*ssa.Const)
					case bt != nil && bt.Info()&types.IsInteger != 0:
						if bo, ok := lf.(*ssa.BinOp); ok {
							switch bo.Op {
							case token.ADD, token.SUB, token.MUL, token.AND, token.OR, token.XOR:
								okAcc = seenV[bo.X] && !dependsOn(bo.Y, seenV, 0) || (bo.Op != token.SUB && seenV[bo.Y] && !dependsOn(bo.X, seenV, 0))
							}
						}
					}
					if !okAcc {
						bad = "carries " + pretty(c.term(fn, lf)) + " into the next iteration (" + ph.Comment + ")"
					}
				}
			}
			// the key or value of "some" iteration must not leave the loop (`for k := range m { first = k; break }`)
			for _, r := range *next.Referrers() {
				ex, isEx := r.(*ssa.Extract)
				if !isEx || ex.Index == 0 || ex.Referrers() == nil {
					continue
				}
				seenE := map[ssa.Value]bool{}
				var escapes func(v ssa.Value, depth int) bool
				escapes = func(v ssa.Value, depth int) bool {
					if seenE[v] || depth > 6 || v.Referrers() == nil {
						return false
					}
					seenE[v] = true
					for _, u := range *v.Referrers() {
						switch y := u.(type) {
						case *ssa.Phi:
							if !body[y.Block()] {
								return true
							}
							if escapes(y, depth+1) {
								return true
							}
						case *ssa.Convert:
							if escapes(y, depth+1) {
								return true
							}
						case *ssa.Field:
							if escapes(y, depth+1) {
								return true
							}
						case *ssa.Return:
							return true
						default:
							if !body[u.Block()] {
								return true
							}
						}
					}
					return false
				}
				if bad == "" && escapes(ex, 0) {
					bad = "lets the " + []string{"", "key", "value"}[ex.Index] + " of whichever entry comes first leave the loop"
				}
			}
			if bad != "" {
				c.Bad(key, pos, "the body of a range over a map "+bad+", whose effect depends on the iteration order")
				return
			}
			if len(slices) == 0 {
				c.OK(key, pos, "body only fills a set/map")
				return
			}
			// every accumulated slice must be sorted after the loop before any other use
			okAll := true
			for _, s := range slices {
				if !sortedBeforeUse(c, fn, s, body) {
					okAll = false
				}
			}
			c.Check(okAll, key, pos, "the slice filled in map order is sorted before any other use", "a slice is filled in map iteration order and used without being sorted first: output depends on map order")
		})
	}
}

// sortedBeforeUse: a sort.* call on (a value derived from) s exists after the loop, and no
// other use of that value outside the loop is reachable from the loop without passing it.
func sortedBeforeUse(c *Ctx, fn *ssa.Function, s ssa.Value, body map[*ssa.BasicBlock]bool) bool {
	// closure of values derived from s through phi/append/slice
	set := map[ssa.Value]bool{}
	var grow func(v ssa.Value)
	grow = func(v ssa.Value) {
		if set[v] {
			return
		}
		set[v] = true
		if refs := v.Referrers(); refs != nil {
			for _, r := range *refs {
				switch y := r.(type) {
				case *ssa.Phi:
					grow(y)
				case *ssa.Call:
					if calleeName(y) == "builtin:append" && y.Call.Args[0] == v {
						grow(y)
					}
				}
			}
		}
		if p, ok := v.(*ssa.Phi); ok {
			for _, e := range p.Edges {
				grow(e)
			}
		}
		if call, ok := v.(*ssa.Call); ok && calleeName(call) == "builtin:append" {
			grow(call.Call.Args[0])
		}
	}
	grow(s)
	var sorts []ssa.Instruction
	var uses []ssa.Instruction
	for v := range set {
		refs := v.Referrers()
		if refs == nil {
			continue
		}
		for _, r := range *refs {
			if body[r.Block()] {
				continue
			}
			if _, isPhi := r.(*ssa.Phi); isPhi {
				continue
			}
			if call, ok := r.(*ssa.Call); ok {
				n := calleeName(call)
				if n == "sort.Ints" || n == "sort.Strings" || n == "sort.Slice" || n == "sort.SliceStable" {
					sorts = append(sorts, r)
					continue
				}
				if n == "builtin:append" || n == "builtin:len" {
					continue
				}
			}
			if _, ok := r.(*ssa.MakeInterface); ok {
				// e.g. passed to fmt: counts as a use (follow one step)
			}
			uses = append(uses, r)
		}
	}
	if len(sorts) == 0 {
		return false
	}
	isSort := func(in ssa.Instruction) bool {
		for _, x := range sorts {
			if x == in {
				return true
			}
		}
		return false
	}
	for _, u := range uses {
		// is u reachable from the loop body without passing a sort?
		for b := range body {
			last := b.Instrs[len(b.Instrs)-1]
			_, found := existsPath(pathQuery{from: before(last), target: func(in ssa.Instruction) bool { return in == u }, avoid: isSort})
			if found {
				return false
			}
		}
	}
	return true
}

// c17bThroughLoadedPointers: a pointer to a plain value (*int, *string, *bool) that was read out of
// a data structure — a field of a configuration entry, a map value — is only read through. Writing
// through it changes an object somebody else handed in (the command configuration is shared by
// every compilation that uses it).
func c17bThroughLoadedPointers(c *Ctx) {
	n := 0
	for _, fn := range c.W.Funcs {
		if isTestFunc(c.W, fn) || len(fn.Blocks) == 0 {
			continue
		}
		k := 0
		instrs(fn, func(in ssa.Instruction) {
			st, ok := in.(*ssa.Store)
			if !ok {
				return
			}
			pt, ok := st.Addr.Type().Underlying().(*types.Pointer)
			if !ok {
				return
			}
			if _, basic := pt.Elem().Underlying().(*types.Basic); !basic {
				return
			}
			switch a := st.Addr.(type) {
			case *ssa.Alloc, *ssa.FieldAddr, *ssa.IndexAddr, *ssa.Parameter, *ssa.Global, *ssa.FreeVar:
				return
			case *ssa.Call:
				if strings.HasPrefix(calleeName(a), "flag.") {
					return // judged by C17.h
				}
			}
			n++
			k++
			c.Bad(fmt.Sprintf("%s/write-through-loaded-pointer#%d", c.W.FuncKey(fn), k), c.W.Pos(st.Pos()), c.W.FuncKey(fn)+" writes through "+pretty(c.term(fn, st.Addr))+", a pointer it read out of a data structure: the object belongs to whoever handed it in (a shared configuration), and the next compilation sees the change")
		})
	}
	c.OK("write-through-loaded-pointer/scanned", "-", fmt.Sprintf("no store through a pointer to a plain value that was read out of a data structure (%d found)", n))
}

func c17b(c *Ctx) {
	c17bThroughLoadedPointers(c)
	n := 0
	for _, fn := range c.W.Funcs {
		if fn.Name() == "init" || strings.HasPrefix(fn.Name(), "init#") || isTestFunc(c.W, fn) {
			continue
		}
		fk := c.W.FuncKey(fn)
		instrs(fn, func(in ssa.Instruction) {
			switch x := in.(type) {
			case *ssa.Store:
				g, ok := rootValue(x.Addr).(*ssa.Global)
				if !ok {
					// through a pointer held in a package-level variable (`var guard = &T{}`; guard.n++)
					if _, isField := x.Addr.(*ssa.FieldAddr); isField {
						if gg := globalOrigin(x.Addr); gg != nil && gg.Pkg != nil && c.W.InRepoPkg(gg.Pkg.Pkg) {
							g, ok = gg, true
						}
					} else if _, isIdx := x.Addr.(*ssa.IndexAddr); isIdx {
						if gg := globalOrigin(x.Addr); gg != nil && gg.Pkg != nil && c.W.InRepoPkg(gg.Pkg.Pkg) {
							g, ok = gg, true
						}
					}
				}
				if ok {
					n++
					c.Bad(fk+"/writes-global["+g.Name()+"]", c.W.Pos(x.Pos()), "package-level variable "+g.Name()+" is written outside initialisation: state survives from one compilation to the next")
				}
			case *ssa.MapUpdate:
				if g := globalOrigin(x.Map); g != nil {
					n++
					c.Bad(fk+"/updates-global-map["+g.Name()+"]", c.W.Pos(x.Pos()), "map held in package-level variable "+g.Name()+" is updated outside initialisation: state survives from one compilation to the next")
				}
			}
		})
	}
	// a package-level variable that holds a reference (map, slice, pointer, directly or in a
	// field) must not leak it: whoever obtains a copy of the reference could write through it
	// (`cfg := defaultCfg` shares defaultCfg's map). Loads of such variables may only be looked
	// up, indexed, ranged over, measured, compared or passed to functions that do not write
	// through or retain their arguments.
	nRefUses := 0
	for _, fn := range c.W.Funcs {
		if isTestFunc(c.W, fn) {
			continue
		}
		fk := c.W.FuncKey(fn)
		isInit := fn.Name() == "init" || strings.HasPrefix(fn.Name(), "init#")
		instrs(fn, func(in ssa.Instruction) {
			u, ok := in.(*ssa.UnOp)
			if !ok || u.Op != token.MUL {
				return
			}
			g := globalOrigin(u.X)
			if g == nil || g.Pkg == nil || !c.W.InRepoPkg(g.Pkg.Pkg) || !holdsReference(u.Type(), 0) {
				return
			}
			refs := u.Referrers()
			if refs == nil {
				return
			}
			for _, r := range *refs {
				nRefUses++
				okUse := false
				switch y := r.(type) {
				case *ssa.Lookup, *ssa.Index, *ssa.Range, *ssa.DebugRef, *ssa.BinOp, *ssa.IndexAddr, *ssa.Field:
					okUse = true
				case *ssa.FieldAddr:
					okUse = true
				case *ssa.Slice:
					okUse = false
				case *ssa.MapUpdate:
					okUse = isInit && y.Map == ssa.Value(u)
				case ssa.CallInstruction:
					n := calleeName(y)
					if n == "builtin:len" || n == "builtin:cap" || pureStd[n] || readerStd[n] {
						okUse = true
					} else if f := callee(y); f != nil && c.W.InRepo(f) && c.T(fn).purity(f) >= purReadOnly && !holdsReference(f.Signature.Results(), 0) {
						okUse = true
					} else if y.Common().IsInvoke() && strings.HasSuffix(n, ".Error") {
						okUse = true
					}
					// (*regexp.Regexp) methods and the like: the receiver is used, not modified
					if !okUse && y.Common().Signature().Recv() != nil && len(y.Common().Args) > 0 && y.Common().Args[0] == ssa.Value(u) && !c.W.InRepo(callee(y)) && callee(y) != nil {
						okUse = stdReceiverReadOnly(n)
					}
				}
				if isInit {
					okUse = true
				}
				if !okUse {
					c.Bad(fk+"/global-reference-escapes["+g.Name()+"]", c.W.Pos(r.Pos()), "the reference held in package-level variable "+g.Name()+" is copied out ("+fmt.Sprintf("%T", r)+"): data written through the copy would be shared by every later compilation in the process")
					n++
				}
			}
		})
	}
	// the address of a package-level variable is only ever loaded from (or, in init, stored to):
	// handing the address to a call — a method with pointer receiver such as (*sync.Map).Store,
	// (*sync.Once).Do, atomic.AddInt64(&n, 1) — is a write the store scan above cannot see
	nAddr := 0
	for _, fn := range c.W.Funcs {
		if isTestFunc(c.W, fn) || fn.Name() == "init" || strings.HasPrefix(fn.Name(), "init#") {
			continue
		}
		fk := c.W.FuncKey(fn)
		var check func(addr ssa.Value, g *ssa.Global, depth int)
		check = func(addr ssa.Value, g *ssa.Global, depth int) {
			refs := addr.Referrers()
			if refs == nil || depth > 6 {
				return
			}
			for _, r := range *refs {
				nAddr++
				switch y := r.(type) {
				case *ssa.UnOp:
					if y.Op == token.MUL {
						continue
					}
				case *ssa.FieldAddr:
					check(y, g, depth+1)
					continue
				case *ssa.IndexAddr:
					check(y, g, depth+1)
					continue
				case *ssa.DebugRef:
					continue
				case *ssa.Store:
					if y.Addr == addr {
						continue // reported by the store scan
					}
				}
				n++
				c.Bad(fk+"/global-address-escapes["+g.Name()+"]", c.W.Pos(r.Pos()), "the address of package-level variable "+g.Name()+" is handed out ("+fmt.Sprintf("%T", r)+"): whatever receives it can change state that survives from one compilation to the next")
			}
		}
		instrs(fn, func(in ssa.Instruction) {
			for _, op := range in.Operands(nil) {
				if op == nil || *op == nil {
					continue
				}
				g, ok := (*op).(*ssa.Global)
				if !ok || g.Pkg == nil || !c.W.InRepoPkg(g.Pkg.Pkg) {
					continue
				}
				switch y := in.(type) {
				case *ssa.UnOp:
					if y.Op == token.MUL {
						nAddr++
						continue
					}
				case *ssa.FieldAddr:
					check(y, g, 0)
					continue
				case *ssa.IndexAddr:
					check(y, g, 0)
					continue
				case *ssa.DebugRef:
					continue
				case *ssa.Store:
					if y.Addr == ssa.Value(g) {
						continue
					}
				}
				n++
				c.Bad(fk+"/global-address-escapes["+g.Name()+"]", c.W.Pos(in.Pos()), "the address of package-level variable "+g.Name()+" is handed out ("+fmt.Sprintf("%T", in)+"): whatever receives it can change state that survives from one compilation to the next")
			}
		})
	}
	c.OK("global-addresses/scanned", "-", fmt.Sprintf("%d uses of addresses of package-level variables, all loads", nAddr))
	c.OK("global-references/scanned", "-", fmt.Sprintf("%d uses of reference-holding package-level variables, all read-only", nRefUses))
	// evidence that the rule looks at something: count globals
	ng := 0
	for _, p := range c.W.SSA {
		for _, m := range p.Members {
			if _, ok := m.(*ssa.Global); ok {
				ng++
			}
		}
	}
	c.Check(n == 0, "no-global-writes", "-", fmt.Sprintf("%d package-level variables, none written outside init (%d functions scanned)", ng, len(c.W.Funcs)), "package-level state is written at run time")
}

// globalOrigin: v is (a load of) a package-level variable, possibly through phis / field loads.
func globalOrigin(v ssa.Value) *ssa.Global {
	for i := 0; i < 8; i++ {
		switch x := v.(type) {
		case *ssa.UnOp:
			v = x.X
		case *ssa.Global:
			return x
		case *ssa.FieldAddr:
			v = x.X
		case *ssa.IndexAddr:
			v = x.X
		default:
			return nil
		}
	}
	return nil
}

var c17cPurePkgs = map[string]bool{"strings": true, "strconv": true, "fmt": true, "unicode": true, "unicode/utf8": true, "sort": true, "regexp": true, "errors": true, "bytes": true, "math": true, "encoding/json": true, "log": true, "slices": true, "maps": true, "unicode/utf16": true, "text/tabwriter": false}
var c17cPkgSeen = map[string]int{}
var nFmtOps = 0

// printsStably: fmt's default formatting of a value of this type contains no address.
func printsStably(t types.Type, depth int) bool {
	if depth > 6 {
		return false
	}
	if types.Implements(t, errorIface()) || types.Implements(types.NewPointer(t), errorIface()) {
		return true // printed through Error()
	}
	switch u := t.Underlying().(type) {
	case *types.Basic:
		return u.Kind() != types.UnsafePointer && u.Kind() != types.Uintptr
	case *types.Slice:
		return printsStably(u.Elem(), depth+1)
	case *types.Array:
		return printsStably(u.Elem(), depth+1)
	case *types.Map:
		return printsStably(u.Key(), depth+1) && printsStably(u.Elem(), depth+1)
	case *types.Struct:
		for i := 0; i < u.NumFields(); i++ {
			if !printsStably(u.Field(i).Type(), depth+1) {
				return false
			}
		}
		return true
	case *types.Pointer:
		// a pointer at the top is printed as &{…}; what it points to must be address-free, and
		// one level is all fmt follows
		if depth == 0 {
			if st, ok := u.Elem().Underlying().(*types.Struct); ok {
				for i := 0; i < st.NumFields(); i++ {
					if !printsStably(st.Field(i).Type(), depth+2) {
						return false
					}
				}
				return true
			}
		}
		return false
	}
	return false
}

func errorIface() *types.Interface {
	return types.Universe.Lookup("error").Type().Underlying().(*types.Interface)
}

func c17c(c *Ctx) {
	nFmtOps = 0
	c17cPkgSeen = map[string]int{}
	bannedPkg := []string{"time.", "math/rand.", "math/rand/v2.", "crypto/rand.", "(*math/rand.", "(*time."}
	bannedFn := map[string]bool{"os.Getenv": true, "os.Environ": true, "os.LookupEnv": true, "os.Getpid": true, "os.Hostname": true, "os.Getwd": true}
	fileFns := map[string]bool{"io/ioutil.ReadFile": true, "os.ReadFile": true, "os.Open": true, "io/ioutil.ReadAll": true, "os.Create": true, "os.OpenFile": true}
	nCalls := 0
	for _, fn := range c.W.Funcs {
		if isTestFunc(c.W, fn) {
			continue
		}
		lib := c.W.PkgShort(fn) != ""
		fk := c.W.FuncKey(fn)
		instrs(fn, func(in ssa.Instruction) {
			switch x := in.(type) {
			case *ssa.Go:
				c.Bad(fk+"/go", c.W.Pos(x.Pos()), "goroutine started: compilation would no longer be sequential")
			case *ssa.Select:
				c.Bad(fk+"/select", c.W.Pos(x.Pos()), "select statement")
			case *ssa.Send:
				c.Bad(fk+"/send", c.W.Pos(x.Pos()), "channel send")
			case *ssa.MakeChan:
				c.Bad(fk+"/chan", c.W.Pos(x.Pos()), "channel created")
			case ssa.CallInstruction:
				n := calleeName(x)
				nCalls++
				if !lib {
					return
				}
				for _, p := range bannedPkg {
					if strings.HasPrefix(n, p) {
						c.Bad(fk+"/nondeterministic-call["+n+"]", c.W.Pos(x.Pos()), "library code calls "+n+": output could vary between runs")
					}
				}
				if bannedFn[n] {
					c.Bad(fk+"/environment["+n+"]", c.W.Pos(x.Pos()), "library code reads the process environment through "+n)
				}
				// closed world: besides the above, library code only calls into the packages it
				// calls today — text, numbers, sorting, JSON decoding, logging. Anything else of
				// the standard library (os, path/filepath, runtime, net, reflect, unsafe, sync,
				// plugin ...) can make the output depend on where and when the compiler runs.
				if g := callee(x); g != nil && g.Pkg != nil && !c.W.InRepo(g) && !(g.Name() == "init" && fn.Name() == "init") {
					pp := g.Pkg.Pkg.Path()
					okPkg := c17cPurePkgs[pp]
					if pp == "os" || pp == "io/ioutil" {
						okPkg = fileFns[n] // judged below
					}
					if pp == "fmt" && (strings.HasPrefix(n, "fmt.Scan") || strings.HasPrefix(n, "fmt.Fscan") || strings.HasPrefix(n, "fmt.Print")) {
						okPkg = false
					}
					c17cPkgSeen[pp]++
					if !okPkg {
						c.Bad(fk+"/outside-world["+n+"]", c.W.Pos(x.Pos()), "library code calls "+n+": package "+pp+" is none of the text / number / sorting / decoding packages the compiler is built from, so the output may depend on the environment the compiler runs in")
					}
				}
				// what is formatted prints the same on every run: plain values, errors, and
				// lists / tables / records of those — nothing that contains a pointer, an interface
				// or a function, which fmt prints as an address
				if strings.HasPrefix(n, "fmt.") || strings.HasPrefix(n, "log.") {
					for _, a := range x.Common().Args {
						for _, e := range varargElems(a) {
							v := e
							if mi, ok := v.(*ssa.MakeInterface); ok {
								v = mi.X
							}
							nFmtOps++
							if !printsStably(v.Type(), 0) {
								c.Bad(fmt.Sprintf("%s/formatted-operand[%s]@%d", fk, n, c.T(fn).callOrd[x]), c.W.Pos(x.Pos()), n+" is given "+pretty(c.term(fn, v))+" of type "+types.TypeString(v.Type(), nil)+", which contains a pointer, an interface or a function: fmt prints those as addresses, so the text differs from run to run")
							}
						}
					}
				}
				if fileFns[n] && fn.Name() != "LoadFontConfig" {
					c.Bad(fk+"/file-access["+n+"]", c.W.Pos(x.Pos()), "library code touches the file system in "+fk+" (only LoadFontConfig may read its config file)")
				}
			}
		})
	}
	{
		var ps []string
		for k, v := range c17cPkgSeen {
			ps = append(ps, fmt.Sprintf("%s:%d", k, v))
		}
		sortStrings(ps)
		c.OK("library-packages", "-", "standard packages library code calls into: "+strings.Join(ps, " "))
	}
	c.Check(nFmtOps >= 40, "formatted-operands", "-", fmt.Sprintf("%d operands of fmt / log calls in library code print without addresses", nFmtOps), fmt.Sprintf("only %d operands of fmt / log calls found", nFmtOps))
	c.OK("scanned", "-", fmt.Sprintf("%d call sites in %d functions scanned for goroutines, channels, clocks, randomness, environment and file access", nCalls, len(c.W.Funcs)))
	if lf := c.Fn("parser.LoadFontConfig"); lf != nil {
		c.Check(len(callsNamed(lf, "io/ioutil.ReadFile"))+len(callsNamed(lf, "os.ReadFile")) == 1, "LoadFontConfig/reads-config", c.W.FuncPos(lf), "the font config is the one file the library reads", "LoadFontConfig no longer reads exactly one file")
	}
	// positive control compiled into the analyser: the detector recognises a banned name
	hit := false
	for _, p := range bannedPkg {
		if strings.HasPrefix("time.Now", p) {
			hit = true
		}
	}
	c.Check(hit && bannedFn["os.Getenv"], "control/banned-table", "-", "the banned-call table matches time.Now and os.Getenv", "banned-call table is broken")
}

func c17d(c *Ctx) {
	eff := c.Eff()
	// Emitter fields never written outside New
	nE := 0
	for _, fn := range c.W.FuncsOf("emitter") {
		for k, site := range eff.sites[fn] {
			if strings.HasPrefix(k, "emitter.Emitter.") {
				nE++
				c.Bad(c.W.FuncKey(fn)+"/writes["+k+"]", c.W.Pos(site.Pos()), "Emitter field "+k+" is written after construction: emission of one statement could influence the next")
			}
		}
	}
	c.Check(nE == 0, "emitter/immutable-after-New", "-", "no Emitter field is written outside New", "Emitter fields are written after construction")
	// no emitter function updates a map it did not make itself, except Emit's text-label set
	nMU := 0
	for _, fn := range c.W.FuncsOf("emitter") {
		if isTestFunc(c.W, fn) {
			continue
		}
		instrs(fn, func(in ssa.Instruction) {
			mu, ok := in.(*ssa.MapUpdate)
			if !ok {
				return
			}
			nMU++
			key := c.W.FuncKey(fn) + "/map-update[" + pretty(c.term(fn, mu.Map)) + "]"
			c.Check(localMap(mu.Map, fn), key, c.W.Pos(mu.Pos()), "the map updated was created in this function (or captured from its creator)", "an emitter function updates a map handed in from outside ("+pretty(c.term(fn, mu.Map))+"): state leaks between scripts / statements")
		})
	}
	// the font cache is filled once: p.fonts is stored only where it was found nil (a later
	// replacement — with a copy that names another default font, say — makes the layout of a
	// text depend on the format() calls before it)
	{
		n := 0
		for _, fn := range c.W.FuncsOf("parser") {
			if isTestFunc(c.W, fn) {
				continue
			}
			for _, st := range storesToField(fn, "parser", "Parser", "fonts") {
				if _, fresh := rootValue(st.Addr).(*ssa.Alloc); fresh {
					continue
				}
				n++
				guard := false
				for _, l := range c.mustLits(fn, st.Block()) {
					if l == "+($0.fonts == nil)" {
						guard = true
					}
				}
				c.Check(guard, fmt.Sprintf("parser/font-cache-filled-once/%s#%d", c.W.FuncKey(fn), n), c.W.Pos(st.Pos()), "the font cache is stored only where it was found empty", fn.Name()+" replaces the parser's font table although one is already loaded: later texts would be laid out with a different table than earlier ones")
			}
		}
		c.Check(n >= 1, "parser/font-cache-filled-once", "-", fmt.Sprintf("%d stores to Parser.fonts outside construction", n), "no lazy store to Parser.fonts found")
	}
	// ... nor deletes from one (delete is a builtin call, not a map update)
	for _, fn := range c.W.FuncsOf("emitter") {
		if isTestFunc(c.W, fn) {
			continue
		}
		for _, ci := range callsIn(fn) {
			if calleeName(ci) != "builtin:delete" {
				continue
			}
			m := ci.Common().Args[0]
			c.Check(localMap(m, fn), fmt.Sprintf("%s/map-delete[%s]@%d", c.W.FuncKey(fn), pretty(c.term(fn, m)), c.T(fn).callOrd[ci]), c.W.Pos(ci.Pos()), "the map deleted from was created in this function", "an emitter function deletes from a map handed in from outside ("+pretty(c.term(fn, m))+"): state leaks between scripts / statements")
		}
	}
	// parser: fields written while parsing
	allowed := map[string]string{
		"curToken": "token window", "peekToken": "token window", "peek2Token": "token window", "peek3Token": "token window", "peek4Token": "token window",
		"breakStack": "scope stack", "continueStack": "scope stack", "fonts": "font cache (idempotent)",
		"inlineTexts": "hoisting table", "inlineTextsSet": "hoisting table", "inlineTextCounts": "hoisting table",
		"inlineMovements": "hoisting table", "inlineMovementsSet": "hoisting table", "inlineMovementCounts": "hoisting table",
		"textStatements": "explicit texts (emitted after the statements)", "enableEnvironmentErrors": "lint flag (NewLintParser only)",
	}
	written := map[string]ssa.Instruction{}
	for _, fn := range c.W.FuncsOf("parser") {
		if isTestFunc(c.W, fn) {
			continue
		}
		for k, site := range eff.sites[fn] {
			if strings.HasPrefix(k, "parser.Parser.") {
				f := strings.TrimPrefix(k, "parser.Parser.")
				if f == "enableEnvironmentErrors" && fn.Name() != "NewLintParser" {
					c.Bad("parser/lint-flag-written/"+c.W.FuncKey(fn), c.W.Pos(site.Pos()), "enableEnvironmentErrors is written outside NewLintParser")
				}
				written[f] = site
			}
		}
		// map updates on parser-held maps
		instrs(fn, func(in ssa.Instruction) {
			if mu, ok := in.(*ssa.MapUpdate); ok {
				t := c.term(fn, mu.Map)
				if strings.HasPrefix(t, "$0.") && fn.Signature.Recv() != nil {
					f := strings.SplitN(strings.TrimPrefix(t, "$0."), "!", 2)[0]
					if _, ok := written[f]; !ok {
						written[f] = in
					}
				}
			}
		})
	}
	for f, site := range written {
		if f == "constants" {
			c.OK("parser/state["+f+"]", c.W.Pos(site.Pos()), "constant table (later uses depend on earlier const definitions by design)")
			continue
		}
		why, ok := allowed[f]
		c.Check(ok, "parser/state["+f+"]", c.W.Pos(site.Pos()), "Parser."+f+": "+why, "Parser field "+f+" is written while parsing; it is not part of the cross-statement state the property allows (token window, scope stacks, constants, hoisting tables, font cache)")
	}
	c.Check(nMU > 0, "emitter/map-updates-scanned", "-", fmt.Sprintf("%d map updates in package emitter", nMU), "no map updates found in package emitter")
}

// localMap: the map value was made in fn (MakeMap), possibly held in a local variable, or is
// a closure variable bound to such a local in the enclosing function.
func localMap(v ssa.Value, fn *ssa.Function) bool {
	switch x := v.(type) {
	case *ssa.MakeMap:
		return true
	case *ssa.Phi:
		for _, e := range x.Edges {
			if !localMap(e, fn) {
				return false
			}
		}
		return true
	case *ssa.UnOp:
		switch a := x.X.(type) {
		case *ssa.Alloc:
			ok := false
			for _, r := range *a.Referrers() {
				if st, isSt := r.(*ssa.Store); isSt && st.Addr == ssa.Value(a) {
					if !localMap(st.Val, fn) {
						return false
					}
					ok = true
				}
			}
			return ok
		case *ssa.FreeVar:
			parent := fn.Parent()
			if parent == nil {
				return false
			}
			idx := -1
			for i, fv := range fn.FreeVars {
				if fv == a {
					idx = i
				}
			}
			ok := false
			instrs(parent, func(in ssa.Instruction) {
				if mc, isMC := in.(*ssa.MakeClosure); isMC && mc.Fn == ssa.Value(fn) && idx >= 0 && idx < len(mc.Bindings) {
					if al, isAl := mc.Bindings[idx].(*ssa.Alloc); isAl {
						for _, r := range *al.Referrers() {
							if st, isSt := r.(*ssa.Store); isSt && st.Addr == ssa.Value(al) && localMap(st.Val, parent) {
								ok = true
							}
						}
					}
				}
			})
			return ok
		}
	}
	return false
}

// holdsReference: a value of type t contains a map, slice, pointer, channel, function or
// interface (directly or inside struct / array fields).
func holdsReference(t types.Type, depth int) bool {
	if depth > 6 {
		return true
	}
	switch x := t.Underlying().(type) {
	case *types.Map, *types.Slice, *types.Pointer, *types.Chan, *types.Signature, *types.Interface:
		return true
	case *types.Struct:
		for i := 0; i < x.NumFields(); i++ {
			if holdsReference(x.Field(i).Type(), depth+1) {
				return true
			}
		}
	case *types.Array:
		return holdsReference(x.Elem(), depth+1)
	case *types.Tuple:
		for i := 0; i < x.Len(); i++ {
			if holdsReference(x.At(i).Type(), depth+1) {
				return true
			}
		}
	}
	return false
}

// stdReceiverReadOnly: methods of library types that read their receiver only.
func stdReceiverReadOnly(n string) bool {
	// (*regexp.Regexp).Longest changes how the shared pattern matches from then on
	if n == "(*regexp.Regexp).Longest" || n == "(*regexp.Regexp).UnmarshalText" {
		return false
	}
	return strings.HasPrefix(n, "(*regexp.Regexp).") || strings.HasPrefix(n, "(*strings.Replacer).")
}

// c17e: Emit separates the outputs of top-level statements by a blank line. Whether one is
// written before an output must depend on nothing but "was anything emitted before": the guard
// of every separator reads a counter that starts at 0 and goes up by one on exactly those ways
// round the statement loop that wrote an output (a text statement is skipped there and emitted
// later; counting it, or reading the loop index, makes the first emitted output depend on the
// text statements that precede it in the file).
func c17e(c *Ctx) {
	fn := c.Fn("emitter.Emitter.Emit")
	if fn == nil {
		return
	}
	sbv := returnedBuilder(fn)
	if sbv == nil {
		c.Bad("Emit/builder", c.W.FuncPos(fn), "cannot find the builder whose text Emit returns")
		return
	}
	isOut := func(in ssa.Instruction) (bool, bool) { // (writes into the builder, is a separator)
		ci, ok := in.(ssa.CallInstruction)
		if !ok || !strings.HasPrefix(calleeName(ci), "(*strings.Builder).Write") || ci.Common().Args[0] != sbv {
			return false, false
		}
		s, isC := strConst(ci.Common().Args[1])
		return true, isC && s == "\n"
	}
	// candidate counters: header phis 0 / +1
	type counter struct {
		phi  *ssa.Phi
		head *ssa.BasicBlock
	}
	var counters []counter
	instrs(fn, func(in ssa.Instruction) {
		p, ok := in.(*ssa.Phi)
		if !ok || !isLoopHeader(p.Block()) {
			return
		}
		zero := false
		for i, e := range p.Edges {
			if k, isC := intConst(e); isC && k == 0 && !p.Block().Dominates(p.Block().Preds[i]) {
				zero = true
			}
		}
		if zero {
			counters = append(counters, counter{p, p.Block()})
		}
	})
	// a counter that is carried on into a later loop is still the counter
	for changed := true; changed; {
		changed = false
		instrs(fn, func(in ssa.Instruction) {
			p, ok := in.(*ssa.Phi)
			if !ok || !isLoopHeader(p.Block()) {
				return
			}
			for _, k := range counters {
				if k.phi == p {
					return
				}
			}
			for i, e := range p.Edges {
				if p.Block().Dominates(p.Block().Preds[i]) {
					continue
				}
				for _, k := range counters {
					if e == ssa.Value(k.phi) {
						counters = append(counters, counter{p, p.Block()})
						changed = true
						return
					}
				}
			}
		})
	}
	nSep := 0
	for _, b := range fn.Blocks {
		for _, in := range b.Instrs {
			w, sep := isOut(in)
			if !w || !sep {
				continue
			}
			nSep++
			pos := c.W.Pos(in.Pos())
			key := fmt.Sprintf("Emit/separator#%d", nSep)
			// the counter its guard reads
			var used *counter
			for _, l := range c.mustLits(fn, b) {
				if !strings.HasPrefix(l, "+(0 < ") {
					continue
				}
				for i := range counters {
					if strings.Contains(l, stripLoopTags(c.term(fn, counters[i].phi))) || strings.Contains(stripLoopTags(l), stripLoopTags(c.term(fn, counters[i].phi))) {
						used = &counters[i]
					}
				}
			}
			if used == nil {
				c.Bad(key+"/guard", pos, "the separator is not written under 'the counter of emitted outputs is positive'")
				continue
			}
			// ... and under nothing else: what distinguishes the separator's block from the block that
			// decides it is that one test (a further conjunct about the neighbouring statements
			// would make the blank lines depend on what is emitted, not on whether something was)
			if d := b.Idom(); d != nil {
				base := map[string]bool{}
				for _, l := range c.mustLits(fn, d) {
					base[l] = true
				}
				var extra []string
				for _, l := range c.mustLits(fn, b) {
					if !base[l] {
						extra = append(extra, l)
					}
				}
				okOnly := len(extra) == 1 && strings.HasPrefix(extra[0], "+(0 < ")
				c.Check(okOnly, key+"/guard-only", pos, "the separator depends on the counter alone", "the separator is written under "+fmt.Sprint(prettyAll(extra))+" beyond what holds where that is decided: expected just 'something was emitted before'")
			}
			// the counter goes up by one exactly on the ways round its loop that wrote an output
			body := loopBody(used.head)
			okCount := true
			why := ""
			for i, e := range used.phi.Edges {
				pred := used.head.Preds[i]
				if !used.head.Dominates(pred) {
					continue
				}
				inc := false
				if bo, ok := e.(*ssa.BinOp); ok && bo.Op == token.ADD && bo.X == ssa.Value(used.phi) {
					if k, isC := intConst(bo.Y); isC && k == 1 {
						inc = true
					}
				}
				isW := func(x ssa.Instruction) bool {
					w, sep := isOut(x)
					return w && !sep && body[x.Block()]
				}
				last := pred.Instrs[len(pred.Instrs)-1]
				_, canSkip := existsPath(pathQuery{from: point{used.head, 0}, avoid: isW, target: func(x ssa.Instruction) bool { return x == last }, stopAt: func(x ssa.Instruction) bool { return !body[x.Block()] }})
				_, canWrite := existsPath(pathQuery{from: point{used.head, 0}, target: func(x ssa.Instruction) bool {
					if !isW(x) {
						return false
					}
					_, on := existsPath(pathQuery{from: after(x), target: func(y ssa.Instruction) bool { return y == last }, stopAt: func(y ssa.Instruction) bool { return y.Block() == used.head && y == used.head.Instrs[0] }})
					return on
				}})
				switch {
				case inc && canSkip:
					okCount, why = false, "the counter is incremented on a way round the loop that writes no output"
				case !inc && e == ssa.Value(used.phi) && canWrite:
					okCount, why = false, "an output is written on a way round the loop that does not count it"
				case !inc && e != ssa.Value(used.phi):
					okCount, why = false, "the counter is changed other than by +1 ("+pretty(c.term(fn, e))+")"
				}
			}
			c.Check(okCount, key+"/counts-emitted-outputs", pos, "the guard's counter goes up by one exactly when an output was written", why+": the separator would depend on statements that are emitted elsewhere or not at all")
		}
	}
	c.Check(nSep >= 1, "Emit/separators", c.W.FuncPos(fn), fmt.Sprintf("%d separator writes", nSep), "no blank-line separator between top-level outputs found")
}

// c17f: the properties speak of options (-optimize, -lm, -i, -s, -f, -fc, -l); the code they are
// checked in speaks of struct fields. This rule closes the gap end to end, by following values,
// not names: the value of flag "optimize" (default true) is what main hands to emitter.New in
// the position of the parameter that New stores into Emitter.optimize, and so on. Renaming a
// parameter or an intermediate field changes nothing; swapping two booleans does.
func c17f(c *Ctx) {
	mainFn := c.W.Func("", "main")
	if mainFn == nil {
		for _, f := range c.W.Funcs {
			if f.Name() == "main" && f.Pkg != nil && f.Pkg.Pkg.Name() == "main" {
				mainFn = f
			}
		}
	}
	if mainFn == nil {
		c.Unk("anchor:main.main", "-", "main.main not found")
		return
	}
	// the text that is compiled is the file as it is: what reaches lexer.New is the bytes that
	// were read (file or standard input), converted to a string and nothing else — a trimmed or
	// otherwise cleaned-up text shifts every line number (markers, errors) against the file
	if lx := c.Fn("lexer.New"); lx != nil {
		var isRead func(f *ssa.Function, v ssa.Value, depth int) string
		isRead = func(f *ssa.Function, v ssa.Value, depth int) string {
			if depth > 6 {
				return "too deep"
			}
			switch x := v.(type) {
			case *ssa.Phi:
				for _, e := range x.Edges {
					if e == v {
						continue
					}
					if w := isRead(f, e, depth+1); w != "" {
						return w
					}
				}
				return ""
			case *ssa.Convert:
				return isRead(f, x.X, depth+1)
			case *ssa.Const:
				return ""
			case *ssa.Extract:
				cl, ok := x.Tuple.(*ssa.Call)
				if !ok {
					break
				}
				switch calleeName(cl) {
				case "io/ioutil.ReadFile", "io/ioutil.ReadAll", "os.ReadFile", "io.ReadAll":
					return ""
				}
				if g := callee(cl); g != nil && c.W.InRepo(g) && len(g.Blocks) > 0 {
					for _, r := range returnsOf(g) {
						if x.Index < len(r.Results) {
							if w := isRead(g, r.Results[x.Index], depth+1); w != "" {
								return w
							}
						}
					}
					return ""
				}
				return "the result of " + calleeName(cl)
			case *ssa.UnOp:
				if a, ok := x.X.(*ssa.Alloc); ok {
					for _, alt := range c.reachingStores(f, a, x) {
						if alt.val != nil {
							if w := isRead(f, alt.val, depth+1); w != "" {
								return w
							}
						}
					}
					return ""
				}
			case *ssa.Call:
				return "the result of " + calleeName(x)
			case *ssa.Parameter:
				// handed in: whatever every caller passes
				idx := -1
				for i, pp := range f.Params {
					if pp == x {
						idx = i
					}
				}
				sites := c.W.callsTo(f)
				if idx < 0 || len(sites) == 0 {
					break
				}
				for _, site := range sites {
					if isTestFunc(c.W, site.Parent()) {
						continue
					}
					if w := isRead(site.Parent(), site.Common().Args[idx], depth+1); w != "" {
						return w
					}
				}
				return ""
			}
			return pretty(c.term(f, v))
		}
		n := 0
		for _, ci := range c.W.callsTo(lx) {
			f := ci.Parent()
			if isTestFunc(c.W, f) || c.W.PkgShort(f) != "" {
				continue
			}
			n++
			why := isRead(f, ci.Common().Args[0], 0)
			c.Check(why == "", fmt.Sprintf("input-text-unchanged/%s@%d", f.Name(), c.T(f).callOrd[ci]), c.W.Pos(ci.Pos()), "the lexer is given the bytes that were read, as a string", "the text handed to the lexer is "+why+", not simply the bytes read from the input: line numbers of markers and errors would no longer be those of the file")
		}
		c.Check(n >= 1, "input-text-unchanged/sites", "-", fmt.Sprintf("%d calls of lexer.New in package main", n), "no call of lexer.New found in package main")
	}
	type want struct {
		ctor, field, flag, def string
	}
	wants := []want{
		{"emitter.New", "optimize", "optimize", "true"},
		{"emitter.New", "enableLineMarkers", "lm", "true"},
		{"emitter.New", "inputFilepath", "i", `""`},
		{"parser.New", "fontConfigFilepath", "fc", `"font_config.json"`},
		{"parser.New", "defaultFontID", "f", `""`},
		{"parser.New", "maxLineLength", "l", "0"},
		{"parser.New", "compileSwitches", "s", ""},
	}
	for _, w := range wants {
		ctor := c.Fn(w.ctor)
		if ctor == nil {
			continue
		}
		key := "option[-" + w.flag + "]->" + w.ctor + "." + w.field
		// the parameter the constructor stores into the field
		pk := -1
		for _, r := range returnsOf(ctor) {
			if f := c.valueFields(ctor, r.Results[0], r); f != nil {
				pk = paramIndexOfTerm(f[w.field])
			}
		}
		if pk < 0 {
			c.Bad(key, c.W.FuncPos(ctor), w.ctor+" does not store one of its parameters into "+w.field)
			continue
		}
		var calls []ssa.CallInstruction
		for _, call := range c.W.callsTo(ctor) {
			if p := call.Parent(); p != nil && p.Pkg == mainFn.Pkg {
				calls = append(calls, call)
			}
		}
		if len(calls) != 1 || pk >= len(calls[0].Common().Args) {
			c.Bad(key, c.W.FuncPos(mainFn), fmt.Sprintf("expected one call of %s in main, found %d", w.ctor, len(calls)))
			continue
		}
		name, def, ok := flagSource(c.W, calls[0].Parent(), calls[0].Common().Args[pk], 0)
		pos := c.W.Pos(calls[0].Pos())
		if !ok {
			c.Unk(key, pos, "cannot follow argument "+pretty(c.term(calls[0].Parent(), calls[0].Common().Args[pk]))+" back to a command-line flag")
			continue
		}
		c.Check(name == w.flag && (w.def == "" || def == w.def), key, pos, "option -"+w.flag+" (default "+w.def+") is what "+w.ctor+" stores into "+w.field, fmt.Sprintf("%s.%s receives option -%s (default %s), expected -%s (default %s)", w.ctor, w.field, name, def, w.flag, w.def))
	}
	// the lexer starts on line 1 with nothing counted, and has read the first character
	if ln := c.Fn("lexer.New"); ln != nil {
		rc := c.Fn("lexer.Lexer.readChar")
		okInit, okRead := false, false
		for _, a := range allocsOf(ln, "lexer", "Lexer") {
			f := c.valueFields(ln, a, a)
			for _, in := range a.Block().Instrs {
				if st, isSt := in.(*ssa.Store); isSt {
					f = c.valueFields(ln, a, st)
				}
			}
			if rc != nil {
				for _, call := range callsToIn(ln, rc) {
					f = c.valueFields(ln, a, call.(ssa.Instruction))
					okRead = call.Common().Args[0] == ssa.Value(a)
				}
			}
			if f != nil {
				okInit = f["lineNumber"] == "1" && f["input"] == "$0"
				for _, z := range []string{"charNumber", "utf8CharNumber", "prevCharNumber", "prevUtf8CharNumber", "position", "readPosition"} {
					okInit = okInit && (f[z] == "0" || f[z] == "zero" || f[z] == "")
				}
			}
		}
		c.Check(okInit && okRead, "lexer.New/initial-state", c.W.FuncPos(ln), "a new lexer is at line 1, column counters 0, and has read the first character", "lexer.New does not start at (line 1, all column counters 0) with the first character read: every reported line / column would be shifted")
	}
}

// flagSource follows v back to the flag it is the value of: *flag.Bool(name, def, …) and
// friends (also the …Var forms), the map registered with flag.Var, through fields of option
// records that helper functions fill and return.
func flagSource(w *World, fn *ssa.Function, v ssa.Value, depth int) (name, def string, ok bool) {
	if depth > 6 {
		return "", "", false
	}
	constArg := func(a ssa.Value) string {
		if k, isC := a.(*ssa.Const); isC {
			if k.Value == nil {
				return "nil"
			}
			return k.Value.ExactString()
		}
		return "?"
	}
	flagCall := func(call *ssa.Call, off int) (string, string, bool) {
		n := calleeName(call)
		if !strings.HasPrefix(n, "flag.") && !strings.HasPrefix(n, "(*flag.FlagSet).") {
			return "", "", false
		}
		a := call.Call.Args
		if len(a) < off+2 {
			return "", "", false
		}
		nm, isS := strConst(a[off])
		if !isS {
			return "", "", false
		}
		return nm, constArg(a[off+1]), true
	}
	// the address registered with flag.XxxVar / flag.Var, or its referrers
	regOf := func(addr ssa.Value) (string, string, bool) {
		if addr.Referrers() == nil {
			return "", "", false
		}
		for _, r := range *addr.Referrers() {
			var x ssa.Value
			if mi, isMI := r.(*ssa.MakeInterface); isMI {
				x = mi
			} else if call, isCall := r.(*ssa.Call); isCall {
				if strings.HasSuffix(calleeName(call), "Var") && len(call.Call.Args) > 0 && call.Call.Args[0] == addr {
					if nm, d, ok := flagCall(call, 1); ok {
						return nm, d, true
					}
				}
				continue
			}
			if x != nil && x.Referrers() != nil {
				for _, r2 := range *x.Referrers() {
					if call, isCall := r2.(*ssa.Call); isCall && calleeName(call) == "flag.Var" {
						if nm, isS := strConst(call.Call.Args[1]); isS {
							return nm, "", true
						}
					}
				}
			}
		}
		return "", "", false
	}
	switch x := v.(type) {
	case *ssa.MakeMap, *ssa.Alloc:
		return regOf(x)
	case *ssa.ChangeType:
		return flagSource(w, fn, x.X, depth+1)
	case *ssa.Call:
		// a record-returning helper is handled by the field case; a flag accessor by value
		return "", "", false
	case *ssa.UnOp:
		if x.Op != token.MUL {
			return "", "", false
		}
		if call, isCall := x.X.(*ssa.Call); isCall {
			return flagCall(call, 0)
		}
		if fa, isFA := x.X.(*ssa.FieldAddr); isFA {
			fname := fieldName(fa.X.Type(), fa.Field)
			if nm, d, ok := regOf(fa); ok {
				return nm, d, true
			}
			a, isA := fa.X.(*ssa.Alloc)
			if !isA || a.Referrers() == nil {
				return "", "", false
			}
			return fieldOrigin(w, fn, a, fname, depth)
		}
		if a, isA := x.X.(*ssa.Alloc); isA {
			if nm, d, ok := regOf(a); ok {
				return nm, d, true
			}
			for _, r := range *a.Referrers() {
				if st, isSt := r.(*ssa.Store); isSt && st.Addr == ssa.Value(a) {
					return flagSource(w, fn, st.Val, depth+1)
				}
			}
		}
	}
	return "", "", false
}

// fieldOrigin: the value of field fname of the record variable a — stored directly, or as part
// of a whole record returned by a helper.
func fieldOrigin(w *World, fn *ssa.Function, a *ssa.Alloc, fname string, depth int) (string, string, bool) {
	for _, r := range *a.Referrers() {
		switch y := r.(type) {
		case *ssa.FieldAddr:
			if fieldName(y.X.Type(), y.Field) != fname {
				continue
			}
			if y.Referrers() == nil {
				continue
			}
			for _, r2 := range *y.Referrers() {
				if st, isSt := r2.(*ssa.Store); isSt && st.Addr == ssa.Value(y) {
					return flagSource(w, fn, st.Val, depth+1)
				}
				if call, isCall := r2.(*ssa.Call); isCall && strings.HasSuffix(calleeName(call), "Var") && len(call.Call.Args) > 2 && call.Call.Args[0] == ssa.Value(y) {
					if nm, isS := strConst(call.Call.Args[1]); isS {
						d := "?"
						if k, isC := call.Call.Args[2].(*ssa.Const); isC && k.Value != nil {
							d = k.Value.ExactString()
						}
						return nm, d, true
					}
				}
			}
		case *ssa.Store:
			if y.Addr != ssa.Value(a) {
				continue
			}
			// whole record: from a helper's return
			if call, isCall := y.Val.(*ssa.Call); isCall {
				if g := callee(call); g != nil && len(g.Blocks) > 0 {
					for _, ret := range returnsOf(g) {
						if len(ret.Results) != 1 {
							continue
						}
						if ld, isLd := ret.Results[0].(*ssa.UnOp); isLd {
							if a2, isA := ld.X.(*ssa.Alloc); isA && a2.Referrers() != nil {
								if nm, d, ok := fieldOrigin(w, g, a2, fname, depth+1); ok {
									return nm, d, true
								}
							}
						}
					}
				}
			}
			if ld, isLd := y.Val.(*ssa.UnOp); isLd {
				if a2, isA := ld.X.(*ssa.Alloc); isA && a2.Referrers() != nil {
					return fieldOrigin(w, fn, a2, fname, depth+1)
				}
			}
			// the record is a parameter: every caller must hand in a record whose field has the same origin
			if par, isPar := y.Val.(*ssa.Parameter); isPar && depth < 5 {
				k := paramIndex(fn, par)
				var nm, d string
				n := 0
				for _, call := range w.callsTo(fn) {
					if k < 0 || k >= len(call.Common().Args) || call.Parent() == nil {
						return "", "", false
					}
					ld, isLd := call.Common().Args[k].(*ssa.UnOp)
					if !isLd {
						return "", "", false
					}
					a2, isA := ld.X.(*ssa.Alloc)
					if !isA || a2.Referrers() == nil {
						return "", "", false
					}
					n2, d2, ok := fieldOrigin(w, call.Parent(), a2, fname, depth+1)
					if !ok || (n > 0 && (n2 != nm || d2 != d)) {
						return "", "", false
					}
					nm, d = n2, d2
					n++
				}
				if n > 0 {
					return nm, d, true
				}
			}
		}
	}
	return "", "", false
}


// dependsOn: v is computed from one of the values in set (through arithmetic, conversions, phis).
func dependsOn(v ssa.Value, set map[ssa.Value]bool, depth int) bool {
	if set[v] {
		return true
	}
	if depth > 6 {
		return true
	}
	switch x := v.(type) {
	case *ssa.BinOp:
		return dependsOn(x.X, set, depth+1) || dependsOn(x.Y, set, depth+1)
	case *ssa.UnOp:
		return dependsOn(x.X, set, depth+1)
	case *ssa.Convert:
		return dependsOn(x.X, set, depth+1)
	case *ssa.Phi:
		for _, e := range x.Edges {
			if e != v && dependsOn(e, set, depth+1) {
				return true
			}
		}
	}
	return false
}
