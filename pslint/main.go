// pslint: repository-specific static analyser deciding the structural clauses of the
// poryscript properties C01..C20 (see /verif/DESIGN.md). It never runs poryscript.
package main

import (
	"strings"

	"encoding/json"
	"flag"
	"fmt"
	"golang.org/x/tools/go/ssa"
	"os"
	"path/filepath"
	"sort"
	"strconv"
	"time"
)

var touchReport func()

func main() {
	prop := flag.String("prop", "", "property id (C01..C20), or 'all'")
	tier := flag.String("tier", "quick", "quick|thorough")
	root := flag.String("root", "/repo", "tree to analyse")
	verif := flag.String("verif", "/verif", "verif directory (evidence, known findings)")
	replay := flag.String("replay", "", "replay file: re-evaluate just that obligation")
	list := flag.Bool("list", false, "list rules and exit")
	dump := flag.Bool("dump", false, "print every obligation")
	noEvidence := flag.Bool("no-evidence", false, "do not write evidence (used for controls / scratch roots)")
	flag.Parse()

	if *list {
		var ps []string
		for p := range propRules {
			ps = append(ps, p)
		}
		sort.Strings(ps)
		for _, p := range ps {
			fmt.Println(p)
			for _, r := range propRules[p] {
				doc := "(missing)"
				if registry[r] != nil {
					doc = registry[r].Doc
				}
				fmt.Printf("  %-8s %s\n", r, doc)
			}
		}
		return
	}
	if t := os.Getenv("VERIF_TIER"); t != "" && !flagSet("tier") {
		*tier = t
	}
	seed := 0
	if s := os.Getenv("VERIF_SEED"); s != "" {
		if n, err := strconv.Atoi(s); err == nil {
			seed = n
		}
	}
	onlyRule, onlyKey := "", ""
	if *replay != "" {
		b, err := os.ReadFile(*replay)
		if err != nil {
			fmt.Fprintln(os.Stderr, err)
			os.Exit(2)
		}
		var rp struct {
			Property   string `json:"property"`
			Obligation Oblig  `json:"obligation"`
		}
		if err := json.Unmarshal(b, &rp); err != nil {
			fmt.Fprintln(os.Stderr, err)
			os.Exit(2)
		}
		*prop = rp.Property
		onlyRule, onlyKey = rp.Obligation.Rule, rp.Obligation.Key
		*noEvidence = true
		*dump = true
	}
	if *prop == "" {
		fmt.Fprintln(os.Stderr, "usage: pslint -prop C07 [-tier quick|thorough] [-root /repo]")
		os.Exit(2)
	}
	verifDirGlobal = *verif
	start := time.Now()
	abs, _ := filepath.Abs(*root)
	w, err := LoadWorld(abs)
	if err != nil {
		fmt.Fprintf(os.Stderr, "pslint: cannot load %s: %v\n", abs, err)
		if *prop != "all" {
			// a tree that does not load is a failed check, never a pass
			path := filepath.Join(*verif, "evidence", "violations", *prop+"-load.json")
			if !*noEvidence { // scratch runs (controls, corpora, red team) leave no files behind
				os.MkdirAll(filepath.Dir(path), 0o755)
				os.WriteFile(path, []byte(fmt.Sprintf("{\"property\":%q,\"error\":%q}\n", *prop, err.Error())), 0o644)
			}
			fmt.Printf("VIOLATION property=%s replay=%s\n", *prop, path)
		}
		os.Exit(1)
	}
	debugTerms(w)
	props := []string{*prop}
	if *prop == "all" {
		props = nil
		for p := range propRules {
			props = append(props, p)
		}
		sort.Strings(props)
	}
	exit := 0
	if os.Getenv("PSLINT_TOUCH") != "" {
		touchLog = map[*ssa.Function]map[string]bool{}
		touchReport = func() {
			// rules that look at more than a third of all functions are scans
			count := map[string]int{}
			for _, rs := range touchLog {
				for r := range rs {
					count[r]++
				}
			}
			var lines []string
			for _, fn := range w.Funcs {
				if isTestFunc(w, fn) || len(fn.Blocks) == 0 {
					continue
				}
				var specific []string
				for r := range touchLog[fn] {
					if count[r]*3 < len(w.Funcs) {
						specific = append(specific, r)
					}
				}
				sort.Strings(specific)
				lines = append(lines, fmt.Sprintf("TOUCH %2d %-60s %s", len(specific), w.FuncKey(fn), strings.Join(specific, " ")))
			}
			sort.Strings(lines)
			for _, l := range lines {
				fmt.Println(l)
			}
		}
	}
	for _, p := range props {
		if _, ok := propRules[p]; !ok {
			fmt.Fprintf(os.Stderr, "pslint: unknown property %s\n", p)
			os.Exit(2)
		}
		t0 := time.Now()
		res := runProperty(w, p, *tier, onlyRule, onlyKey)
		extra := map[string]interface{}{}
		if *tier == "thorough" && *replay == "" {
			runControls(w, *verif, p, extra)
		}
		if *dump {
			for _, o := range res.obs {
				fmt.Printf("%-10s %-10s %-28s %s :: %s\n", o.Rule, o.Status, o.Pos, o.Key, o.Detail)
			}
		}
		wall := time.Since(t0).Seconds()
		if len(props) == 1 {
			wall = time.Since(start).Seconds()
		}
		if *noEvidence {
			bad := 0
			for _, o := range res.obs {
				if o.Status != stOK {
					bad++
					fmt.Printf("FAIL %s [%s] %s %s :: %s\n", o.Rule, o.Status, o.Pos, o.Key, o.Detail)
				}
			}
			fmt.Printf("pslint %s: %d obligations, %d not discharged\n", p, len(res.obs), bad)
			if bad > 0 {
				exit = 1
			}
			continue
		}
		if rc := report(w, *verif, p, *tier, seed, res, wall, extra); rc != 0 {
			exit = rc
		}
	}
	if touchReport != nil {
		touchReport()
	}
	os.Exit(exit)
}

func flagSet(name string) bool {
	set := false
	flag.Visit(func(f *flag.Flag) {
		if f.Name == name {
			set = true
		}
	})
	return set
}
