package main

import (
	"go/token"
	"go/types"
	"fmt"
	"go/constant"
	"strings"

	"golang.org/x/tools/go/ssa"
)

func init() {
	register(&Rule{ID: "C17.h", Doc: "the command-line wrapper adds nothing: what Emit returned is what is written — as it is, into a file that is emptied first — and option values are what the flags were given", Floor: 4, Run: c17h})
}

// c17h: package main sits between every property and the user. The library rules decide what
// Emit returns; this one decides that the wrapper hands exactly that on.
func c17h(c *Ctx) {
	var mains []*ssa.Function
	for _, fn := range c.W.Funcs {
		if fn.Pkg != nil && fn.Pkg.Pkg.Name() == "main" && !isTestFunc(c.W, fn) && len(fn.Blocks) > 0 {
			mains = append(mains, fn)
		}
	}
	emit := c.Fn("emitter.Emitter.Emit")
	if len(mains) == 0 || emit == nil {
		c.Unk("main", "-", "package main or Emit not found")
		return
	}
	isSink := func(n string) bool {
		switch n {
		case "fmt.Print", "io.WriteString", "(*os.File).WriteString", "fmt.Fprint", "(*bufio.Writer).WriteString", "os.WriteFile", "io/ioutil.WriteFile":
			return true
		}
		return false
	}
	// (1, 2) follow the text from Emit's result to the sinks: through parameters of functions of
	// package main, through conversions to an interface / []byte and argument lists — and
	// through nothing else
	nSinks := 0
	sinkCalls := map[*ssa.Function][]ssa.CallInstruction{}
	var follow func(fn *ssa.Function, v ssa.Value, depth int)
	seen := map[ssa.Value]bool{}
	follow = func(fn *ssa.Function, v ssa.Value, depth int) {
		if seen[v] || v.Referrers() == nil || depth > 6 {
			return
		}
		seen[v] = true
		for _, r := range *v.Referrers() {
			switch y := r.(type) {
			case *ssa.DebugRef:
			case *ssa.Extract:
				if y.Index == 0 {
					follow(fn, y, depth)
				}
			case *ssa.Return:
				// handed back by a helper of package main (`return e.Emit()`): on to its callers
				idx := -1
				for i, res := range y.Results {
					if res == v {
						idx = i
					}
				}
				for _, cs := range c.W.callsTo(fn) {
					cv := cs.Value()
					if cv == nil || idx < 0 {
						continue
					}
					if len(y.Results) == 1 {
						follow(cs.Parent(), cv, depth+1)
						continue
					}
					if cv.Referrers() != nil {
						for _, r2 := range *cv.Referrers() {
							if ex, isEx := r2.(*ssa.Extract); isEx && ex.Index == idx {
								follow(cs.Parent(), ex, depth+1)
							}
						}
					}
				}
			case *ssa.MakeInterface:
				follow(fn, y, depth)
			case *ssa.Convert:
				follow(fn, y, depth) // string -> []byte
			case *ssa.Phi:
				follow(fn, y, depth)
			case *ssa.Store:
				// into the argument list of a variadic call
				if ia, ok := y.Addr.(*ssa.IndexAddr); ok {
					if arr, isA := ia.X.(*ssa.Alloc); isA && arr.Comment == "varargs" && arr.Referrers() != nil {
						for _, r2 := range *arr.Referrers() {
							if sl, isSl := r2.(*ssa.Slice); isSl {
								follow(fn, sl, depth)
							}
						}
						continue
					}
				}
				c.Bad(fmt.Sprintf("output/%s/stored@%s", fn.Name(), c.W.Pos(y.Pos())), c.W.Pos(y.Pos()), "the compiled text is stored somewhere on its way out ("+pretty(c.term(fn, y.Addr))+")")
			case ssa.CallInstruction:
				n := calleeName(y)
				if isSink(n) {
					nSinks++
					sinkCalls[fn] = append(sinkCalls[fn], y)
					c.OK(fmt.Sprintf("output/%s/written@%d", fn.Name(), c.T(fn).callOrd[y]), c.W.Pos(y.Pos()), "written with "+n)
					continue
				}
				if g := callee(y); g != nil && g.Pkg != nil && g.Pkg.Pkg.Name() == "main" && len(g.Blocks) > 0 {
					for i, a := range y.Common().Args {
						if a == v && i < len(g.Params) {
							follow(g, g.Params[i], depth+1)
						}
					}
					continue
				}
				if n == "builtin:len" {
					continue
				}
				c.Bad(fmt.Sprintf("output/%s/reworked[%s]@%d", fn.Name(), n, c.T(fn).callOrd[y]), c.W.Pos(y.Pos()), "the text Emit returned is handed to "+n+" before it is written: the output is no longer what the emitter produced (markers, blank lines and directives are part of it)")
			case *ssa.BinOp, *ssa.Slice, *ssa.Index, *ssa.Lookup, *ssa.Range:
				c.Bad(fmt.Sprintf("output/%s/reworked@%s", fn.Name(), c.W.Pos(r.Pos())), c.W.Pos(r.Pos()), "the text Emit returned is taken apart or concatenated before it is written")
			}
		}
	}
	nEmit := 0
	for _, fn := range mains {
		for _, ci := range callsIn(fn) {
			if callee(ci) == emit {
				nEmit++
				if v := ci.Value(); v != nil {
					follow(fn, v, 0)
				}
			}
		}
	}
	// ... and it is written on every way that ends well: in a function that writes the text, no
	// successful return is reached past all the writes (a branch that forgets to print)
	for _, fn := range mains {
		calls := sinkCalls[fn]
		if len(calls) == 0 {
			continue
		}
		isWrite := func(in ssa.Instruction) bool {
			for _, sc := range calls {
				if in == sc.(ssa.Instruction) {
					return true
				}
			}
			return false
		}
		w, skips := existsPath(pathQuery{from: entry(fn), avoid: isWrite, target: func(in ssa.Instruction) bool {
			r, isRet := in.(*ssa.Return)
			return isRet && isSuccessReturn(r)
		}})
		where := ""
		if skips {
			where = c.nearPos(w)
		}
		c.Check(!skips, "output/"+fn.Name()+"/written-on-every-way", c.W.FuncPos(fn), "every successful return of the writing function has written the text", fn.Name()+" can report success ("+where+") without having written the compiled text: the output is silently lost")
	}
	// (1b) what is compiled is what was read: the text handed to the lexer comes, through helpers of
	// package main, conversions and merges, from a read of standard input or of the input file —
	// from every branch (a branch that forgets to read compiles the empty program)
	{
		nLex := 0
		for _, fn := range mains {
			for _, ci := range callsIn(fn) {
				if !strings.HasSuffix(calleeName(ci), "/lexer.New") || len(ci.Common().Args) != 1 {
					continue
				}
				nLex++
				var bad []string
				nRead := 0
				seenV := map[ssa.Value]bool{}
				var origin func(f *ssa.Function, v ssa.Value, depth int)
				origin = func(f *ssa.Function, v ssa.Value, depth int) {
					if seenV[v] || depth > 6 {
						return
					}
					seenV[v] = true
					switch x := v.(type) {
					case *ssa.Convert:
						origin(f, x.X, depth)
					case *ssa.ChangeType:
						origin(f, x.X, depth)
					case *ssa.Phi:
						for _, e := range x.Edges {
							origin(f, e, depth)
						}
					case *ssa.Extract:
						if call, isCall := x.Tuple.(*ssa.Call); isCall {
							n := calleeName(call)
							if n == "io/ioutil.ReadAll" || n == "io.ReadAll" || n == "io/ioutil.ReadFile" || n == "os.ReadFile" {
								if x.Index == 0 {
									nRead++
								} else {
									bad = append(bad, "result "+fmt.Sprint(x.Index)+" of "+n)
								}
								return
							}
							if g := callee(call); g != nil && g.Pkg != nil && g.Pkg.Pkg.Name() == "main" && len(g.Blocks) > 0 {
								for _, r := range returnsOf(g) {
									if x.Index < len(r.Results) {
										origin(g, r.Results[x.Index], depth+1)
									}
								}
								return
							}
						}
						bad = append(bad, pretty(c.term(f, v)))
					case *ssa.Call:
						if g := callee(x); g != nil && g.Pkg != nil && g.Pkg.Pkg.Name() == "main" && len(g.Blocks) > 0 {
							for _, r := range returnsOf(g) {
								if len(r.Results) >= 1 {
									origin(g, r.Results[0], depth+1)
								}
							}
							return
						}
						bad = append(bad, pretty(c.term(f, v)))
					case *ssa.Const:
						bad = append(bad, "a constant ("+pretty(c.term(f, v))+": nothing was read on that way)")
					case *ssa.Parameter:
						// handed in by the callers (a `compile(input, …)` helper of package main)
						idx := paramIndex(f, x)
						nCallers := 0
						for _, cs := range c.W.callsTo(f) {
							if isTestFunc(c.W, cs.Parent()) || idx < 0 || idx >= len(cs.Common().Args) {
								continue
							}
							nCallers++
							origin(cs.Parent(), cs.Common().Args[idx], depth+1)
						}
						if nCallers == 0 {
							bad = append(bad, pretty(c.term(f, v)))
						}
					default:
						bad = append(bad, pretty(c.term(f, v)))
					}
				}
				origin(fn, ci.Common().Args[0], 0)
				c.Check(len(bad) == 0 && nRead >= 1, fmt.Sprintf("input/%s/is-what-was-read", fn.Name()), c.W.Pos(ci.Pos()), fmt.Sprintf("the text handed to the lexer is what was read (%d reads)", nRead), fmt.Sprintf("the text handed to the lexer is not, on every way, what was read from standard input or from the input file: %v", bad))
			}
		}
		c.Check(nLex >= 1, "input/lexer-fed", "-", "package main hands the input to lexer.New", "no call of lexer.New found in package main")
	}
	c.Check(nEmit >= 1 && nSinks >= 1, "output/followed", "-", fmt.Sprintf("Emit's result followed to %d write call(s)", nSinks), fmt.Sprintf("found %d calls of Emit in package main and %d places where its result is written", nEmit, nSinks))
	// (2b) nor is the input: the wrapper writes into no byte or rune of a text (the bytes read
	// reach the lexer as they are: C17.f follows the value, this clause the memory)
	for _, fn := range mains {
		k := 0
		instrs(fn, func(in ssa.Instruction) {
			st, ok := in.(*ssa.Store)
			if !ok {
				return
			}
			ia, ok := st.Addr.(*ssa.IndexAddr)
			if !ok {
				return
			}
			if sl, isSl := ia.X.Type().Underlying().(*types.Slice); isSl {
				if b, isB := sl.Elem().Underlying().(*types.Basic); isB && (b.Kind() == types.Byte || b.Kind() == types.Uint8 || b.Kind() == types.Rune || b.Kind() == types.Int32) {
					k++
					c.Bad(fmt.Sprintf("text-bytes-written/%s#%d", fn.Name(), k), c.W.Pos(st.Pos()), fn.Name()+" overwrites a byte of a text in place ("+pretty(c.term(fn, st.Addr))+"): the program that is compiled (or written out) is not the one that was read — line counts and columns shift")
				}
			}
		})
	}
	// (2c) errors end the run: every error a function of package main obtains is compared with
	// nil, and the branch on which it is not nil exits (log.Fatal*, os.Exit) or hands the error
	// back — it does not fall through to the next stage with a half-made result
	nErr := 0
	for _, fn := range mains {
		for _, ci := range callsIn(fn) {
			call, isCall := ci.(*ssa.Call)
			if !isCall {
				continue
			}
			res := call.Call.Signature().Results()
			if res.Len() == 0 || !isErrorType(res.At(res.Len()-1).Type()) {
				continue
			}
			if n := calleeName(call); strings.HasPrefix(n, "fmt.") || strings.HasPrefix(n, "io.WriteString") {
				if res.Len() == 2 && strings.HasPrefix(n, "fmt.") {
					continue // fmt.Print*'s own error: stdout
				}
			}
			var errV ssa.Value = call
			if res.Len() > 1 {
				errV = nil
				if call.Referrers() != nil {
					for _, r := range *call.Referrers() {
						if ex, ok := r.(*ssa.Extract); ok && ex.Index == res.Len()-1 {
							errV = ex
						}
					}
				}
			}
			nErr++
			key := fmt.Sprintf("errors-end-the-run/%s@%s#%d", fn.Name(), calleeName(call), c.T(fn).callOrd[ci])
			if errV == nil || len(liveReferrers(errV)) == 0 {
				c.Bad(key, c.W.Pos(call.Pos()), fn.Name()+" ignores the error of "+calleeName(call))
				continue
			}
			handled := false
			var follow func(v ssa.Value, depth int)
			follow = func(v ssa.Value, depth int) {
				if v.Referrers() == nil || depth > 3 {
					return
				}
				for _, r := range liveReferrers(v) {
					switch y := r.(type) {
					case *ssa.Return:
						handled = true
					case *ssa.Phi:
						follow(y, depth+1)
					case ssa.CallInstruction:
						// handed to a helper of package main that does the test (`exitOnError(err)`)
						if g := callee(y); g != nil && g.Pkg != nil && g.Pkg.Pkg.Name() == "main" && len(g.Blocks) > 0 {
							for i, a := range y.Common().Args {
								if a == v && i < len(g.Params) {
									follow(g.Params[i], depth+1)
								}
							}
						}
					case *ssa.BinOp:
						if !isNilConst(y.X) && !isNilConst(y.Y) {
							continue
						}
						if y.Referrers() == nil {
							continue
						}
						for _, r2 := range *y.Referrers() {
							ifi, isIf := r2.(*ssa.If)
							if !isIf {
								continue
							}
							bad := ifi.Block().Succs[0]
							if y.Op.String() == "==" {
								bad = ifi.Block().Succs[1]
							}
							// the failing branch ends the run or returns the error
							for _, in := range bad.Instrs {
								switch z := in.(type) {
								case ssa.CallInstruction:
									if n := calleeName(z); strings.HasPrefix(n, "log.Fatal") || n == "os.Exit" || strings.HasPrefix(n, "log.Panic") {
										handled = true
									}
									// a helper of package main that never comes back
									if g := callee(z); g != nil && g.Pkg != nil && g.Pkg.Pkg.Name() == "main" && len(g.Blocks) > 0 {
										isExit := func(x ssa.Instruction) bool {
											cx, ok := x.(ssa.CallInstruction)
											if !ok {
												return false
											}
											nx := calleeName(cx)
											return strings.HasPrefix(nx, "log.Fatal") || nx == "os.Exit" || strings.HasPrefix(nx, "log.Panic")
										}
										if _, comesBack := existsPath(pathQuery{from: entry(g), avoid: isExit, exitIs: true, target: func(ssa.Instruction) bool { return false }}); !comesBack {
											handled = true
										}
									}
								case *ssa.Return:
									if len(z.Results) > 0 && !isNilConst(z.Results[len(z.Results)-1]) {
										handled = true
									}
								case *ssa.Panic:
									handled = true
								}
							}
						}
					}
				}
			}
			follow(errV, 0)
			c.Check(handled, key, c.W.Pos(call.Pos()), "a failure of "+calleeName(call)+" ends the run (or is handed back)", fn.Name()+" goes on after "+calleeName(call)+" has failed (the branch on which the error is not nil neither exits nor returns it): the run continues with a half-made result, or stops although nothing went wrong")
		}
	}
	c.Check(nErr >= 5, "errors-end-the-run/census", "-", fmt.Sprintf("%d error results of package main followed", nErr), fmt.Sprintf("only %d error results found in package main", nErr))
	// (2d) standard input / output exactly when no path was given
	for _, fn := range mains {
		for _, ci := range callsIn(fn) {
			n := calleeName(ci)
			var wantEmpty, isIO bool
			switch n {
			case "fmt.Print", "io/ioutil.ReadAll", "io.ReadAll":
				wantEmpty, isIO = true, true
			case "os.Create", "os.OpenFile", "io/ioutil.ReadFile", "os.ReadFile":
				wantEmpty, isIO = false, true
			}
			if !isIO || len(fn.Params) == 0 {
				continue
			}
			// only in the functions that choose between the two by a path parameter
			var pathPar *ssa.Parameter
			for _, p := range fn.Params {
				if b, ok := p.Type().Underlying().(*types.Basic); ok && b.Kind() == types.String && strings.Contains(strings.ToLower(p.Name()), "path") {
					pathPar = p
				}
			}
			if pathPar == nil {
				continue
			}
			pt := c.term(fn, pathPar)
			has := ""
			for _, l := range c.mustLits(fn, ci.Block()) {
				l2 := normLit(l)
				if strings.Contains(l2, pt) && (strings.Contains(l2, `== ""`) || strings.Contains(l2, "builtin:len("+pt+")")) {
					has = l2
				}
			}
			empty := has == normLit("+("+pt+` == "")`) || has == "-(0 < builtin:len("+pt+"))" || has == "+(builtin:len("+pt+") == 0)"
			nonEmpty := has == normLit("-("+pt+` == "")`) || has == "+(0 < builtin:len("+pt+"))" || has == "-(builtin:len("+pt+") == 0)"
			okSide := (wantEmpty && empty) || (!wantEmpty && nonEmpty)
			if strings.HasPrefix(fn.Name(), "readCommandConfig") || has == "" && !wantEmpty && fn.Name() != "getInput" && fn.Name() != "writeOutput" {
				continue
			}
			c.Check(okSide, fmt.Sprintf("std-streams-iff-no-path/%s@%s", fn.Name(), n), c.W.Pos(ci.Pos()), "standard input / output is used exactly when no path was given", fn.Name()+" calls "+n+" under ["+pretty(has)+"]: expected "+map[bool]string{true: "the path to be empty", false: "a path to be given"}[wantEmpty]+" — with the test the other way round the compiler reads (or overwrites) the wrong thing")
		}
	}
	// (2e) a file that was named is read: in a function of package main that reads the file named by
	// its path parameter, a return that the read does not lead to stands under "no path was given"
	for _, fn := range mains {
		var pathPar *ssa.Parameter
		for _, p := range fn.Params {
			if b, ok := p.Type().Underlying().(*types.Basic); ok && b.Kind() == types.String && strings.Contains(strings.ToLower(p.Name()), "path") {
				pathPar = p
			}
		}
		if pathPar == nil {
			continue
		}
		for _, ci := range callsIn(fn) {
			if n := calleeName(ci); n != "io/ioutil.ReadFile" && n != "os.ReadFile" {
				continue
			}
			if len(ci.Common().Args) != 1 || ci.Common().Args[0] != ssa.Value(pathPar) {
				continue
			}
			pt := c.term(fn, pathPar)
			// ways on which the path is known to be empty are not followed
			notEmptyEdge := func(from *ssa.BasicBlock, succ int) bool {
				if len(from.Instrs) == 0 {
					return true
				}
				fi, isIf := from.Instrs[len(from.Instrs)-1].(*ssa.If)
				if !isIf {
					return true
				}
				t := c.term(fn, fi.Cond)
				sign := "+"
				if succ == 1 {
					sign = "-"
				}
				return !(strings.Contains(t, pt) && guardClass(verRe.ReplaceAllString(normLit(sign+t), "")) == "EMPTY")
			}
			w, skips := existsPath(pathQuery{from: entry(fn), edgeOK: notEmptyEdge, avoid: func(in ssa.Instruction) bool { return in == ci.(ssa.Instruction) }, exitIs: true, target: func(ssa.Instruction) bool { return false }})
			where := ""
			if skips {
				where = c.nearPos(w)
			}
			c.Check(!skips, "named-file-is-read/"+fn.Name(), c.W.Pos(ci.Pos()), "the function returns without reading the file only when no file was named", fn.Name()+" can return ("+where+") without reading the file although a path was given: the file the user named is silently ignored")
		}
	}
	// (3) the output file is emptied when it is opened
	for _, fn := range mains {
		for _, ci := range callsIn(fn) {
			switch calleeName(ci) {
			case "os.OpenFile":
				okT := false
				if k, ok := ci.Common().Args[1].(*ssa.Const); ok && k.Value != nil {
					if v, exact := constant.Int64Val(k.Value); exact {
						okT = v&0x200 != 0 // O_TRUNC
					}
				}
				c.Check(okT, fmt.Sprintf("output/%s/file-emptied@%d", fn.Name(), c.T(fn).callOrd[ci]), c.W.Pos(ci.Pos()), "the file is truncated when opened", fn.Name()+" opens the output file without O_TRUNC: what a longer previous build left behind the new text stays in the file")
			}
		}
	}
	// (4) the flags are what the command line says: nothing is stored through a flag pointer
	nFlags := 0
	for _, fn := range mains {
		for _, ci := range callsIn(fn) {
			n := calleeName(ci)
			if strings.HasPrefix(n, "flag.") && strings.HasSuffix(n, "Var") {
				nFlags++ // bound to a variable of the program: stores to that variable are ordinary stores
				continue
			}
			if !strings.HasPrefix(n, "flag.") || ci.Value() == nil || ci.Value().Referrers() == nil {
				continue
			}
			switch n {
			case "flag.String", "flag.Bool", "flag.Int", "flag.Int64", "flag.Uint", "flag.Float64", "flag.Duration":
			default:
				continue
			}
			nFlags++
			for _, r := range *ci.Value().Referrers() {
				if st, ok := r.(*ssa.Store); ok && st.Addr == ci.Value() {
					c.Bad(fmt.Sprintf("flags/%s/overwritten@%d", fn.Name(), c.T(fn).callOrd[ci]), c.W.Pos(st.Pos()), fn.Name()+" overwrites the value of a command-line flag ("+pretty(c.term(fn, st.Val))+"): the option the compiler runs with is no longer the one that was given (an input path that was not given makes line markers appear)")
				}
			}
		}
	}
	// the flags are parsed: after every definition, before any value is looked at
	for _, fn := range mains {
		var defs, parses []ssa.CallInstruction
		for _, ci := range callsIn(fn) {
			n := calleeName(ci)
			if n == "flag.Parse" {
				parses = append(parses, ci)
			} else if strings.HasPrefix(n, "flag.") {
				switch strings.TrimSuffix(strings.TrimPrefix(n, "flag."), "Var") {
				case "String", "Bool", "Int", "Int64", "Uint", "Uint64", "Float64", "Duration", "", "Func", "BoolFunc", "Text":
					defs = append(defs, ci)
				}
			}
		}
		if len(defs) == 0 {
			continue
		}
		okParse := len(parses) == 1
		why := fmt.Sprintf("%s defines %d flags and calls flag.Parse %d times", fn.Name(), len(defs), len(parses))
		if okParse {
			pb := parses[0].Block()
			before := func(a, b ssa.Instruction) bool {
				if a.Block() == b.Block() {
					for _, in := range a.Block().Instrs {
						if in == a {
							return true
						}
						if in == b {
							return false
						}
					}
				}
				return a.Block().Dominates(b.Block())
			}
			_ = pb
			for _, d := range defs {
				if !before(d.(ssa.Instruction), parses[0].(ssa.Instruction)) {
					okParse, why = false, "the flag defined at "+c.W.Pos(d.Pos())+" is not defined before flag.Parse on every way"
				}
				if v := d.Value(); v != nil && v.Referrers() != nil {
					for _, r := range *v.Referrers() {
						if ld, isLd := r.(*ssa.UnOp); isLd && ld.Op == token.MUL && !before(parses[0].(ssa.Instruction), ld) {
							okParse, why = false, "the flag defined at "+c.W.Pos(d.Pos())+" is read before flag.Parse"
						}
					}
				}
			}
		}
		c.Check(okParse, "flags/"+fn.Name()+"/parsed", c.W.FuncPos(fn), "flag.Parse is called once, after the definitions and before the values are read", why+": the options given on the command line do not reach the compiler")
	}
	c.Check(nFlags >= 5, "flags/census", "-", fmt.Sprintf("%d flags followed", nFlags), fmt.Sprintf("only %d flag definitions found", nFlags))
}
