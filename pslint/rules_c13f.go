package main

import (
	"fmt"
	"strings"

	"golang.org/x/tools/go/ssa"
)

func init() {
	register(&Rule{ID: "C13.f", Doc: "values gathered token by token are the tokens joined by single spaces: every iteration writes its token, and the separator — one space — is written exactly when something was written before", Floor: 4, Run: c13f})
}

// c13f: a constant's value, a map script condition and comparison value are gathered in a
// strings.Builder, one (substituted) token per iteration. "Using a constant is the same as
// writing its value" needs the gathered text to be the tokens separated the way the argument
// collector separates them (single spaces). Per gathering loop: (1) no way round the loop
// skips the token write; (2) every other write to the builder inside the loop is the constant
// " ", and its path condition is exactly (condition of the token write) ∧ builder.Len() > 0.
func c13f(c *Ctx) {
	try := c.Fn("parser.Parser.tryReplaceWithConstant")
	if try == nil {
		return
	}
	nLoops := 0
	for _, fn := range c.W.FuncsOf("parser") {
		if isTestFunc(c.W, fn) {
			continue
		}
		heads := loopHeaders(fn)
		pc := c.PC(fn)
		fk := c.W.FuncKey(fn)
		ord := 0
		for _, ci := range callsIn(fn) {
			if calleeName(ci) != "(*strings.Builder).WriteString" {
				continue
			}
			tc, ok := ci.Common().Args[1].(*ssa.Call)
			if !ok || callee(tc) != try {
				continue
			}
			h := heads[ci.Block()]
			if h == nil {
				// the step of a gathering loop under its own name (`appendValue(&sb)` called from the
				// loop): the whole helper is one iteration
				inLoopSomewhere := false
				for _, site := range c.W.callsTo(fn) {
					if loopHeaders(site.Parent())[site.Block()] != nil {
						inLoopSomewhere = true
					}
				}
				if !inLoopSomewhere {
					continue
				}
				nLoops++
				ord++
				T := ci.(ssa.Instruction)
				sb := ci.Common().Args[0]
				key := fmt.Sprintf("%s/gather-step#%d", fk, ord)
				pos := c.W.Pos(ci.Pos())
				_, skip := existsPath(pathQuery{from: entry(fn), avoid: func(x ssa.Instruction) bool { return x == T }, edgeOK: notErrorEdge, exitIs: true})
				c.Check(!skip, key+"/every-token-written", pos, "every call of the step writes its token", "the gathering step can return without writing its token: the gathered value would lack tokens of the source")
				dT := pc.canonOf(pc.At(T.Block()))
				for _, cj := range callsIn(fn) {
					n := calleeName(cj)
					if !strings.HasPrefix(n, "(*strings.Builder).Write") || cj == ci || cj.Common().Args[0] != sb {
						continue
					}
					c13fSeparator(c, fn, cj, dT, fmt.Sprintf("%s/separator@%d", key, c.T(fn).callOrd[cj]))
				}
				continue
			}
			nLoops++
			ord++
			T := ci.(ssa.Instruction)
			sb := ci.Common().Args[0]
			body := loopBody(h)
			key := fmt.Sprintf("%s/gather#%d", fk, ord)
			pos := c.W.Pos(ci.Pos())
			// (1)
			skip := false
			var wit ssa.Instruction
			for _, s := range h.Succs {
				if !body[s] || s == h {
					continue
				}
				if _, found := existsPath(pathQuery{from: point{s, 0}, avoid: func(x ssa.Instruction) bool { return x == T }, edgeOK: notErrorEdge, stopAt: func(x ssa.Instruction) bool { return !body[x.Block()] }, target: func(x ssa.Instruction) bool { return x != T && x.Block() == h }}); found {
					skip = true
					wit = s.Instrs[0]
				}
			}
			c.Check(!skip, key+"/every-token-written", pos, "every iteration writes its token", "an iteration of the gathering loop can go round without writing its token (from "+c.nearPos(wit)+"): the gathered value would lack tokens of the source")
			// (2)
			dT := pc.canonOf(pc.At(T.Block()))
			for _, cj := range callsIn(fn) {
				n := calleeName(cj)
				if !strings.HasPrefix(n, "(*strings.Builder).Write") || cj == ci || cj.Common().Args[0] != sb || !body[cj.Block()] || heads[cj.Block()] != h {
					continue
				}
				c13fSeparator(c, fn, cj, dT, fmt.Sprintf("%s/separator@%d", key, c.T(fn).callOrd[cj]))
			}
		}
	}
	c.Check(nLoops >= 2, "gathering-loops/scanned", "-", fmt.Sprintf("%d gathering loops or steps", nLoops), fmt.Sprintf("expected at least 2 places that gather substituted tokens in a builder (constants, map script table values), found %d", nLoops))
}

// c13fSeparator: the write cj (to the gathering builder, other than the token write whose
// condition is dT) is one space, written exactly when the builder already holds text.
func c13fSeparator(c *Ctx, fn *ssa.Function, cj ssa.CallInstruction, dT dnf, skey string) {
	pc := c.PC(fn)
	a := cj.Common().Args[1]
	isSpace := false
	if s, ok := strConst(a); ok && s == " " {
		isSpace = true
	}
	if k, ok := intConst(a); ok && k == 32 {
		isSpace = true
	}
	spos := c.W.Pos(cj.Pos())
	if !isSpace {
		c.Bad(skey, spos, "the gathering loop writes "+pretty(c.term(fn, a))+" besides the token: the value is not the tokens joined by single spaces")
		return
	}
	dS := pc.canonOf(pc.At(cj.Block()))
	okSep := false
	lenLit := ""
	for _, cj2 := range dS.cs {
		for _, l := range cj2 {
			if strings.Contains(l, "(*strings.Builder).Len(") {
				lenLit = l
			}
		}
	}
	if lenLit != "" {
		nl := normLit(lenLit)
		positive := strings.HasPrefix(nl, "+(0 < (*strings.Builder).Len(") || strings.HasPrefix(nl, "-((*strings.Builder).Len(") && strings.HasSuffix(nl, " == 0)") || strings.HasPrefix(nl, "+((*strings.Builder).Len(") && strings.HasSuffix(nl, " != 0)")
		okSep = positive && dnfEquiv(dS, dnfAndLit(dT, lenLit))
	}
	c.Check(okSep, skey, spos, "one space, exactly when the builder is not empty", "the separator is written under "+dS.String()+", expected exactly when the builder already holds text (token write: "+dT.String()+"): tokens would be joined differently from the way the same text is joined when written out in place")
}
