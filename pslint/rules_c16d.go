package main

import (
	"fmt"
	"go/token"

	"golang.org/x/tools/go/ssa"
)

func init() {
	register(&Rule{ID: "C16.d", Doc: "token positions are data, not decisions: outside the lexer a position field is only copied, put into an error, or printed as the line of a marker — and the line a marker prints is its token's start line", Floor: 10, Run: c16d})
}

var positionFields = map[string]bool{"LineNumber": true, "StartCharIndex": true, "StartUtf8CharIndex": true, "EndLineNumber": true, "EndCharIndex": true, "EndUtf8CharIndex": true}

// c16d: (1) what is parsed does not depend on the layout: no parser or emitter function lets a
// position field of a token reach a comparison, a branch, an index or a call other than the
// marker printer; reads flow into ParseError fields (the error constructors), into position
// fields of another token (copies), or — start line only, possibly plus a line offset — into
// emitLineMarker. (2) every line handed to emitLineMarker is <token>.LineNumber (+ offset).
func c16d(c *Ctx) {
	elm := c.Fn("emitter.emitLineMarker")
	nReads, nMarker := 0, 0
	for _, pkg := range []string{"parser", "emitter", "ast", "token", ""} {
		for _, fn := range c.W.FuncsOf(pkg) {
			if isTestFunc(c.W, fn) {
				continue
			}
			fk := c.W.FuncKey(fn)
			var okUse func(v ssa.Value, field string, depth int) string
			okUse = func(v ssa.Value, field string, depth int) string {
				refs := v.Referrers()
				if refs == nil || depth > 5 {
					return ""
				}
				for _, r := range *refs {
					switch y := r.(type) {
					case *ssa.DebugRef:
					case *ssa.Store:
						if y.Val != v {
							return "used as an address"
						}
						_, t, f, ok := fieldAddrOf(y.Addr)
						switch {
						case ok && typeIs(t, "parser", "ParseError"):
						case ok && typeIs(t, "token", "Token") && positionFields[f] && f == field:
							// a copy into the same field of another token (the end line stored as a
							// start line would move the marker of the construct)
						default:
							return "stored into " + pretty(c.term(fn, y.Addr))
						}
					case *ssa.BinOp:
						if y.Op != token.ADD {
							return "used in the comparison / operation " + y.Op.String()
						}
						if w := okUse(y, field, depth+1); w != "" {
							return w
						}
					case ssa.CallInstruction:
						if elm != nil && callee(y) == elm {
							if field != "LineNumber" {
								return "printed as a marker line although it is the token's " + field
							}
							continue
						}
						return "passed to " + calleeName(y)
					case *ssa.MakeInterface:
						// formatted into a message
						if w := okUse(y, field, depth+1); w != "" {
							return w
						}
					case *ssa.Phi:
						return "merged into a variable"
					case *ssa.If:
						return "branched on"
					default:
						return fmt.Sprintf("used by %T", r)
					}
				}
				return ""
			}
			n := 0
			instrs(fn, func(in ssa.Instruction) {
				var v ssa.Value
				field := ""
				switch x := in.(type) {
				case *ssa.Field:
					if typeIs(x.X.Type(), "token", "Token") && positionFields[fieldName(x.X.Type(), x.Field)] {
						v, field = x, fieldName(x.X.Type(), x.Field)
					}
				case *ssa.UnOp:
					if x.Op == token.MUL {
						if _, t, f, ok := fieldAddrOf(x.X); ok && typeIs(t, "token", "Token") && positionFields[f] {
							v, field = x, f
						}
					}
				}
				if v == nil {
					return
				}
				nReads++
				n++
				why := okUse(v, field, 0)
				c.Check(why == "", fmt.Sprintf("%s/position-read/%s#%d", fk, field, n), c.W.Pos(in.Pos()), "the position is copied, reported or printed", "the token position "+field+" is "+why+" in "+fn.Name()+": what is compiled would depend on how the source is laid out, or a marker would name another line than the one its construct starts on")
			})
		}
	}
	// (1') tokens are copied whole: outside the lexer no single position field of a token is ever
	// assigned (a text token given its command's line, a per-line copy with LineNumber += i — the
	// position of a token is where the lexer found it)
	nPosStore := 0
	for _, pkg := range []string{"parser", "emitter", "ast", "token", ""} {
		for _, fn := range c.W.FuncsOf(pkg) {
			if isTestFunc(c.W, fn) {
				continue
			}
			instrs(fn, func(in ssa.Instruction) {
				st, ok := in.(*ssa.Store)
				if !ok {
					return
				}
				_, t, f, ok := fieldAddrOf(st.Addr)
				if !ok || !typeIs(t, "token", "Token") || !positionFields[f] {
					return
				}
				// a composite literal that copies every field from one token is a whole copy (synthesised tokens: C16.c i)
				if a, isA := rootValue(st.Addr).(*ssa.Alloc); isA && a.Comment == "complit" {
					return
				}
				nPosStore++
				c.Bad(fmt.Sprintf("%s/position-assigned[%s]#%d", c.W.FuncKey(fn), f, nPosStore), c.W.Pos(st.Pos()), fn.Name()+" assigns "+f+" of a token ("+pretty(c.term(fn, st.Val))+"): outside the lexer tokens are only copied whole; a changed position makes markers and errors name a line the construct was not written on")
			})
		}
	}
	c.Check(nPosStore == 0, "positions/never-assigned-outside-the-lexer", "-", "no position field of a token is assigned outside the lexer", "token positions are assigned outside the lexer")
	// (2) every marker line comes from a LineNumber field
	if elm != nil {
		for _, ci := range c.W.callsTo(elm) {
			f := ci.Parent()
			if isTestFunc(c.W, f) {
				continue
			}
			nMarker++
			a := ci.Common().Args[1]
			var fromLine func(v ssa.Value, depth int) bool
			fromLine = func(v ssa.Value, depth int) bool {
				if depth > 4 {
					return false
				}
				switch x := v.(type) {
				case *ssa.Field:
					return typeIs(x.X.Type(), "token", "Token") && fieldName(x.X.Type(), x.Field) == "LineNumber"
				case *ssa.UnOp:
					_, t, fl, ok := fieldAddrOf(x.X)
					return ok && typeIs(t, "token", "Token") && fl == "LineNumber"
				case *ssa.BinOp:
					return x.Op == token.ADD && (fromLine(x.X, depth+1) || fromLine(x.Y, depth+1))
				}
				return false
			}
			c.Check(fromLine(a, 0), fmt.Sprintf("%s/marker-line@%d", c.W.FuncKey(f), c.T(f).callOrd[ci]), c.W.Pos(ci.Pos()), "the marker line is a token's LineNumber (plus a line offset)", "the line printed by this marker is "+pretty(c.term(f, a))+", not the LineNumber of a token")
		}
	}
	c.Check(nReads >= 6 && nMarker >= 1, "positions/scanned", "-", fmt.Sprintf("%d position reads outside the lexer, %d marker lines", nReads, nMarker), fmt.Sprintf("expected at least 6 position reads and 1 marker call, found %d and %d", nReads, nMarker))
}
