package main

import (
	"fmt"
	"go/token"

	"golang.org/x/tools/go/ssa"
)

func init() {
	register(&Rule{ID: "C18.n", Doc: "a failed call is never followed by a success: from the branch on which an error that a call handed back is known not to be nil, no way leads to a return that reports success (nil error, or — in functions without an error result — an ordinary return) unless the error was handed on or the process ended; in the library packages and in main.go", Floor: 40, Run: c18n})
}

// c18n. Error tests come in pairs with the call they guard, and the polarity of the test is
// the whole of their meaning: `if err == nil { return cfg, err }` still reads like error
// handling, still compiles, and the suite (which feeds valid inputs) still passes — but the
// failure now falls through to the success return. The rule states the contradiction
// directly: on the side of an If where an error value obtained from a call is non-nil, every
// way on ends in a return that carries a non-nil error, in a call that does not return
// (log.Fatal*, os.Exit, panic), or in a place where that very error has been consumed
// (passed to a call, stored, returned inside another value). The one tolerated way is lint mode's:
// where the parser's option for environment errors is off, a failure of the environment goes on.
func c18n(c *Ctx) {
	n := 0
	for _, fn := range libraryFuncs(c) {
		if len(fn.Blocks) == 0 {
			continue
		}
		fk := c.W.FuncKey(fn)
		k := 0
		for _, b := range fn.Blocks {
			if len(b.Instrs) == 0 || len(b.Succs) != 2 {
				continue
			}
			ifi, ok := b.Instrs[len(b.Instrs)-1].(*ssa.If)
			if !ok {
				continue
			}
			bo, ok := ifi.Cond.(*ssa.BinOp)
			if !ok || (bo.Op != token.EQL && bo.Op != token.NEQ) {
				continue
			}
			var e ssa.Value
			if isNilConst(bo.Y) {
				e = bo.X
			} else if isNilConst(bo.X) {
				e = bo.Y
			}
			if e == nil || !isErrorType(e.Type()) {
				continue
			}
			// an error a call handed back (directly or as the last of its results)
			fromCall := false
			switch x := e.(type) {
			case *ssa.Call:
				fromCall = true
			case *ssa.Extract:
				_, fromCall = x.Tuple.(*ssa.Call)
			}
			if !fromCall {
				continue
			}
			n++
			k++
			failed := b.Succs[0]
			if bo.Op == token.EQL {
				failed = b.Succs[1]
			}
			// the error is consumed where it is used as an operand of anything but a nil test
			consumed := func(in ssa.Instruction) bool {
				if _, isIf := in.(*ssa.If); isIf {
					return false
				}
				if bb, isB := in.(*ssa.BinOp); isB && (isNilConst(bb.X) || isNilConst(bb.Y)) {
					return false
				}
				if _, isDbg := in.(*ssa.DebugRef); isDbg {
					return false
				}
				for _, op := range in.Operands(nil) {
					if op != nil && *op == e {
						return true
					}
				}
				return false
			}
			// lint mode tolerates failures of the environment (fonts, switches) by design — C18 asks
			// for exactly that: the way on which the option "environment errors" is off is not followed
			lintEdge := func(from *ssa.BasicBlock, succ int) bool {
				if len(from.Instrs) == 0 {
					return true
				}
				if fi, isIf := from.Instrs[len(from.Instrs)-1].(*ssa.If); isIf && c.term(fn, fi.Cond) == "$0.enableEnvironmentErrors" && succ == 1 {
					return false
				}
				return true
			}
			w, found := existsPath(pathQuery{from: point{failed, 0}, edgeOK: lintEdge, stopAt: func(in ssa.Instruction) bool {
				if consumed(in) {
					return true
				}
				if ci, isCall := in.(ssa.CallInstruction); isCall {
					switch calleeName(ci) {
					case "log.Fatalf", "log.Fatal", "log.Fatalln", "os.Exit":
						return true
					}
				}
				return false
			}, target: func(in ssa.Instruction) bool {
				r, isRet := in.(*ssa.Return)
				if !isRet {
					return false
				}
				for _, res := range r.Results {
					if res == e {
						return false
					}
				}
				return isSuccessReturn(r)
			}})
			where := ""
			if found {
				where = c.nearPos(w)
			}
			c.Check(!found, fmt.Sprintf("%s/failed-call-ends-in-error#%d", fk, k), c.W.Pos(bo.Pos()), "where the call has failed, no way leads to a success", fmt.Sprintf("%s: on the branch where the error of %s is not nil, a return that reports success can be reached (%s) without the error having been handed on: the failure is swallowed (is the test the wrong way round?)", fn.Name(), pretty(c.term(fn, e)), where))
		}
	}
	c.Check(n >= 40, "failed-call/sites", "-", fmt.Sprintf("%d error tests on call results", n), fmt.Sprintf("only %d error tests on call results found", n))
}
