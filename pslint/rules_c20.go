package main

// C20 — ill-formed control flow and name clashes are rejected at the offending line.

import (
	"go/token"
	"fmt"
	"go/types"
	"strings"

	"golang.org/x/tools/go/ssa"
)

func init() {
	property("C20",
		"Static conformance of the rejection mechanisms: (a) the break/continue scope stacks are pushed before and popped after the body parse of while, do-while (both stacks) and switch (break stack only) on every non-error path, and their helper functions touch only their own stack; (b) break/continue nodes are returned only under the non-nil test of the stack top, which is what they record, continue additionally only directly before '}', errors located at the keyword; (c) duplicate case values, a second default and a redefined constant are rejected by a check-before-insert on the same key that is stored, with the error located at the duplicate; (d) text and movement name clashes are rejected by check-before-insert over inline and explicit definitions after all hoisting; (e) every script label is checked against all generated chunk labels of the script and all text labels before it is rendered. A name or value that is already taken always ends in an error, every text / movement / case goes through its check (C20.c, C20.d), and the script emitter always receives the text-label set (C20.e).",
		[]string{"errors returned by the parser propagate to ParseProgram (rule C18.d), so an unbalanced stack on an error path is never observed", "go/ssa lowering is faithful to the source"},
		"C20.a", "C20.b", "C20.c", "C20.d", "C20.e", "C18.d", "C18.e", "C18.m", "C10.e", "C18.n")

	register(&Rule{ID: "C20.a", Doc: "scope stacks: push before / pop after the body parse, right stacks, helpers touch only their stack", Floor: 26, Run: c20a})
	register(&Rule{ID: "C20.b", Doc: "break/continue only under a non-empty scope stack; node records the stack top; errors at the keyword", Floor: 6, Run: c20b})
	register(&Rule{ID: "C20.c", Doc: "duplicate case / second default / redefined const: check-before-insert on the stored key", Floor: 5, Run: c20c})
	register(&Rule{ID: "C20.d", Doc: "text and movement name clashes rejected over inline + explicit names after hoisting", Floor: 9, Run: c20d})
	register(&Rule{ID: "C20.e", Doc: "script labels checked against all chunk labels and all text labels before rendering", Floor: 9, Run: c20e})
}

// parserFieldsTouched lists Parser fields loaded or stored (directly) in fn.
func parserFieldsTouched(fn *ssa.Function) map[string]bool {
	out := map[string]bool{}
	instrs(fn, func(in ssa.Instruction) {
		if fa, ok := in.(*ssa.FieldAddr); ok && typeIs(fa.X.Type(), "parser", "Parser") {
			out[fieldName(fa.X.Type(), fa.Field)] = true
		}
	})
	return out
}

func c20a(c *Ctx) {
	c20aClosed(c)
	type helper struct{ fn, field, kind string }
	for _, h := range []helper{
		{"parser.Parser.pushBreakStack", "breakStack", "push"}, {"parser.Parser.popBreakStack", "breakStack", "pop"}, {"parser.Parser.peekBreakStack", "breakStack", "peek"},
		{"parser.Parser.pushContinueStack", "continueStack", "push"}, {"parser.Parser.popContinueStack", "continueStack", "pop"}, {"parser.Parser.peekContinueStack", "continueStack", "peek"},
	} {
		fn := c.Fn(h.fn)
		if fn == nil {
			continue
		}
		touched := parserFieldsTouched(fn)
		only := len(touched) == 1 && touched[h.field]
		key := h.fn + "/shape"
		pos := c.W.FuncPos(fn)
		if !only {
			c.Bad(key, pos, fmt.Sprintf("%s touches parser fields %v, expected only %s", h.fn, keysOf(touched), h.field))
			continue
		}
		f := "$0." + h.field
		switch h.kind {
		case "push":
			sts := storesToField(fn, "parser", "Parser", h.field)
			ok := len(sts) == 1 && strings.HasPrefix(c.term(fn, sts[0].Val), "builtin:append("+f+",")
			argOK := false
			if ok {
				if call, isCall := sts[0].Val.(*ssa.Call); isCall {
					for _, e := range varargElems(call.Call.Args[1]) {
						if c.term(fn, e) == "$1" {
							argOK = true
						}
					}
				}
			}
			c.Check(ok && argOK, key, pos, "push appends its argument to "+h.field, "push does not append its argument to "+h.field)
		case "pop":
			sts := storesToField(fn, "parser", "Parser", h.field)
			ok := len(sts) == 1 && c.term(fn, sts[0].Val) == f+"[:builtin:len("+f+")-1]"
			got := ""
			if len(sts) == 1 {
				got = c.term(fn, sts[0].Val)
			}
			c.Check(ok, key, pos, "pop removes the last element of "+h.field, "pop stores "+got+", expected "+h.field+"[:len-1]")
		case "peek":
			okNil, okTop := false, false
			type alt struct {
				v    string
				must []string
			}
			var alts []alt
			for _, r := range returnsOf(fn) {
				// `return top(p.stack)`: the helper's returns, read with the stack as its argument
				if call, isCall := r.Results[0].(*ssa.Call); isCall {
					if g := callee(call); g != nil && c.W.InRepo(g) && len(g.Blocks) > 0 && g.Signature.Recv() == nil && c.T(fn).purity(g) >= purReadOnly {
						for _, r2 := range returnsOf(g) {
							a := alt{v: c.substParams(fn, call, c.term(g, r2.Results[0]))}
							for _, l := range c.mustLits(g, r2.Block()) {
								a.must = append(a.must, normLit(l[:1]+c.substParams(fn, call, l[1:])))
							}
							a.must = append(a.must, c.mustLits(fn, r.Block())...)
							alts = append(alts, a)
						}
						continue
					}
				}
				alts = append(alts, alt{c.term(fn, r.Results[0]), c.mustLits(fn, r.Block())})
			}
			for _, a := range alts {
				v, must := a.v, a.must
				if v == "nil" && hasLit(must, "-(0 < builtin:len("+f+"))") {
					okNil = true
				}
				if v == f+"[builtin:len("+f+")-1]" && hasLit(must, "+(0 < builtin:len("+f+"))") {
					okTop = true
				}
			}
			c.Check(okNil && okTop, key, pos, "peek returns nil on an empty stack, else the last element", "peek does not return nil for the empty stack and the last element otherwise")
		}
	}
	type site struct {
		fn       string
		body     []string // callees that parse the body
		contin   bool
		nodeType string
	}
	for _, s := range []site{
		{"parser.Parser.parseWhileStatement", []string{"parser.Parser.parseConditionExpression"}, true, "WhileStatement"},
		{"parser.Parser.parseDoWhileStatement", []string{"parser.Parser.parseBlockStatement"}, true, "DoWhileStatement"},
		{"parser.Parser.parseSwitchStatement", []string{"parser.Parser.parseSwitchBlockStatement"}, false, "SwitchStatement"},
	} {
		fn := c.Fn(s.fn)
		if fn == nil {
			continue
		}
		var bodies []ssa.CallInstruction
		for _, b := range s.body {
			if bf := c.Fn(b); bf != nil {
				bodies = append(bodies, c.W.callsReaching(fn, bf, 1)...)
			}
		}
		if len(bodies) == 0 {
			c.Bad(s.fn+"/body-parse", c.W.FuncPos(fn), "no body parse call found")
			continue
		}
		kinds := []string{"Break"}
		if s.contin {
			kinds = append(kinds, "Continue")
		}
		for _, k := range kinds {
			push := c.Fn("parser.Parser.push" + k + "Stack")
			pop := c.Fn("parser.Parser.pop" + k + "Stack")
			if push == nil || pop == nil {
				continue
			}
			// the push / pop itself, or a wrapper that performs it on every path (pushLoopScope(loop)
			// = push on both stacks): pushers maps a function to the index of the pushed argument
			pushers := map[*ssa.Function]int{push: 1}
			poppers := map[*ssa.Function]bool{pop: true}
			for round := 0; round < 2; round++ {
				for _, g := range c.W.FuncsOf("parser") {
					if isTestFunc(c.W, g) || len(g.Blocks) == 0 || g == push || g == pop {
						continue
					}
					if _, done := pushers[g]; !done {
						for _, ci := range callsIn(g) {
							j, isP := pushers[callee(ci)]
							if !isP || j >= len(ci.Common().Args) {
								continue
							}
							k := paramIndex(g, unwrapIface(ci.Common().Args[j]))
							dom := true
							for _, r := range returnsOf(g) {
								if !instrDominates(ci.(ssa.Instruction), r) {
									dom = false
								}
							}
							if k >= 0 && dom && len(g.Blocks) <= 3 {
								pushers[g] = k
							}
						}
					}
					if !poppers[g] && len(g.Blocks) <= 3 {
						for _, ci := range callsIn(g) {
							if !poppers[callee(ci)] {
								continue
							}
							dom := true
							for _, r := range returnsOf(g) {
								if !instrDominates(ci.(ssa.Instruction), r) {
									dom = false
								}
							}
							if dom {
								poppers[g] = true
							}
						}
					}
				}
			}
			isPush := func(in ssa.Instruction) bool {
				ci, ok := in.(ssa.CallInstruction)
				if !ok || callee(ci) == nil {
					return false
				}
				_, is := pushers[callee(ci)]
				return is
			}
			isPop := func(in ssa.Instruction) bool {
				ci, ok := in.(ssa.CallInstruction)
				return ok && callee(ci) != nil && poppers[callee(ci)]
			}
			var pushes []ssa.CallInstruction
			for _, ci := range callsIn(fn) {
				if isPush(ci.(ssa.Instruction)) {
					pushes = append(pushes, ci)
				}
			}
			key := s.fn + "/" + strings.ToLower(k) + "-stack"
			// pushed value is the node that is returned
			okNode := len(pushes) >= 1
			for _, pc := range pushes {
				v := pc.Common().Args[pushers[callee(pc)]]
				if mi, ok := v.(*ssa.MakeInterface); ok {
					v = mi.X
				}
				a, isAlloc := v.(*ssa.Alloc)
				if !isAlloc || !typeIs(a.Type(), "ast", s.nodeType) {
					okNode = false
					continue
				}
				ret := false
				for _, r := range returnsOf(fn) {
					if isSuccessReturn(r) && r.Results[0] == ssa.Value(a) {
						ret = true
					}
				}
				if !ret {
					okNode = false
				}
			}
			c.Check(okNode, key+"/pushes-own-node", c.W.FuncPos(fn), "the pushed scope is the "+s.nodeType+" node the function returns (the emitter keys its tables by that node)", "the value pushed on the "+k+" stack is not the "+s.nodeType+" node that is returned")
			for i, b := range bodies {
				bi := b.(ssa.Instruction)
				_, noPush := existsPath(pathQuery{from: entry(fn), target: func(in ssa.Instruction) bool { return in == bi }, avoid: isPush})
				// a pop between the push and the body parse
				poppedBefore := false
				for _, pc := range popCalls(fn, isPop) {
					_, reach := existsPath(pathQuery{from: after(pc.(ssa.Instruction)), target: func(in ssa.Instruction) bool { return in == bi }, avoid: isPush})
					if reach {
						poppedBefore = true
					}
				}
				c.Check(!noPush && !poppedBefore, fmt.Sprintf("%s/body#%d-inside-scope", key, i), c.W.Pos(b.Pos()), "body is parsed with the scope pushed", "a body parse can be reached without the "+k+" scope being pushed (a 'break'/'continue' inside would bind to an enclosing construct or be rejected)")
				// after the body: a pop on every non-error path to a successful return
				_, noPop := existsPath(pathQuery{from: after(bi), avoid: isPop, edgeOK: notErrorEdge, target: func(in ssa.Instruction) bool {
					r, ok := in.(*ssa.Return)
					return ok && isSuccessReturn(r)
				}})
				c.Check(!noPop, fmt.Sprintf("%s/body#%d-popped", key, i), c.W.Pos(b.Pos()), "scope popped on every successful path after the body", "a successful return can be reached after the body parse without popping the "+k+" stack (the scope would leak into following statements)")
			}
			// whatever is parsed in between: a push is matched by a pop on every successful path
			for i, pc := range pushes {
				_, leak := existsPath(pathQuery{from: after(pc.(ssa.Instruction)), avoid: isPop, edgeOK: notErrorEdge, target: func(in ssa.Instruction) bool {
					r, ok := in.(*ssa.Return)
					return ok && isSuccessReturn(r)
				}})
				c.Check(!leak, fmt.Sprintf("%s/push#%d-popped", key, i), c.W.Pos(pc.Pos()), "every successful path after the push pops the scope again", "a successful return can be reached after pushing the "+k+" scope without popping it (the scope would leak into following statements)")
			}
			// exactly one pop per push on successful paths: no path pop -> pop without push in between
			for _, pc := range popCalls(fn, isPop) {
				_, twice := existsPath(pathQuery{from: after(pc.(ssa.Instruction)), target: isPop, avoid: isPush})
				c.Check(!twice, key+"/single-pop", c.W.Pos(pc.Pos()), "one pop per push", "the "+k+" stack can be popped twice for one push")
			}
			// ... and one push per pop: no path push -> push without a pop in between (a scope
			// pushed twice and popped once stays on the stack for everything that follows)
			for _, pc := range pushes {
				_, twice := existsPath(pathQuery{from: after(pc.(ssa.Instruction)), target: isPush, avoid: isPop})
				c.Check(!twice, key+"/single-push", c.W.Pos(pc.Pos()), "one push per pop", "the "+k+" scope can be pushed twice before it is popped once: the extra entry outlives the statement")
			}
			// no pop before any push
			_, early := existsPath(pathQuery{from: entry(fn), target: isPop, avoid: isPush})
			c.Check(!early, key+"/no-pop-before-push", c.W.FuncPos(fn), "no pop without a preceding push", "the "+k+" stack can be popped before anything was pushed")
		}
		if !s.contin {
			if pushC := c.Fn("parser.Parser.pushContinueStack"); pushC != nil {
				c.Check(len(callsToIn(fn, pushC)) == 0, s.fn+"/no-continue-scope", c.W.FuncPos(fn), "switch is not a continue scope", "switch pushes itself on the continue stack: 'continue' inside a switch would target the switch")
			}
		}
	}
}

// c20aClosed: the scope stacks are the six helpers' business and the three scope statements'.
// Nobody else reads or writes the two fields, and nobody else pushes or pops (directly or through
// a wrapper whose every caller is one of the three).
func c20aClosed(c *Ctx) {
	helpers := map[string]bool{"pushBreakStack": true, "popBreakStack": true, "peekBreakStack": true, "pushContinueStack": true, "popContinueStack": true, "peekContinueStack": true}
	sites := map[string]bool{"parseWhileStatement": true, "parseDoWhileStatement": true, "parseSwitchStatement": true}
	nTouch, nCalls := 0, 0
	for _, fn := range c.W.Funcs {
		if isTestFunc(c.W, fn) || len(fn.Blocks) == 0 {
			continue
		}
		k := 0
		instrs(fn, func(in ssa.Instruction) {
			fa, ok := in.(*ssa.FieldAddr)
			if !ok || !typeIs(fa.X.Type(), "parser", "Parser") {
				return
			}
			f := fieldName(fa.X.Type(), fa.Field)
			if f != "breakStack" && f != "continueStack" {
				return
			}
			nTouch++
			if helpers[fn.Name()] && c.W.PkgShort(fn) == "parser" {
				return
			}
			// a parser under construction may set its empty stacks
			if _, fresh := fa.X.(*ssa.Alloc); fresh {
				return
			}
			k++
			c.Bad(fmt.Sprintf("stacks-closed/%s/%s#%d", c.W.FuncKey(fn), f, k), c.W.Pos(fa.Pos()), c.W.FuncKey(fn)+" touches the parser's "+f+" directly: only the push / pop / peek helpers do, so that every scope that is entered is left again")
		})
		if c.W.PkgShort(fn) == "parser" && helpers[fn.Name()] {
			continue
		}
		for _, ci := range callsIn(fn) {
			g := callee(ci)
			if g == nil || c.W.PkgShort(g) != "parser" || !helpers[g.Name()] || strings.HasPrefix(g.Name(), "peek") {
				continue
			}
			nCalls++
			okCaller := sites[fn.Name()]
			if !okCaller {
				// a wrapper: all of its callers are scope statements
				cs := c.W.callsTo(fn)
				okCaller = len(cs) > 0
				for _, cc := range cs {
					if !sites[cc.Parent().Name()] {
						okCaller = false
					}
				}
			}
			c.Check(okCaller, fmt.Sprintf("stacks-closed/%s->%s@%d", fn.Name(), g.Name(), c.T(fn).callOrd[ci]), c.W.Pos(ci.Pos()), "scopes are pushed and popped by while, do-while and switch only", fn.Name()+" calls "+g.Name()+": only while, do-while and switch statements open and close a break / continue scope (an extra scope makes 'break' and 'continue' bind to the wrong construct, or be accepted outside of any)")
		}
	}
	c.Check(nTouch >= 8 && nCalls >= 4, "stacks-closed/census", "-", fmt.Sprintf("%d accesses to the stack fields, %d push / pop calls", nTouch, nCalls), fmt.Sprintf("only %d accesses to the stack fields and %d push / pop calls found", nTouch, nCalls))
}

func keysOf(m map[string]bool) []string {
	var out []string
	for k := range m {
		out = append(out, k)
	}
	sortStrings(out)
	return out
}

func c20b(c *Ctx) {
	for _, s := range []struct{ fn, peek, field, typ string }{
		{"parser.Parser.parseBreakStatement", "peekBreakStack", "ScopeStatment", "BreakStatement"},
		{"parser.Parser.parseContinueStatement", "peekContinueStack", "LoopStatment", "ContinueStatement"},
	} {
		fn := c.Fn(s.fn)
		if fn == nil {
			continue
		}
		peekTerm := "(*parser.Parser)." + s.peek + "($0)@"
		nOK := 0
		for _, r := range returnsOf(fn) {
			pos := c.W.Pos(r.Pos())
			if isSuccessReturn(r) {
				nOK++
				a, ok := r.Results[0].(*ssa.Alloc)
				if !ok || !typeIs(a.Type(), "ast", s.typ) {
					c.Bad(s.fn+"/returns-node", pos, "successful return does not return a fresh "+s.typ)
					continue
				}
				got := c.fieldAtUse(fn, a, s.field, r)
				c.Check(strings.HasPrefix(got, peekTerm), s.fn+"/records-stack-top", pos, s.field+" = top of the scope stack", s.field+" is "+got+", expected the result of "+s.peek+"()")
				guard := false
				for _, l := range c.mustLits(fn, r.Block()) {
					if strings.HasPrefix(l, "-("+peekTerm) && strings.HasSuffix(l, " == nil)") {
						guard = true
					}
				}
				// ... and whenever it is not empty (and, for continue, the statement is the last of
				// its block): no further condition stands between a well-placed break / continue
				// and its acceptance
				{
					var extra []string
					for _, l := range c.mustLits(fn, r.Block()) {
						l2 := verRe.ReplaceAllString(l, "")
						if strings.HasPrefix(l2, "-("+peekTerm) && strings.HasSuffix(l2, " == nil)") {
							continue
						}
						if s.typ == "ContinueStatement" && l2 == `+($0.peekToken.Type == "}")` {
							continue
						}
						if errLitRe.MatchString(l2) {
							continue
						}
						extra = append(extra, l)
					}
					c.Check(len(extra) == 0, s.fn+"/accepted-whenever-in-scope", pos, "accepted under no further condition", fmt.Sprintf("a %s is accepted only under the further condition(s) %v: where they fail, a statement that is well placed is rejected with the message for a misplaced one", s.typ, prettyAll(extra)))
				}
				c.Check(guard, s.fn+"/guarded", pos, "node returned only when the scope stack is not empty", "a "+s.typ+" can be returned although the scope stack is empty (statement outside of any scope accepted)")
				if s.typ == "ContinueStatement" {
					c.Check(hasLit(c.mustLits(fn, r.Block()), `+($0.peekToken.Type == "}")`), s.fn+"/last-in-block", pos, "continue accepted only directly before '}'", "continue accepted without testing that it is the last statement of its block")
				}
			} else {
				call, ok := r.Results[len(r.Results)-1].(*ssa.Call)
				tok := ""
				if ok && len(call.Call.Args) > 0 {
					tok = c.term(fn, call.Call.Args[0])
				}
				c.Check(tok == "$0.curToken", s.fn+"/error-at-keyword", pos, "error located at the keyword", "error located at "+tok+", expected the current token (the keyword)")
			}
		}
		if nOK == 0 {
			c.Bad(s.fn+"/returns-node", c.W.FuncPos(fn), "no successful return")
		}
	}
}

// lookupGuard: the literal that the map lookup `m[k]` was tested false before instruction at.
func c20c(c *Ctx) {
	if fn := c.Fn("parser.Parser.parseSwitchStatement"); fn != nil {
		name := "parser.Parser.parseSwitchStatement"
		// duplicate case values
		n := 0
		instrs(fn, func(in ssa.Instruction) {
			mu, ok := in.(*ssa.MapUpdate)
			if !ok {
				return
			}
			mt, ok := mu.Map.Type().Underlying().(*types.Map)
			if !ok {
				return
			}
			// a set of strings: map[string]bool, or map[string]struct{} tested with comma-ok
			_, isEmptyStruct := mt.Elem().Underlying().(*types.Struct)
			if est, ok2 := mt.Elem().Underlying().(*types.Struct); ok2 && est.NumFields() != 0 {
				isEmptyStruct = false
			}
			if !types.Identical(mt.Elem(), types.Typ[types.Bool]) && !isEmptyStruct {
				return
			}
			n++
			key := c.term(fn, mu.Key)
			mapT := c.term(fn, mu.Map)
			seenLit := mapT + "[" + key + "]"
			if isEmptyStruct {
				seenLit += "#1"
			}
			guard := hasLit(c.mustLits(fn, mu.Block()), "-"+seenLit)
			c.Check(guard, name+"/duplicate-case/check-before-insert", c.W.Pos(mu.Pos()), "case value inserted only after the lookup of the same key was false", "case value "+pretty(key)+" is inserted into the seen-set without first testing the same key")
			// the key is the value that is compared at run time (after constant substitution)
			same := false
			for _, a := range allocsOf(fn, "ast", "SwitchCase") {
				v := c.fieldAtUse(fn, a, "Value", lastUse(a))
				if strings.Contains(v, "Literal="+key) {
					same = true
					// every case that is recorded went through the seen-set
					if h := loopHeaders(fn)[mu.Block()]; h != nil {
						body := loopBody(h)
						unchecked := false
						for _, sc := range h.Succs {
							if !body[sc] || sc == h {
								continue
							}
							if _, found := existsPath(pathQuery{from: point{sc, 0}, avoid: func(x ssa.Instruction) bool { return x == ssa.Instruction(mu) }, edgeOK: notErrorEdge, stopAt: func(x ssa.Instruction) bool { return x.Block() == h }, target: func(x ssa.Instruction) bool { return x == ssa.Instruction(a) }}); found {
								unchecked = true
							}
						}
						c.Check(!unchecked, name+"/duplicate-case/every-case-checked", c.W.Pos(mu.Pos()), "no case is recorded without its value having been entered into the seen-set", "a case can be recorded without its value having gone through the duplicate test (the seen-set insertion at this line can be bypassed on the way to the case record)")
					}
				}
			}
			c.Check(len(foundNotRejected(fn, mu.Map, mu)) == 0, name+"/duplicate-case/duplicate-is-error", c.W.Pos(mu.Pos()), "a value that was seen before always ends in an error", "a case value that was seen before is not always rejected: the branch on which the lookup succeeded can continue")
			c.Check(same, name+"/duplicate-case/key-is-emitted-value", c.W.Pos(mu.Pos()), "the seen-set is keyed by the literal that is stored in the case (the value after constant substitution)", "the duplicate test is keyed by "+pretty(key)+", which is not the literal stored in SwitchCase.Value: two cases that differ in spelling but compile to the same value would both be accepted")
			// error location: range from the 'case' keyword to the current token
			errOK := false
			for _, r := range returnsOf(fn) {
				if isSuccessReturn(r) || !hasLit(c.mustLits(fn, r.Block()), "+"+seenLit) {
					continue
				}
				if call, ok := r.Results[len(r.Results)-1].(*ssa.Call); ok && calleeName(call) == c.W.ModPath+"/parser.NewRangeParseError" {
					// from the 'case' keyword of the duplicate to where the parser stands
					startsAtCase := false
					if ld, isLd := call.Call.Args[0].(*ssa.UnOp); isLd {
						for _, l := range c.mustLits(fn, ld.Block()) {
							if strings.HasPrefix(l, "+($0.curToken") && strings.HasSuffix(l, `.Type == "CASE")`) {
								startsAtCase = true
							}
						}
					}
					endT := regexpMust(`![A-Za-z0-9@_]+`).ReplaceAllString(c.term(fn, call.Call.Args[1]), "")
					endsAtCur := endT == "$0.curToken" || strings.HasSuffix(endT, "$0.curToken)")
					if startsAtCase && endsAtCur {
						errOK = true
					}
				}
			}
			c.Check(errOK, name+"/duplicate-case/error", c.W.Pos(mu.Pos()), "duplicate case returns a range error from its 'case' keyword to the current token", "the duplicate-case error is not a range error that starts at the 'case' keyword of the duplicate and ends at the current token")
		})
		if n != 1 {
			c.Bad(name+"/duplicate-case/site", c.W.FuncPos(fn), fmt.Sprintf("expected one seen-set insertion, found %d", n))
		}
		// second default
		sts := storesToField(fn, "ast", "SwitchStatement", "DefaultCase")
		if len(sts) != 1 {
			c.Bad(name+"/second-default/site", c.W.FuncPos(fn), fmt.Sprintf("expected one store to DefaultCase, found %d", len(sts)))
		} else {
			st := sts[0]
			base, _, _, _ := fieldAddrOf(st.Addr)
			guard := false
			for _, l := range c.mustLits(fn, st.Block()) {
				if strings.HasPrefix(l, "+(") && strings.HasSuffix(l, " == nil)") && strings.Contains(l, c.term(fn, base)+".DefaultCase") {
					guard = true
				}
			}
			// ... and a second default always ends in an error: the branch on which a default
			// already exists cannot go on to the next case or to a successful return
			{
				rejected := true
				heads := loopHeaders(fn)
				instrs(fn, func(in ssa.Instruction) {
					ifi, ok := in.(*ssa.If)
					if !ok {
						return
					}
					bo, ok := ifi.Cond.(*ssa.BinOp)
					if !ok || (bo.Op != token.EQL && bo.Op != token.NEQ) {
						return
					}
					x := bo.X
					if isNilConst(x) {
						x = bo.Y
					} else if !isNilConst(bo.Y) {
						return
					}
					ld, ok := x.(*ssa.UnOp)
					if !ok {
						return
					}
					if _, _, f, ok := fieldAddrOf(ld.X); !ok || f != "DefaultCase" {
						return
					}
					nonNil := ifi.Block().Succs[0]
					if bo.Op == token.EQL {
						nonNil = ifi.Block().Succs[1]
					}
					h := heads[ifi.Block()]
					if h == nil {
						return // the "no cases at all" test after the loop
					}
					if _, goesOn := existsPath(pathQuery{from: point{nonNil, 0}, target: func(y ssa.Instruction) bool {
						if ret, ok := y.(*ssa.Return); ok {
							return isSuccessReturn(ret)
						}
						return h != nil && y.Block() == h
					}}); goesOn {
						rejected = false
					}
				})
				c.Check(rejected, name+"/second-default/always-an-error", c.W.Pos(st.Pos()), "a second default always ends in an error", "where a default case already exists the parser can go on (to the next case or to a successful return): a second 'default' would be accepted and one of the two silently lost")
			}
			c.Check(guard, name+"/second-default/check-before-insert", c.W.Pos(st.Pos()), "DefaultCase set only when it was nil", "DefaultCase is stored without testing that no default was seen before")
			errOK := false
			for _, r := range returnsOf(fn) {
				if isSuccessReturn(r) {
					continue
				}
				for _, l := range c.mustLits(fn, r.Block()) {
					if strings.HasPrefix(l, "-(") && strings.HasSuffix(l, " == nil)") && strings.Contains(l, ".DefaultCase") {
						if call, ok := r.Results[len(r.Results)-1].(*ssa.Call); ok && len(call.Call.Args) > 0 && stripLoopTags(c.term(fn, call.Call.Args[0])) == "$0.curToken" {
							errOK = true
						}
					}
				}
			}
			c.Check(errOK, name+"/second-default/error-at-keyword", c.W.Pos(st.Pos()), "second default rejected at the 'default' token", "no error located at the current token on the second-default path")
		}
	}
	if fn := c.Fn("parser.Parser.parseConstant"); fn != nil {
		name := "parser.Parser.parseConstant"
		n := 0
		instrs(fn, func(in ssa.Instruction) {
			mu, ok := in.(*ssa.MapUpdate)
			if !ok || c.term(fn, mu.Map) != "$0.constants" {
				return
			}
			n++
			key := c.term(fn, mu.Key)
			// what is stored is what was gathered: the read-out of the builder the value tokens
			// were written to (or the join of the gathered parts), not a processed copy of it
			{
				okVal := false
				if call, ok := mu.Value.(*ssa.Call); ok {
					switch calleeName(call) {
					case "(*strings.Builder).String":
						okVal = true
					case "strings.Join":
						if sep, isC := strConst(call.Call.Args[1]); isC && sep == " " {
							okVal = true
						}
					}
				}
				c.Check(okVal, name+"/stored-value-is-gathered-text", c.W.Pos(mu.Pos()), "the constant's value is the gathered text itself", "the value stored for a constant is "+pretty(c.term(fn, mu.Value))+", not the text gathered from its tokens: using the constant would differ from writing its value")
			}
			guard := hasLit(c.mustLits(fn, mu.Block()), "-$0.constants["+key+"]#1")
			c.Check(guard, name+"/redefinition/check-before-insert", c.W.Pos(mu.Pos()), "constant stored only after the lookup of the same name failed", "constant "+pretty(key)+" stored without a failed lookup of the same name")
			errOK := false
			for _, r := range returnsOf(fn) {
				if isSuccessReturn(r) || !hasLit(c.mustLits(fn, r.Block()), "+$0.constants["+key+"]#1") {
					continue
				}
				if call, ok := r.Results[0].(*ssa.Call); ok && len(call.Call.Args) > 0 {
					tok := c.term(fn, call.Call.Args[0])
					if strings.HasSuffix(key, ".Literal") && tok == strings.TrimSuffix(key, ".Literal") {
						errOK = true
					}
				}
			}
			c.Check(errOK, name+"/redefinition/error-at-name", c.W.Pos(mu.Pos()), "redefinition rejected at the name token", "redefinition error is not located at the token whose literal is the constant name")
		})
		if n != 1 {
			c.Bad(name+"/redefinition/site", c.W.FuncPos(fn), fmt.Sprintf("expected one store into p.constants, found %d", n))
		}
		// the duplicate test looks the name up in p.constants: every accepted definition must be
		// in that map, whatever its value
		isStore := func(in ssa.Instruction) bool {
			mu, ok := in.(*ssa.MapUpdate)
			return ok && c.term(fn, mu.Map) == "$0.constants"
		}
		_, unrecorded := existsPath(pathQuery{from: entry(fn), avoid: isStore, edgeOK: notErrorEdge, target: func(in ssa.Instruction) bool {
			r, ok := in.(*ssa.Return)
			return ok && isSuccessReturn(r)
		}})
		c.Check(!unrecorded, name+"/redefinition/every-definition-recorded", c.W.FuncPos(fn), "every accepted const definition is recorded in p.constants", "a const definition can be accepted without being recorded in p.constants: a later redefinition of the same name would not be detected")
	}
}

func c20d(c *Ctx) {
	fn := c.Fn("parser.Parser.ParseProgram")
	if fn == nil {
		return
	}
	name := "parser.Parser.ParseProgram"
	top := c.Fn("parser.Parser.parseTopLevelStatement")
	var topCall ssa.Instruction
	if top != nil {
		for _, ci := range callsToIn(fn, top) {
			topCall = ci.(ssa.Instruction)
		}
	}
	nText, nMove := 0, 0
	for _, mem := range c.unitOf(fn) {
		f := mem.fn
		instrs(f, func(in ssa.Instruction) {
			mu, ok := in.(*ssa.MapUpdate)
			if !ok {
				return
			}
			key := c.term(f, mu.Key)
			mapT := c.term(f, mu.Map)
			pos := c.W.Pos(mu.Pos())
			guard := hasLit(c.mustLits(f, mu.Block()), "-"+mapT+"["+key+"]#1")
			// position in ParseProgram: the update itself, or the call of the helper holding it
			var at ssa.Instruction = mu
			if mem.site != nil {
				at = mem.site.(ssa.Instruction)
			}
			after := topCall != nil && !canReach(at, topCall)
			// the check is passed on every way to a successful return: its loop (or the call of
			// the helper holding it) cannot be bypassed
			gate := at
			if mem.site == nil {
				if h := loopHeaders(f)[mu.Block()]; h != nil {
					gate = h.Instrs[0]
				}
			}
			_, bypass := existsPath(pathQuery{from: entry(fn), avoid: func(x ssa.Instruction) bool { return x == gate }, edgeOK: notErrorEdge, target: func(x ssa.Instruction) bool {
				r, ok := x.(*ssa.Return)
				return ok && isSuccessReturn(r)
			}})
			// which list is ranged over
			listT := ""
			if i := strings.Index(key, "[phi("); i > 0 {
				listT = key[:i]
			}
			if mem.site != nil && strings.HasPrefix(listT, "$") {
				// parameter of the helper: the argument passed by ParseProgram
				var k int
				fmt.Sscanf(listT, "$%d", &k)
				if k < len(mem.site.Common().Args) {
					listT = c.term(fn, mem.site.Common().Args[k])
				}
			}
			// (a list gathered in a local that ends up in the program's field counts as that field)
			for _, fld := range []string{"Texts", "TopLevelStatements"} {
				for _, st := range storesToField(fn, "ast", "Program", fld) {
					if t := c.term(fn, st.Val); listT != "" && (t == listT || verRe.ReplaceAllString(t, "") == verRe.ReplaceAllString(listT, "")) {
						listT = listT + " (." + fld + ")"
					}
				}
			}
			switch {
			case strings.HasSuffix(key, ".Name") && strings.Contains(listT, ".Texts"):
				nText++
				c.Check(guard, name+"/text-names/check-before-insert", pos, "text name inserted only after the lookup of the same name failed", "text name "+pretty(key)+" inserted without a failed lookup of the same name")
				c.Check(len(foundNotRejected(f, mu.Map, mu)) == 0, name+"/text-names/clash-is-error", pos, "a name that is already taken always ends in an error", "a text name that is already taken is not always rejected: the branch on which the lookup succeeded can continue (a label would be defined twice)")
				if w, skip := loopSkip(f, mu); skip {
					c.Bad(name+"/text-names/every-text", pos, "some texts are not entered into the name set (an iteration can reach "+c.nearPos(w)+" without the insertion): a later text of the same name is not reported")
				} else {
					c.OK(name+"/text-names/every-text", pos, "every text is entered into the name set")
				}
				// the clash is reported at one of the two texts involved
				{
					okLoc, got := false, ""
					for _, r := range returnsOf(f) {
						if isSuccessReturn(r) || !hasLit(c.mustLits(f, r.Block()), "+"+mapT+"["+key+"]#1") {
							continue
						}
						if call, ok := r.Results[len(r.Results)-1].(*ssa.Call); ok && len(call.Call.Args) > 0 {
							got = c.term(f, call.Call.Args[0])
							if strings.HasSuffix(key, ".Name") && got == strings.TrimSuffix(key, ".Name")+".Token" {
								okLoc = true
							}
						}
					}
					c.Check(okLoc, name+"/text-names/error-at-the-text", pos, "a text name clash is reported at the text whose name is taken", "the text name clash error is located at "+pretty(got)+", expected the token of the text whose name was looked up")
				}
				c.Check(!bypass, name+"/text-names/not-bypassed", pos, "no successful return without the text clash check", "ParseProgram can return successfully without having run the text name clash check (whether a clash is reported would depend on what else is in the file)")
				c.Check(after, name+"/text-names/after-hoisting", pos, "the clash check runs after all statements were parsed (all hoisted texts exist)", "the text clash check can run before parsing is complete")
				okInline, okExplicit := false, false
				for _, st := range fieldFeeds(fn, "ast", "Program", "Texts") {
					v := c.term(fn, st.val)
					if strings.Contains(v, "$0.inlineTexts") && canReach(st.at, at) {
						okInline = true
					}
					if strings.Contains(v, "new#") && strings.Contains(v, "ast.Text") && canReach(st.at, at) && !canReach(at, st.at) {
						okExplicit = true
					}
				}
				c.Check(okInline && okExplicit, name+"/text-names/covers-inline-and-explicit", pos, "checked list = hoisted inline texts + explicit text statements", "the list checked for clashes does not contain both the hoisted inline texts and the explicit text statements")
			case strings.HasSuffix(key, ".Name.Value") && (strings.Contains(listT, ".TopLevelStatements") || strings.Contains(key, "MovementStatement")):
				nMove++
				c.Check(guard, name+"/movement-names/check-before-insert", pos, "movement name inserted only after the lookup of the same name failed", "movement name "+pretty(key)+" inserted without a failed lookup of the same name")
				c.Check(len(foundNotRejected(f, mu.Map, mu)) == 0, name+"/movement-names/clash-is-error", pos, "a name that is already taken always ends in an error", "a movement name that is already taken is not always rejected: the branch on which the lookup succeeded can continue (a label would be defined twice)")
				if w, skip := loopSkipEdges(f, notErrorNorOtherType, mu); skip {
					c.Bad(name+"/movement-names/every-movement", pos, "some movements are not entered into the name set (an iteration can reach "+c.nearPos(w)+" without the insertion)")
				} else {
					c.OK(name+"/movement-names/every-movement", pos, "every movement statement is entered into the name set")
				}
				{
					okLoc := false
					for _, r := range returnsOf(f) {
						if isSuccessReturn(r) || !hasLit(c.mustLits(f, r.Block()), "+"+mapT+"["+key+"]#1") {
							continue
						}
						if call, ok := r.Results[len(r.Results)-1].(*ssa.Call); ok && len(call.Call.Args) > 0 {
							got := c.term(f, call.Call.Args[0])
							// at one of the two movement statements involved: the one found in the set, or the one being checked
							if strings.HasSuffix(got, ".Token") && (strings.Contains(got, mapT+"[") || strings.Contains(got, "MovementStatement")) {
								okLoc = true
							}
						}
					}
					c.Check(okLoc, name+"/movement-names/error-at-a-movement", pos, "a movement name clash is reported at one of the two movements", "the movement name clash error is not located at the token of one of the two movement statements involved")
				}
				c.Check(!bypass, name+"/movement-names/not-bypassed", pos, "no successful return without the movement clash check", "ParseProgram can return successfully without having run the movement name clash check (whether a clash is reported would depend on what else is in the file)")
				c.Check(after, name+"/movement-names/after-hoisting", pos, "the clash check runs after all statements were parsed", "the movement clash check can run before parsing is complete")
				okInline := false
				for _, st := range fieldFeeds(fn, "ast", "Program", "TopLevelStatements") {
					if canReach(st.at, at) && !canReach(at, st.at) {
						for _, e := range appendElems(st.val) {
							if strings.Contains(c.term(fn, e), "$0.inlineMovements") {
								okInline = true
								if w, skip := loopSkip(fn, st.at); skip {
									c.Bad(name+"/movement-names/every-hoisted-movement", c.W.Pos(st.Pos()), "some hoisted movements are not added to the program (an iteration can reach "+c.nearPos(w)+" without the append): the label a command refers to would never be defined")
								} else {
									c.OK(name+"/movement-names/every-hoisted-movement", c.W.Pos(st.Pos()), "every hoisted movement is added to the program")
								}
							}
						}
					}
				}
				c.Check(okInline, name+"/movement-names/covers-inline", pos, "hoisted movements are added to the checked list first", "hoisted inline movements are not appended to the statements that are checked for name clashes")
			}
		})
	}
	c.Check(nText == 1, name+"/text-names/site", c.W.FuncPos(fn), "one text-name set", fmt.Sprintf("found %d text-name insertions", nText))
	c.Check(nMove == 1, name+"/movement-names/site", c.W.FuncPos(fn), "one movement-name set", fmt.Sprintf("found %d movement-name insertions", nMove))
}

// appendElems returns the single elements appended by `append(x, e)` (v is the append call).
func appendElems(v ssa.Value) []ssa.Value {
	call, ok := v.(*ssa.Call)
	if !ok || calleeName(call) != "builtin:append" || len(call.Call.Args) < 2 {
		return nil
	}
	return varargElems(call.Call.Args[1])
}

// canReach: some path leads from instruction a to instruction b.
func canReach(a, b ssa.Instruction) bool {
	_, ok := existsPath(pathQuery{from: after(a), target: func(in ssa.Instruction) bool { return in == b }})
	return ok
}

func c20e(c *Ctx) {
	rs := c.Fn("emitter.chunk.renderStatements")
	rc := c.Fn("emitter.Emitter.renderChunks")
	emit := c.Fn("emitter.Emitter.Emit")
	rl := c.Fn("emitter.renderLabelStatement")
	if rs == nil || rc == nil || emit == nil || rl == nil {
		return
	}
	for i, call := range callsToIn(rs, rl) {
		must := c.mustLits(rs, call.Block())
		lbl := c.term(rs, call.Common().Args[0])
		pos := c.W.Pos(call.Pos())
		c.Check(hasLit(must, "-$2["+lbl+".Name.Value]#1"), fmt.Sprintf("renderStatements/label#%d/chunk-labels", i), pos, "label rendered only if it is not one of the script's generated chunk labels", "a script label is rendered without testing it against the generated chunk labels")
		c.Check(hasLit(must, "-$3["+lbl+".Name.Value]#1"), fmt.Sprintf("renderStatements/label#%d/text-labels", i), pos, "label rendered only if it is not a text label", "a script label is rendered without testing it against the text labels")
	}
	// a label that is taken is an error, never skipped or rendered anyway: the branch on which
	// either lookup succeeded ends in a failing return
	for i, par := range []int{2, 3} {
		if par < len(rs.Params) {
			bad := foundNotRejected(rs, rs.Params[par])
			c.Check(len(bad) == 0, fmt.Sprintf("renderStatements/taken-label-is-error#%d", i), c.W.FuncPos(rs), "a script label that clashes with a generated label ends in an error", "a script label that is found in the "+[]string{"chunk-label", "text-label"}[i]+" set is not always rejected: the branch on which the lookup succeeded can go on (the label would be dropped or defined twice, and a goto to it would land in generated code)")
		}
	}
	// the sets only grow while they are built: nothing is taken out again
	for _, f := range []*ssa.Function{rc, emit, rs} {
		for _, ci := range callsIn(f) {
			if calleeName(ci) != "builtin:delete" {
				continue
			}
			m := ci.Common().Args[0]
			mt, isMap := m.Type().Underlying().(*types.Map)
			if !isMap {
				continue
			}
			if st, isSt := mt.Elem().Underlying().(*types.Struct); isSt && st.NumFields() == 0 && types.Identical(mt.Key(), types.Typ[types.String]) {
				c.Bad(fmt.Sprintf("%s/label-set-shrinks@%d", f.Name(), c.T(f).callOrd[ci]), c.W.Pos(ci.Pos()), f.Name()+" deletes "+pretty(c.term(f, ci.Common().Args[1]))+" from a label set: a script label of that name would no longer be rejected")
			}
		}
	}
	// errors on the clash paths carry the label token
	for _, r := range returnsOf(rs) {
		call, ok := r.Results[0].(*ssa.Call)
		if !ok || calleeName(call) != c.W.ModPath+"/parser.NewParseError" {
			continue
		}
		tok := c.term(rs, call.Call.Args[0])
		c.Check(strings.HasSuffix(tok, ".Token") && strings.Contains(tok, "assert<*ast.LabelStatement>"), "renderStatements/clash-error-at-label", c.W.Pos(r.Pos()), "clash error located at the label", "clash error located at "+pretty(tok)+", expected the label's token")
	}
	// renderChunks: chunkLabels holds the label of every chunk and is what renderStatements receives
	okBuild := false
	var chunkLabelsMap ssa.Value
	instrs(rc, func(in ssa.Instruction) {
		mu, ok := in.(*ssa.MapUpdate)
		if !ok {
			return
		}
		k := c.term(rc, mu.Key)
		if strings.HasPrefix(k, "(*emitter.chunk).getLabel(") && strings.Contains(k, ",$2)") {
			okBuild = true
			chunkLabelsMap = mu.Map
		}
	})
	// ... or by a helper that returns the set it has just filled
	var builtBy ssa.Value
	if !okBuild {
		for _, call := range callsToIn(rc, rs) {
			hc, isCall := call.Common().Args[2].(*ssa.Call)
			if !isCall {
				continue
			}
			g := callee(hc)
			if g == nil || !c.W.InRepo(g) {
				continue
			}
			// the helper writes nothing but the set it builds
			onlyLocal := true
			for _, w := range c.Eff().Writes(g) {
				onlyLocal = onlyLocal && strings.HasPrefix(w, "map:")
			}
			instrs(g, func(in ssa.Instruction) {
				if mu, ok := in.(*ssa.MapUpdate); ok {
					_, isLocal := mu.Map.(*ssa.MakeMap)
					onlyLocal = onlyLocal && isLocal
				}
			})
			if !onlyLocal {
				continue
			}
			instrs(g, func(in ssa.Instruction) {
				mu, ok := in.(*ssa.MapUpdate)
				if !ok {
					return
				}
				if _, isLocal := mu.Map.(*ssa.MakeMap); !isLocal {
					return
				}
				returned := false
				for _, r := range returnsOf(g) {
					returned = returned || (len(r.Results) == 1 && r.Results[0] == mu.Map)
				}
				k := c.term(g, mu.Key)
				for i, a := range hc.Call.Args {
					if returned && strings.HasPrefix(k, "(*emitter.chunk).getLabel(") && strings.Contains(k, fmt.Sprintf(",$%d)", i)) && c.term(rc, a) == "$2" {
						okBuild = true
						builtBy = hc
						if w, skip := loopSkip(g, mu); skip {
							c.Bad("renderChunks/chunk-labels-every-chunk", c.W.Pos(mu.Pos()), "some chunks are left out of the chunk-label set (an iteration can reach "+c.nearPos(w)+" without the insertion)")
						}
					}
				}
			})
		}
	}
	if chunkLabelsMap != nil {
		instrs(rc, func(in ssa.Instruction) {
			if mu, ok := in.(*ssa.MapUpdate); ok && mu.Map == chunkLabelsMap {
				w, skip := loopSkip(rc, mu)
				c.Check(!skip, "renderChunks/chunk-labels-every-chunk", c.W.Pos(mu.Pos()), "no chunk is left out of the chunk-label set", func() string {
					if !skip {
						return ""
					}
					return "some chunks are left out of the chunk-label set (an iteration can reach " + c.nearPos(w) + " without the insertion): a script label equal to such a chunk's label is accepted and defined twice"
				}())
			}
		})
	}
	c.Check(okBuild, "renderChunks/chunk-labels-built", c.W.FuncPos(rc), "generated label of every chunk of the script is collected", "renderChunks does not collect getLabel(scriptName) of its chunks")
	if chunkLabelsMap != nil {
		_, isLocal := chunkLabelsMap.(*ssa.MakeMap)
		c.Check(isLocal, "renderChunks/chunk-labels-local", c.W.FuncPos(rc), "the chunk-label set is local to the script being rendered", "chunk labels are collected into a map that outlives the script (labels of one script would be rejected in another)")
		for _, call := range callsToIn(rc, rs) {
			// the set is complete before the first statement is rendered
			complete := true
			instrs(rc, func(in ssa.Instruction) {
				if mu, ok := in.(*ssa.MapUpdate); ok && mu.Map == chunkLabelsMap && canReach(call.(ssa.Instruction), mu) {
					complete = false
				}
			})
			c.Check(complete, "renderChunks/chunk-labels-complete-before-rendering", c.W.Pos(call.Pos()), "all generated labels are collected before any statement is rendered", "generated chunk labels are still being collected while statements are rendered: a script label is only checked against the chunks rendered so far")
			a := call.Common().Args
			c.Check(a[2] == chunkLabelsMap && c.term(rc, a[3]) == "$4", "renderChunks/passes-both-sets", c.W.Pos(call.Pos()), "renderStatements receives the chunk-label set and the text-label set", "renderStatements is not given (chunkLabels, textLabels)")
		}
	}
	if builtBy != nil {
		for _, call := range callsToIn(rc, rs) {
			a := call.Common().Args
			c.Check(a[2] == builtBy && c.term(rc, a[3]) == "$4", "renderChunks/passes-both-sets", c.W.Pos(call.Pos()), "renderStatements receives the chunk-label set and the text-label set", "renderStatements is not given (chunkLabels, textLabels)")
		}
	}
	// Emit: textLabels built from every program text and handed down
	okTexts := false
	var textMap ssa.Value
	instrs(emit, func(in ssa.Instruction) {
		mu, ok := in.(*ssa.MapUpdate)
		if !ok {
			return
		}
		k := c.term(emit, mu.Key)
		if strings.HasPrefix(k, "$0.program.Texts[") && strings.HasSuffix(k, "].Name") {
			okTexts = true
			textMap = mu.Map
		}
	})
	// ... or by a helper that fills and returns the set for the list it is given
	if !okTexts {
		for _, ci := range callsIn(emit) {
			hc, isCall := ci.(*ssa.Call)
			g := callee(ci)
			if !isCall || g == nil || !c.W.InRepo(g) || len(g.Blocks) == 0 {
				continue
			}
			instrs(g, func(in ssa.Instruction) {
				mu, ok := in.(*ssa.MapUpdate)
				if !ok || !freshMap(mu.Map) {
					return
				}
				returned := false
				for _, r := range returnsOf(g) {
					returned = returned || (len(r.Results) == 1 && r.Results[0] == mu.Map)
				}
				k := c.term(g, mu.Key)
				// the key seen from Emit: the helper may be given the list, or read it from the emitter it is given
				kEmit := c.substParams(emit, hc, k)
				viaEmitter := returned && strings.HasPrefix(kEmit, "$0.program.Texts[") && strings.HasSuffix(kEmit, "].Name")
				for i, a := range hc.Call.Args {
					if (returned && strings.HasPrefix(k, fmt.Sprintf("$%d[", i)) && strings.HasSuffix(k, "].Name") && c.term(emit, a) == "$0.program.Texts") || (viaEmitter && i == 0 && !okTexts) {
						okTexts = true
						textMap = hc
						if w, skip := loopSkip(g, mu); skip {
							c.Bad("Emit/text-labels-every-text", c.W.Pos(mu.Pos()), "some program texts are left out of the text-label set (an iteration can reach "+c.nearPos(w)+" without the insertion)")
						}
					}
				}
			})
		}
	}
	for _, f := range []*ssa.Function{emit} {
		instrs(f, func(in ssa.Instruction) {
			if mu, ok := in.(*ssa.MapUpdate); ok && mu.Map == textMap {
				w, skip := loopSkip(f, mu)
				c.Check(!skip, "Emit/text-labels-every-text", c.W.Pos(mu.Pos()), "no program text is left out of the text-label set", func() string {
					if !skip {
						return ""
					}
					return "some program texts are left out of the text-label set (an iteration can reach " + c.nearPos(w) + " without the insertion): a script label equal to such a text's name is accepted and defined twice"
				}())
			}
		})
	}
	c.Check(okTexts, "Emit/text-labels-built", c.W.FuncPos(emit), "the text-label set holds the name of every program text (hoisted and explicit)", "Emit does not build the text-label set from program.Texts (hoisted text labels would not be protected)")
	if textMap != nil {
		for _, anchor := range []string{"emitter.Emitter.emitScriptStatement", "emitter.Emitter.emitMapScriptStatement"} {
			f := c.Fn(anchor)
			if f == nil {
				continue
			}
			for _, call := range callsToIn(emit, f) {
				args := call.Common().Args
				c.Check(args[len(args)-1] == textMap, "Emit/passes-text-labels/"+f.Name(), c.W.Pos(call.Pos()), "text-label set handed to the script emitter", "the script emitter is not given the text-label set")
				// ... complete: no name is still being entered once a script is being rendered
				complete := true
				instrs(emit, func(in ssa.Instruction) {
					if mu, ok := in.(*ssa.MapUpdate); ok && mu.Map == textMap && canReach(call.(ssa.Instruction), mu) {
						complete = false
					}
				})
				c.Check(complete, "Emit/text-labels-complete-before-rendering/"+f.Name(), c.W.Pos(call.Pos()), "all text names are collected before any script is rendered", "text names are still being entered into the set after a script was rendered: a script label is only checked against the texts seen so far (a label equal to a text's name is accepted and defined twice)")
			}
		}
		// ... and every other route to the script emitter hands on the set its caller was given
		if es := c.Fn("emitter.Emitter.emitScriptStatement"); es != nil {
			var given func(f *ssa.Function, call ssa.CallInstruction, depth int) bool
			given = func(f *ssa.Function, call ssa.CallInstruction, depth int) bool {
				args := call.Common().Args
				a := args[len(args)-1]
				if f == emit {
					return a == textMap
				}
				par, isPar := a.(*ssa.Parameter)
				if !isPar || depth > 3 {
					return false
				}
				if len(f.Params) == 0 || f.Params[len(f.Params)-1] != par {
					return false
				}
				sites := c.W.callsTo(f)
				n := 0
				for _, s := range sites {
					if isTestFunc(c.W, s.Parent()) {
						continue
					}
					n++
					if !given(s.Parent(), s, depth+1) {
						return false
					}
				}
				return n > 0
			}
			for _, call := range c.W.callsTo(es) {
				f := call.Parent()
				if f == emit || isTestFunc(c.W, f) {
					continue
				}
				c.Check(given(f, call, 0), "passes-text-labels/"+c.W.FuncKey(f)+fmt.Sprintf("/emitScriptStatement@%d", c.T(f).callOrd[call]), c.W.Pos(call.Pos()), "the script emitter receives the text-label set built in Emit", "this call of emitScriptStatement does not hand on the text-label set built in Emit: labels in this script are not checked against text names")
			}
		}
		if es := c.Fn("emitter.Emitter.emitScriptStatement"); es != nil {
			for _, call := range callsToIn(es, rc) {
				args := call.Common().Args
				c.Check(c.term(es, args[len(args)-1]) == "$2", "emitScriptStatement/passes-text-labels", c.W.Pos(call.Pos()), "text-label set handed to renderChunks", "renderChunks is not given the text-label set")
			}
		}
	}
}

// popCalls: the call sites in fn that pop the scope stack (directly or through a wrapper).
func popCalls(fn *ssa.Function, isPop func(ssa.Instruction) bool) []ssa.CallInstruction {
	var out []ssa.CallInstruction
	for _, ci := range callsIn(fn) {
		if isPop(ci.(ssa.Instruction)) {
			out = append(out, ci)
		}
	}
	return out
}
