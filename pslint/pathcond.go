package main

// Path conditions: for every block the disjunctive normal form, over the branch
// conditions (as K-ORIGIN terms), of the ways control can reach it from the function
// entry along forward edges. Used for K-TABLE guard extraction and for
// "holds on every path to X" facts. Pure propositional bookkeeping — no solver.

import (
	"go/constant"
	"go/token"
	"go/types"
	"regexp"
	"sort"
	"strconv"
	"strings"

	"golang.org/x/tools/go/ssa"
)

type conj []string // sorted literals "+term" / "-term"

type dnf struct {
	cs      []conj
	unknown bool // too large: treated as "true" (no facts)
}

func (c conj) String() string { return strings.Join(c, " & ") }

func (d dnf) String() string {
	if d.unknown {
		return "<unknown>"
	}
	var s []string
	for _, c := range d.cs {
		if len(c) == 0 {
			s = append(s, "true")
		} else {
			s = append(s, "("+c.String()+")")
		}
	}
	sort.Strings(s)
	return strings.Join(s, " | ")
}

func negLit(l string) string {
	if l[0] == '+' {
		return "-" + l[1:]
	}
	return "+" + l[1:]
}

func conjAdd(c conj, lit string) (conj, bool) {
	for _, x := range c {
		if x == lit {
			return c, true
		}
		if x == negLit(lit) {
			return nil, false
		}
	}
	n := append(conj{}, c...)
	n = append(n, lit)
	sort.Strings(n)
	return n, true
}

func conjKey(c conj) string { return strings.Join(c, "\x00") }

func subset(a, b conj) bool { // a ⊆ b
	i := 0
	for _, x := range b {
		if i < len(a) && a[i] == x {
			i++
		}
	}
	return i == len(a)
}

func simplify(cs []conj) []conj {
	// dedupe
	seen := map[string]bool{}
	var out []conj
	for _, c := range cs {
		k := conjKey(c)
		if !seen[k] {
			seen[k] = true
			out = append(out, c)
		}
	}
	changed := true
	for changed {
		changed = false
		// resolution: (A & X) | (!A & X) => X
	outer:
		for i := 0; i < len(out); i++ {
			for j := i + 1; j < len(out); j++ {
				if len(out[i]) != len(out[j]) {
					continue
				}
				diff := -1
				ok := true
				for k := range out[i] {
					if out[i][k] != out[j][k] {
						if diff >= 0 {
							ok = false
							break
						}
						diff = k
					}
				}
				if ok && diff >= 0 && out[i][diff] == negLit(out[j][diff]) {
					var n conj
					n = append(n, out[i][:diff]...)
					n = append(n, out[i][diff+1:]...)
					out[i] = n
					out = append(out[:j], out[j+1:]...)
					changed = true
					break outer
				}
			}
		}
		// absorption
		var kept []conj
		for i, c := range out {
			absorbed := false
			for j, d := range out {
				if i != j && subset(d, c) && (len(d) < len(c) || j < i) {
					absorbed = true
					break
				}
			}
			if !absorbed {
				kept = append(kept, c)
			} else {
				changed = true
			}
		}
		out = kept
	}
	sort.Slice(out, func(i, j int) bool { return conjKey(out[i]) < conjKey(out[j]) })
	return out
}

// PathConds computes the reaching condition of every block of t.fn.
type PathConds struct {
	t    *Terms
	cond map[*ssa.BasicBlock]dnf
}

const maxConj = 96

func NewPathConds(t *Terms) *PathConds {
	p := &PathConds{t: t, cond: map[*ssa.BasicBlock]dnf{}}
	if len(t.fn.Blocks) == 0 {
		return p
	}
	p.cond[t.fn.Blocks[0]] = dnf{cs: []conj{{}}}
	for _, b := range t.rpo {
		if b == t.fn.Blocks[0] {
			continue
		}
		var acc []conj
		unknown := false
		for _, pr := range b.Preds {
			if b.Dominates(pr) {
				continue // back edge
			}
			if _, ok := p.cond[pr]; !ok {
				continue
			}
			cs, known := p.through(pr, b, 0)
			if !known {
				unknown = true
				break
			}
			acc = append(acc, cs...)
		}
		if unknown {
			p.cond[b] = dnf{unknown: true}
			continue
		}
		acc = simplify(acc)
		if len(acc) > maxConj {
			p.cond[b] = dnf{unknown: true}
			continue
		}
		p.cond[b] = dnf{cs: acc}
	}
	return p
}

// through: the ways control reaches `to` through its predecessor `from`. Normally the
// reaching condition of `from` conjoined with the condition of the edge. When `from`
// branches on a merged boolean of its own (`x := a || b` materialised as a phi, as in
// `switch { case a || b: }`), the merge is resolved per incoming edge: an edge that brings
// the constant true only continues to the true successor, an edge that brings a computed
// value contributes that value's literal.
func (p *PathConds) through(from, to *ssa.BasicBlock, depth int) ([]conj, bool) {
	pc := p.cond[from]
	if pc.unknown {
		return nil, false
	}
	if isLoopHeader(from) && !loopBody(from)[to] {
		// leaving a loop at its head: an exit test on a loop counter (a φ of the head) says
		// nothing later code is interested in and is dropped; an exit test on memory
		// (`for p.curToken.Type != ":" && ...`) is kept: the cells it read keep their terms
		// until they are written again
		eds := p.edgeDNF(from, to)
		keep := len(eds) == 1
		if keep {
			for _, l := range eds[0] {
				if strings.Contains(l, "phi(") || strings.Contains(l, "mu(") || strings.Contains(l, "next?") {
					keep = false
				}
			}
		}
		if !keep {
			return pc.cs, true
		}
	}
	if ph, want, ok := phiBranch(from, to); ok && !isLoopHeader(from) {
		if cs, known := p.valueWays(ph, from, want, depth); known {
			return cs, true
		}
	}
	var out []conj
	eds := p.edgeDNF(from, to)
	for _, c := range pc.cs {
		for _, e := range eds {
			if n, ok := conjMerge(c, e); ok {
				out = append(out, n)
			}
		}
	}
	return out, true
}

// valueWays: the ways of reaching the end of block `at` with the boolean v equal to want.
func (p *PathConds) valueWays(v ssa.Value, at *ssa.BasicBlock, want bool, depth int) ([]conj, bool) {
	pc, ok := p.cond[at]
	if !ok || pc.unknown || depth > 6 {
		return nil, false
	}
	switch x := v.(type) {
	case *ssa.Const:
		if x.Value != nil && x.Value.Kind() == constant.Bool {
			if constant.BoolVal(x.Value) == want {
				return pc.cs, true
			}
			return nil, true
		}
	case *ssa.UnOp:
		if x.Op == token.NOT {
			return p.valueWays(x.X, at, !want, depth)
		}
	case *ssa.Phi:
		if x.Block() == at && !isLoopHeader(at) {
			var out []conj
			for i, e := range x.Edges {
				q := at.Preds[i]
				if _, ok := p.cond[q]; !ok {
					continue
				}
				ways, known := p.valueWays(e, q, want, depth+1)
				if !known {
					return nil, false
				}
				var eds []conj
				if _, _, isPB := phiBranch(q, at); isPB {
					eds = []conj{{}}
					if lit := p.edgeLit(q, at); lit != "" {
						eds = []conj{{lit}}
					}
				} else {
					eds = p.edgeDNF(q, at)
				}
				for _, w := range ways {
					for _, ed := range eds {
						if n, ok := conjMerge(w, ed); ok {
							out = append(out, n)
						}
					}
				}
			}
			return simplify(out), true
		}
	}
	term, neg := normCondTerm(p.t.Term(v))
	pos := want
	if neg {
		pos = !pos
	}
	lit := "-" + term
	if pos {
		lit = "+" + term
	}
	var out []conj
	for _, c := range pc.cs {
		if n, ok := conjAdd(c, lit); ok {
			out = append(out, n)
		}
	}
	return out, true
}

// phiBranch: `from` ends in a two-way branch on a boolean merge defined in `from` itself;
// want is the value of the merge on the edge to `to`.
func phiBranch(from, to *ssa.BasicBlock) (*ssa.Phi, bool, bool) {
	if len(from.Instrs) == 0 || len(from.Succs) != 2 || from.Succs[0] == from.Succs[1] {
		return nil, false, false
	}
	ifi, ok := from.Instrs[len(from.Instrs)-1].(*ssa.If)
	if !ok {
		return nil, false, false
	}
	v := ifi.Cond
	want := from.Succs[0] == to
	for {
		u, ok := v.(*ssa.UnOp)
		if !ok || u.Op != token.NOT {
			break
		}
		v = u.X
		want = !want
	}
	ph, ok := v.(*ssa.Phi)
	if !ok || ph.Block() != from {
		return nil, false, false
	}
	return ph, want, true
}

// edgeLit is the literal that holds on the edge from -> to ("" when unconditional, or
// when both successors are the same block).
func (p *PathConds) edgeLit(from, to *ssa.BasicBlock) string {
	if len(from.Instrs) == 0 {
		return ""
	}
	ifi, ok := from.Instrs[len(from.Instrs)-1].(*ssa.If)
	if !ok {
		return ""
	}
	if from.Succs[0] == from.Succs[1] {
		return ""
	}
	term, neg := normCondTerm(p.t.Term(ifi.Cond))
	pos := from.Succs[0] == to
	if neg {
		pos = !pos
	}
	if pos {
		return "+" + term
	}
	return "-" + term
}

// topLevelOp finds op at parenthesis depth 1 of a fully parenthesised term.
func topLevelOp(term, op string) int {
	depth := 0
	inStr := false
	for i := 0; i < len(term); i++ {
		ch := term[i]
		if ch == '"' && (i == 0 || term[i-1] != '\\') {
			inStr = !inStr
		}
		if inStr {
			continue
		}
		switch ch {
		case '(', '[':
			depth++
		case ')', ']':
			depth--
		}
		if depth == 1 && strings.HasPrefix(term[i:], op) {
			return i
		}
	}
	return -1
}

// At returns the reaching condition of block b.
func (p *PathConds) At(b *ssa.BasicBlock) dnf { return p.cond[b] }

// domMust: literals implied by dominance alone — for every dominator d of b that ends in
// a two-way branch, if b is dominated by a successor s of d that can only be entered
// through that edge, the literal of the edge d->s holds at b. Sound regardless of the
// size of the path condition.
func (p *PathConds) domMust(b *ssa.BasicBlock) []string {
	var out []string
	seen := map[string]bool{}
	for x := b; x != nil; x = x.Idom() {
		d := x.Idom()
		if d == nil {
			break
		}
		if len(d.Succs) != 2 || d.Succs[0] == d.Succs[1] {
			continue
		}
		for _, s := range d.Succs {
			if len(s.Preds) == 1 && s.Dominates(b) {
				if isLoopHeader(d) && !loopBody(d)[s] {
					continue
				}
				if eds := p.edgeDNF(d, s); len(eds) == 1 {
					for _, lit := range eds[0] {
						if !seen[lit] {
							seen[lit] = true
							out = append(out, lit)
						}
					}
				}
			}
		}
	}
	return out
}

// Must returns the literals that hold on every path to b.
func (p *PathConds) Must(b *ssa.BasicBlock) []string {
	d := p.cond[b]
	if d.unknown || len(d.cs) == 0 {
		out := p.domMust(b)
		sort.Strings(out)
		return out
	}
	count := map[string]int{}
	for _, c := range d.cs {
		for _, l := range c {
			count[l]++
		}
	}
	var out []string
	for l, n := range count {
		if n == len(d.cs) {
			out = append(out, l)
		}
	}
	sort.Strings(out)
	return out
}

// Holds reports whether literal lit holds on every path to b.
func (p *PathConds) Holds(b *ssa.BasicBlock, lit string) bool {
	for _, l := range p.Must(b) {
		if l == lit {
			return true
		}
	}
	return false
}

// dnfAtoms collects the atoms of a DNF.
func dnfAtoms(ds ...dnf) []string {
	set := map[string]bool{}
	for _, d := range ds {
		for _, c := range d.cs {
			for _, l := range c {
				set[l[1:]] = true
			}
		}
	}
	var out []string
	for a := range set {
		out = append(out, a)
	}
	sort.Strings(out)
	return out
}

func evalDNF(d dnf, asg map[string]bool) bool {
	for _, c := range d.cs {
		ok := true
		for _, l := range c {
			if asg[l[1:]] != (l[0] == '+') {
				ok = false
				break
			}
		}
		if ok {
			return true
		}
	}
	return false
}

// dnfEquiv decides propositional equivalence by truth table (atoms are opaque; at most 16).
func dnfEquiv(a, b dnf) bool {
	if a.unknown || b.unknown {
		return false
	}
	atoms := dnfAtoms(a, b)
	if len(atoms) > 16 {
		return false
	}
	for mask := 0; mask < 1<<uint(len(atoms)); mask++ {
		asg := map[string]bool{}
		for i, at := range atoms {
			asg[at] = mask&(1<<uint(i)) != 0
		}
		if evalDNF(a, asg) != evalDNF(b, asg) {
			return false
		}
	}
	return true
}

// dnfImplies decides a => b by truth table.
func dnfImplies(a, b dnf) bool {
	if a.unknown || b.unknown {
		return false
	}
	atoms := dnfAtoms(a, b)
	if len(atoms) > 16 {
		return false
	}
	for mask := 0; mask < 1<<uint(len(atoms)); mask++ {
		asg := map[string]bool{}
		for i, at := range atoms {
			asg[at] = mask&(1<<uint(i)) != 0
		}
		if evalDNF(a, asg) && !evalDNF(b, asg) {
			return false
		}
	}
	return true
}

// mkDNF builds a DNF from conjunctions of literals ("+a", "-b").
func mkDNF(conjs ...[]string) dnf {
	var d dnf
	for _, c := range conjs {
		cc := append(conj{}, c...)
		sort.Strings(cc)
		d.cs = append(d.cs, cc)
	}
	return d
}

// canonOf renames parameters in every literal of d.
func (p *PathConds) canonOf(d dnf) dnf {
	out := dnf{unknown: d.unknown}
	for _, c := range d.cs {
		var cc conj
		for _, l := range c {
			cc = append(cc, l[:1]+p.t.Canon(l[1:]))
		}
		sort.Strings(cc)
		out.cs = append(out.cs, cc)
	}
	return out
}

// dnfEquivDomain decides equivalence of a and b where atoms of the form (T == "c"), for
// a term T listed in domains, are interpreted over the finite set of values T can take
// (so `T != "x"` and `T == "y"` agree when the domain is {x, y}). Other atoms are free.
func dnfEquivDomain(a, b dnf, domains map[string][]string) bool {
	if a.unknown || b.unknown {
		return false
	}
	var free []string
	type eqAtom struct{ term, val string }
	eq := map[string]eqAtom{}
	for _, at := range dnfAtoms(a, b) {
		matched := false
		for t := range domains {
			pre := "(" + t + " == \""
			if strings.HasPrefix(at, pre) && strings.HasSuffix(at, "\")") {
				eq[at] = eqAtom{t, strings.TrimSuffix(strings.TrimPrefix(at, pre), "\")")}
				matched = true
			}
		}
		if !matched {
			free = append(free, at)
		}
	}
	if len(free) > 12 {
		return false
	}
	var terms []string
	for t := range domains {
		terms = append(terms, t)
	}
	sort.Strings(terms)
	var rec func(i int, asgT map[string]string) bool
	rec = func(i int, asgT map[string]string) bool {
		if i < len(terms) {
			for _, v := range domains[terms[i]] {
				asgT[terms[i]] = v
				if !rec(i+1, asgT) {
					return false
				}
			}
			return true
		}
		for mask := 0; mask < 1<<uint(len(free)); mask++ {
			asg := map[string]bool{}
			for j, at := range free {
				asg[at] = mask&(1<<uint(j)) != 0
			}
			for at, e := range eq {
				asg[at] = asgT[e.term] == e.val
			}
			if evalDNF(a, asg) != evalDNF(b, asg) {
				return false
			}
		}
		return true
	}
	return rec(0, map[string]string{})
}

// ---------------------------------------------------------------------------------------
// Predicate helpers. A branch on `g(args)` where g is a small, loop-free, side-effect-free
// repo function returning one bool is expanded into g's own return condition, rewritten
// into the caller's terms ($k.f.. is read in the caller's memory at the call). A condition
// written inline and the same condition moved into a named helper thus give the same
// reaching conditions. Predicates that rules refer to by name stay opaque (opaquePreds).

// Character classes of the lexer and word classes of the text formatter are vocabulary of
// the rules themselves (C07, C18.g compare guards by predicate name); they stay opaque.
func isOpaquePred(g *ssa.Function) bool {
	inLexer := g.Pkg != nil && strings.HasSuffix(g.Pkg.Pkg.Path(), "/lexer")
	isFont := false
	if recv := g.Signature.Recv(); recv != nil && strings.HasSuffix(recv.Type().String(), "parser.FontConfig") {
		isFont = true
	}
	if !inLexer && !isFont {
		return false
	}
	// classes of characters / words: predicates over a rune or a string argument
	params := g.Params
	if g.Signature.Recv() != nil && len(params) > 0 {
		params = params[1:]
	}
	if len(params) != 1 {
		return false
	}
	if b, ok := params[0].Type().Underlying().(*types.Basic); ok && (b.Kind() == types.Int32 || b.Kind() == types.String || b.Kind() == types.UntypedRune) {
		return true
	}
	return false
}

type boolSummary struct {
	pos, neg []conj // result is true / false; atoms over $k of the helper
}

var boolSumCache = map[*ssa.Function]*boolSummary{}

var quotedRe = regexp.MustCompile(`"(?:[^"\\]|\\.)*"`)

var constLookupRe = regexp.MustCompile(`@([a-z]+)\.([A-Za-z_][A-Za-z_0-9]*)\[([^\[\]@!#]*)\](?:#[01])?`)

var recvCallRe = regexp.MustCompile(`\(\*([a-z]+)\.([A-Za-z_][A-Za-z_0-9]*)\)\.([A-Za-z_][A-Za-z_0-9]*)\(\$0\)@(\d+)`)

var paramPathRe = regexp.MustCompile(`\$(\d+)((?:\.[A-Za-z_][A-Za-z_0-9]*)*)`)

func (p *PathConds) boolSummaryOf(g *ssa.Function) *boolSummary {
	if s, ok := boolSumCache[g]; ok {
		return s
	}
	boolSumCache[g] = nil
	if isOpaquePred(g) {
		return nil
	}
	s := p.boolSummaryAny(g)
	boolSumCache[g] = s
	return s
}

// boolSummaryAny: the summary of any small predicate, also of those that path conditions keep
// opaque because the rules use them as vocabulary (their definitions are checked through this).
func (p *PathConds) boolSummaryAny(g *ssa.Function) *boolSummary {
	t := p.t
	if !t.w.InRepo(g) || len(g.Blocks) == 0 || len(g.Blocks) > 16 {
		return nil
	}
	res := g.Signature.Results()
	if res.Len() != 1 || !types.Identical(res.At(0).Type().Underlying(), types.Typ[types.Bool]) {
		return nil
	}
	if t.purity(g) < purReadOnly {
		return nil
	}
	for _, b := range g.Blocks {
		if isLoopHeader(b) {
			return nil
		}
		for _, in := range b.Instrs {
			switch in.(type) {
			case *ssa.Defer, *ssa.Go, *ssa.Panic, *ssa.MakeClosure:
				return nil
			}
		}
	}
	tg := t.w.TermsOf(g, t.eff)
	pg := NewPathConds(tg)
	sum := &boolSummary{}
	okAll := true
	condOf := func(b *ssa.BasicBlock) []conj {
		d := pg.At(b)
		if d.unknown {
			okAll = false
			return nil
		}
		return d.cs
	}
	var valDNF func(v ssa.Value, at *ssa.BasicBlock, base []conj, want bool, depth int) []conj
	valDNF = func(v ssa.Value, at *ssa.BasicBlock, base []conj, want bool, depth int) []conj {
		switch x := v.(type) {
		case *ssa.Const:
			if x.Value != nil && x.Value.Kind() == constant.Bool && constant.BoolVal(x.Value) == want {
				return base
			}
			return nil
		case *ssa.UnOp:
			if x.Op == token.NOT {
				return valDNF(x.X, at, base, !want, depth)
			}
		case *ssa.Phi:
			if x.Block() == at && depth < 4 && !isLoopHeader(at) {
				var out []conj
				for i, e := range x.Edges {
					pr := at.Preds[i]
					var eb []conj
					for _, ec := range pg.edgeDNF(pr, at) {
						for _, c := range condOf(pr) {
							m, ok := conjMerge(c, ec)
							if !ok {
								continue
							}
							for _, bc := range base {
								if m2, ok := conjMerge(m, bc); ok {
									eb = append(eb, m2)
								}
							}
						}
					}
					eb = simplify(eb)
					out = append(out, valDNF(e, pr, eb, want, depth+1)...)
				}
				return out
			}
		}
		term := tg.Term(v)
		lit := "+" + term
		if !want {
			lit = "-" + term
		}
		lit = normLit(lit) // `x != ""` and `len(x) > 0` are one atom
		var out []conj
		for _, c := range base {
			if n, ok := conjAdd(c, lit); ok {
				out = append(out, n)
			}
		}
		return out
	}
	nRet := 0
	for _, b := range g.Blocks {
		if len(b.Instrs) == 0 {
			continue
		}
		r, ok := b.Instrs[len(b.Instrs)-1].(*ssa.Return)
		if !ok || len(r.Results) != 1 {
			continue
		}
		nRet++
		sum.pos = append(sum.pos, valDNF(r.Results[0], b, condOf(b), true, 0)...)
		sum.neg = append(sum.neg, valDNF(r.Results[0], b, condOf(b), false, 0)...)
	}
	if !okAll || nRet == 0 {
		return nil
	}
	sum.pos, sum.neg = simplify(sum.pos), simplify(sum.neg)
	if len(sum.pos)+len(sum.neg) > 24 {
		return nil
	}
	// atoms must be expressible in the caller: parameters, field paths, constants, operators
	for _, cs := range [][]conj{sum.pos, sum.neg} {
		for _, c := range cs {
			for _, l := range c {
				bare := quotedRe.ReplaceAllString(l[1:], `""`)
				// a lookup in a package-level table that is only ever read means the same in the caller
				bare = constLookupRe.ReplaceAllStringFunc(bare, func(m string) string {
					sm := constLookupRe.FindStringSubmatch(m)
					if t.w.constGlobal(sm[1], sm[2]) {
						return "G[" + sm[3] + "]"
					}
					return m
				})
				// the result of a read-only method called on the receiver alone (`l.peekChar()`) is a
				// function of the state the helper was entered in: it can be named in the caller
				bare = recvCallRe.ReplaceAllStringFunc(bare, func(m string) string {
					sm := recvCallRe.FindStringSubmatch(m)
					if h := t.w.Method(sm[1], sm[2], sm[3]); h != nil && t.purity(h) >= purReadOnly && t.purity(g) >= purReadOnly {
						return "R"
					}
					return m
				})
				if strings.ContainsAny(bare, "@!#") || strings.Contains(bare, "phi(") || strings.Contains(bare, "mu(") {
					return nil
				}
			}
		}
	}
	return sum
}

func conjMerge(a, b conj) (conj, bool) {
	out := a
	for _, l := range b {
		var ok bool
		out, ok = conjAdd(out, l)
		if !ok {
			return nil, false
		}
	}
	return out, true
}

// expandCall: the conditions under which call returns true / false, in the caller's terms.
func (p *PathConds) expandCall(call *ssa.Call) (pos, neg []conj, ok bool) {
	g := call.Call.StaticCallee()
	if g == nil || call.Call.IsInvoke() {
		return nil, nil, false
	}
	sum := p.boolSummaryOf(g)
	if sum == nil {
		return nil, nil, false
	}
	pos, ok1 := p.substSummary(call, sum.pos)
	neg, ok2 := p.substSummary(call, sum.neg)
	return pos, neg, ok1 && ok2
}

// substSummary rewrites a summary of call's callee into the caller's terms.
func (p *PathConds) substSummary(call *ssa.Call, src []conj) (out []conj, ok bool) {
	args := call.Call.Args
	subst := func(l string) string {
		return l[:1] + paramPathRe.ReplaceAllStringFunc(l[1:], func(m string) string {
			sm := paramPathRe.FindStringSubmatch(m)
			k, _ := strconv.Atoi(sm[1])
			if k >= len(args) {
				ok = false
				return m
			}
			term := p.t.Term(args[k])
			if sm[2] != "" {
				for _, f := range strings.Split(sm[2][1:], ".") {
					term = p.t.FieldAt(call, term, f)
				}
			}
			return term
		})
	}
	site := p.t.callOrd[call]
	virt := func(l string) string {
		if !strings.Contains(l, "($0)@") {
			return l
		}
		return recvCallRe.ReplaceAllString(l, "(*$1.$2).$3($$0)@v"+strconv.Itoa(site)+"x$4")
	}
	ok = true
	for _, c := range src {
		var n conj
		good := true
		for _, l := range c {
			var g2 bool
			n, g2 = conjAdd(n, normLit(foldPlus(subst(virt(l)))))
			if !g2 {
				good = false
				break
			}
		}
		if good {
			out = append(out, n)
		}
	}
	return out, ok
}

var plusChainRe = regexp.MustCompile(`\+(\d+)\+(\d+)\b`)

// foldPlus adds up constant increments that substitution put next to each other (i+1 for i := j+1).
func foldPlus(s string) string {
	if !strings.Contains(s, "+") {
		return s
	}
	var sb strings.Builder
	last := 0
	fold := func(part string) string {
		for {
			n := plusChainRe.ReplaceAllStringFunc(part, func(m string) string {
				sm := plusChainRe.FindStringSubmatch(m)
				a, _ := strconv.Atoi(sm[1])
				b, _ := strconv.Atoi(sm[2])
				return "+" + strconv.Itoa(a+b)
			})
			if n == part {
				return n
			}
			part = n
		}
	}
	for _, loc := range quotedRe.FindAllStringIndex(s, -1) {
		sb.WriteString(fold(s[last:loc[0]]))
		sb.WriteString(s[loc[0]:loc[1]])
		last = loc[1]
	}
	sb.WriteString(fold(s[last:]))
	return sb.String()
}

var errSumCache = map[*ssa.Function]*boolSummary{}

// errSummaryOf: for a small, loop-free, side-effect-free repo function whose only result is an
// error: pos = the ways it returns nil, neg = the ways it returns a (freshly built) error.
func (p *PathConds) errSummaryOf(g *ssa.Function) *boolSummary {
	if s, ok := errSumCache[g]; ok {
		return s
	}
	errSumCache[g] = nil
	t := p.t
	if !t.w.InRepo(g) || len(g.Blocks) == 0 || len(g.Blocks) > 16 {
		return nil
	}
	res := g.Signature.Results()
	if res.Len() != 1 || !isErrorType(res.At(0).Type()) || t.purity(g) < purReadOnly {
		return nil
	}
	for _, b := range g.Blocks {
		if isLoopHeader(b) {
			return nil
		}
	}
	tg := t.w.TermsOf(g, t.eff)
	pg := NewPathConds(tg)
	sum := &boolSummary{}
	for _, b := range g.Blocks {
		if len(b.Instrs) == 0 {
			continue
		}
		r, ok := b.Instrs[len(b.Instrs)-1].(*ssa.Return)
		if !ok {
			continue
		}
		d := pg.At(b)
		if d.unknown || len(r.Results) != 1 {
			return nil
		}
		switch v := r.Results[0].(type) {
		case *ssa.Const:
			if v.Value != nil {
				return nil
			}
			sum.pos = append(sum.pos, d.cs...)
		case *ssa.MakeInterface:
			sum.neg = append(sum.neg, d.cs...)
		case *ssa.Call:
			if !isErrorCtorCall(v) {
				return nil
			}
			sum.neg = append(sum.neg, d.cs...)
		default:
			return nil
		}
	}
	sum.pos, sum.neg = simplify(sum.pos), simplify(sum.neg)
	for _, cs := range [][]conj{sum.pos, sum.neg} {
		for _, c := range cs {
			for _, l := range c {
				bare := quotedRe.ReplaceAllString(l[1:], `""`)
				if strings.Contains(bare, "@") || tagRe.MatchString(bare) || strings.Contains(bare, "phi(") || strings.Contains(bare, "mu(") {
					return nil
				}
			}
		}
	}
	errSumCache[g] = sum
	return sum
}

// normLit re-normalises a literal after substitution ("!x", "a != b", "a <= b").
func normLit(l string) string {
	pos := l[0] == '+'
	term, flip := normCondTerm(l[1:])
	if flip {
		pos = !pos
	}
	if pos {
		return "+" + term
	}
	return "-" + term
}

func normCondTerm(term string) (string, bool) {
	neg := false
	for strings.HasPrefix(term, "!") {
		term = term[1:]
		neg = !neg
	}
	if strings.HasPrefix(term, "(") && strings.HasSuffix(term, ")") {
		if i := topLevelOp(term, " != "); i > 0 {
			term = term[:i] + " == " + term[i+4:]
			neg = !neg
		}
	}
	if strings.HasPrefix(term, "(") && strings.HasSuffix(term, ")") {
		if i := topLevelOp(term, " <= "); i > 0 {
			term = "(" + term[i+4:len(term)-1] + " < " + term[1:i] + ")"
			neg = !neg
		}
	}
	// emptiness: `len(x) == 0` and `x == ""` are written as the negation of `0 < len(x)`
	if strings.HasPrefix(term, "(builtin:len(") && strings.HasSuffix(term, ") == 0)") {
		inner := term[len("(builtin:len(") : len(term)-len(") == 0)")]
		if balanced(inner) {
			term = "(0 < builtin:len(" + inner + "))"
			neg = !neg
		}
	}
	if strings.HasPrefix(term, "(") && strings.HasSuffix(term, ` == "")`) {
		inner := term[1 : len(term)-len(` == "")`)]
		if balanced(inner) && topLevelOp(term, " == ") == len(term)-len(` == "")`) {
			term = "(0 < builtin:len(" + inner + "))"
			neg = !neg
		}
	}
	// "a < b-1" is written "a+1 < b" (integers; no overflow in index arithmetic)
	if strings.HasPrefix(term, "(") && strings.HasSuffix(term, ")") {
		if i := topLevelOp(term, " < "); i > 0 {
			term = ltTerm(term[1:i], term[i+3:len(term)-1])
		}
	}
	return term, neg
}

var minusK = regexp.MustCompile(`^(.*[^-+*/ (,])-(\d+)$`)

// ltTerm builds the normal form of a < b: a constant subtracted on the right is added on the left.
func ltTerm(a, b string) string {
	if m := minusK.FindStringSubmatch(b); m != nil && balanced(m[1]) {
		k, _ := strconv.Atoi(m[2])
		for j := 0; j < k && k <= 4; j++ {
			a = addOne(a)
		}
		if k <= 4 {
			b = m[1]
		}
	}
	return "(" + a + " < " + b + ")"
}

func balanced(s string) bool {
	d := 0
	inStr := false
	for i := 0; i < len(s); i++ {
		ch := s[i]
		if ch == '"' && (i == 0 || s[i-1] != '\\') {
			inStr = !inStr
		}
		if inStr {
			continue
		}
		switch ch {
		case '(', '[':
			d++
		case ')', ']':
			d--
			if d < 0 {
				return false
			}
		}
	}
	return d == 0
}

// edgeDNF: the condition of the edge from -> to as a disjunction of conjunctions
// ({{}} when unconditional).
func (p *PathConds) edgeDNF(from, to *ssa.BasicBlock) []conj {
	if len(from.Instrs) > 0 && from.Succs != nil && len(from.Succs) == 2 && from.Succs[0] != from.Succs[1] {
		if ifi, ok := from.Instrs[len(from.Instrs)-1].(*ssa.If); ok {
			v := ifi.Cond
			want := from.Succs[0] == to
			for {
				u, ok := v.(*ssa.UnOp)
				if !ok || u.Op != token.NOT {
					break
				}
				v = u.X
				want = !want
			}
			if call, ok := v.(*ssa.Call); ok && p.t.testShapeOf(calleeOrNil(call)) == nil {
				if pos, neg, ok := p.expandCall(call); ok {
					if want {
						return pos
					}
					return neg
				}
			}
			if bo, ok := v.(*ssa.BinOp); ok {
				if out, ok := p.expandCompare(bo, want); ok {
					return out
				}
			}
			// `check(...) == nil` / `!= nil` for a side-effect-free helper that returns an error
			if bo, ok := v.(*ssa.BinOp); ok && (bo.Op == token.EQL || bo.Op == token.NEQ) {
				var cv ssa.Value
				if isNilConst(bo.Y) {
					cv = bo.X
				} else if isNilConst(bo.X) {
					cv = bo.Y
				}
				if call, ok := cv.(*ssa.Call); ok && !call.Call.IsInvoke() && call.Call.StaticCallee() != nil {
					if sum := p.errSummaryOf(call.Call.StaticCallee()); sum != nil {
						isNil := want
						if bo.Op == token.NEQ {
							isNil = !want
						}
						src := sum.neg
						if isNil {
							src = sum.pos
						}
						if out, ok := p.substSummary(call, src); ok {
							return out
						}
					}
				}
			}
		}
	}
	lit := p.edgeLit(from, to)
	if lit == "" {
		return []conj{{}}
	}
	return []conj{{lit}}
}

func calleeOrNil(call *ssa.Call) *ssa.Function {
	if call.Call.IsInvoke() {
		return nil
	}
	return call.Call.StaticCallee()
}

// ---- conditional value helpers -------------------------------------------------------------
// `func (s *T) tail() int { if s.d != nil { return s.d.id }; return s.id }` — a small,
// loop-free, side-effect-free repo function whose result is one of several simple terms,
// each under its own condition. A comparison against such a call is expanded by cases.

type valAlt struct {
	cond conj
	term string
}

var valSumCache = map[*ssa.Function][]valAlt{}

func (p *PathConds) valSummaryOf(g *ssa.Function) []valAlt {
	if s, ok := valSumCache[g]; ok {
		return s
	}
	valSumCache[g] = nil
	t := p.t
	if !t.w.InRepo(g) || len(g.Blocks) < 2 || len(g.Blocks) > 16 || isOpaquePred(g) {
		return nil
	}
	if g.Pkg != nil && strings.HasSuffix(g.Pkg.Pkg.Path(), "/lexer") {
		return nil // peekChar and friends are vocabulary of the lexer rules
	}
	res := g.Signature.Results()
	if res.Len() != 1 || t.purity(g) < purReadOnly {
		return nil
	}
	if b, ok := res.At(0).Type().Underlying().(*types.Basic); !ok || b.Info()&(types.IsInteger|types.IsString) == 0 {
		return nil
	}
	for _, b := range g.Blocks {
		if isLoopHeader(b) {
			return nil
		}
	}
	tg := t.w.TermsOf(g, t.eff)
	pg := NewPathConds(tg)
	var out []valAlt
	clean := func(s string) bool {
		bare := quotedRe.ReplaceAllString(s, `""`)
		return !strings.Contains(bare, "@") && !tagRe.MatchString(bare) && !strings.Contains(bare, "phi(") && !strings.Contains(bare, "mu(") && !strings.Contains(bare, "new#")
	}
	for _, b := range g.Blocks {
		if len(b.Instrs) == 0 {
			continue
		}
		r, ok := b.Instrs[len(b.Instrs)-1].(*ssa.Return)
		if !ok {
			continue
		}
		d := pg.At(b)
		if d.unknown || len(r.Results) != 1 {
			return nil
		}
		if _, isPhi := r.Results[0].(*ssa.Phi); isPhi {
			return nil
		}
		term := tg.Term(r.Results[0])
		if !clean(term) {
			return nil
		}
		for _, cj := range d.cs {
			for _, l := range cj {
				if !clean(l[1:]) {
					return nil
				}
			}
			out = append(out, valAlt{cond: cj, term: term})
		}
	}
	if len(out) < 2 || len(out) > 8 {
		return nil
	}
	valSumCache[g] = out
	return out
}

// altsOfCall: the alternatives of a call of a conditional value helper, in the caller's terms.
func (p *PathConds) altsOfCall(call *ssa.Call) ([]valAlt, bool) {
	if call.Call.IsInvoke() || call.Call.StaticCallee() == nil {
		return nil, false
	}
	sum := p.valSummaryOf(call.Call.StaticCallee())
	if sum == nil {
		return nil, false
	}
	var out []valAlt
	for _, a := range sum {
		cs, ok := p.substSummary(call, []conj{a.cond})
		if !ok {
			return nil, false
		}
		if len(cs) == 0 {
			continue // contradictory at this call
		}
		ts, ok := p.substSummary(call, []conj{{"+" + a.term}})
		if !ok || len(ts) != 1 || len(ts[0]) != 1 {
			return nil, false
		}
		out = append(out, valAlt{cond: cs[0], term: ts[0][0][1:]})
	}
	return out, len(out) > 0
}

// cmpTerm builds the term of `a op b` the way Terms.compute does.
func cmpTerm(op token.Token, a, b string, aConst, bConst bool) string {
	switch op {
	case token.EQL, token.NEQ:
		if aConst {
			a, b = b, a
		} else if !bConst && a > b {
			a, b = b, a
		}
	case token.GTR:
		return "(" + b + " < " + a + ")"
	case token.GEQ:
		return "(" + b + " <= " + a + ")"
	}
	return "(" + a + " " + op.String() + " " + b + ")"
}

// expandCompare: a two-way branch on a comparison one of whose operands is a call of a
// conditional value helper.
func (p *PathConds) expandCompare(bo *ssa.BinOp, want bool) ([]conj, bool) {
	switch bo.Op {
	case token.EQL, token.NEQ, token.LSS, token.LEQ, token.GTR, token.GEQ:
	default:
		return nil, false
	}
	var alts []valAlt
	left := false
	if call, ok := bo.X.(*ssa.Call); ok {
		if as, ok := p.altsOfCall(call); ok {
			alts, left = as, true
		}
	}
	if alts == nil {
		if call, ok := bo.Y.(*ssa.Call); ok {
			if as, ok := p.altsOfCall(call); ok {
				alts = as
			}
		}
	}
	if alts == nil {
		return nil, false
	}
	_, xc := bo.X.(*ssa.Const)
	_, yc := bo.Y.(*ssa.Const)
	var out []conj
	for _, a := range alts {
		var term string
		if left {
			term = cmpTerm(bo.Op, a.term, p.t.Term(bo.Y), false, yc)
		} else {
			term = cmpTerm(bo.Op, p.t.Term(bo.X), a.term, xc, false)
		}
		nt, neg := normCondTerm(term)
		pos := want
		if neg {
			pos = !pos
		}
		lit := "-" + nt
		if pos {
			lit = "+" + nt
		}
		if n, ok := conjAdd(a.cond, lit); ok {
			out = append(out, n)
		}
	}
	return out, true
}

// isRangeTest: the atom is the continuation test of a walk over x (`i < len(x)`), not the
// emptiness test `0 < len(x)` that `len(x) == 0` and `len(x) > 0` are normalised to.
func isRangeTest(a string) bool {
	i := strings.Index(a, " < builtin:len(")
	if i < 1 || !strings.HasPrefix(a, "(") {
		return false
	}
	// a constant on the left is a test of the list's size, not of a position in it
	if _, err := strconv.Atoi(a[1:i]); err == nil {
		return false
	}
	// the loop's own test is on its own counter: a range index (`rangeindex`), or a loop variable
	// (a phi) — possibly stepped by a constant. An arithmetic expression over other things
	// (`i+1 < len(ids)` with i the range index is "is there a next one", a condition of its own)
	left := a[1:i]
	if strings.Contains(left, "rangeindex") {
		return strings.HasSuffix(left, "rangeindex)#0+1") || strings.HasSuffix(left, "rangeindex+1") || !strings.ContainsAny(strings.TrimSuffix(left, "+1"), "+-*/")
	}
	return true
}

var opaqueAtomRe = regexp.MustCompile(`^([a-z]+)\.([A-Za-z_][A-Za-z_0-9]*)\((.*)\)$`)

// openPredicates rewrites atoms that are calls of opaque one-argument repo predicates
// (`lexer.isWhitespace(ch)`) into their definitions, for rules that state a condition as a set
// of values and must not care whether the set is spelled in place or in a predicate.
func (p *PathConds) openPredicates(d dnf) dnf {
	if d.unknown {
		return d
	}
	out := dnf{}
	for _, cj := range d.cs {
		alts := []conj{{}}
		for _, l := range cj {
			var repl []conj
			if m := opaqueAtomRe.FindStringSubmatch(l[1:]); m != nil && balanced(m[3]) && !strings.Contains(m[3], ",") {
				if g := p.t.w.Func(m[1], m[2]); g != nil && len(g.Params) == 1 {
					if sum := p.boolSummaryAny(g); sum != nil {
						src := sum.pos
						if l[0] == '-' {
							src = sum.neg
						}
						for _, sc := range src {
							var n conj
							for _, sl := range sc {
								n = append(n, normLit(sl[:1]+strings.ReplaceAll(sl[1:], "$0", m[3])))
							}
							repl = append(repl, n)
						}
					}
				}
			}
			if repl == nil {
				repl = []conj{{l}}
			}
			var next []conj
			for _, a := range alts {
				for _, r := range repl {
					if m2, ok := conjMerge(a, r); ok {
						next = append(next, m2)
					}
				}
			}
			alts = next
		}
		out.cs = append(out.cs, alts...)
	}
	out.cs = simplify(out.cs)
	return out
}

// dnfAndLit: d ∧ lit.
func dnfAndLit(d dnf, lit string) dnf {
	out := dnf{unknown: d.unknown}
	for _, c := range d.cs {
		if n, ok := conjAdd(c, lit); ok {
			out.cs = append(out.cs, n)
		}
	}
	return out
}

var errAtomRe = regexpMust(`@\d+(#\d+)? [=!]= nil\)$`)

// guardsBeyondErrors: the path condition of block b with the "no error so far" tests removed
// (atoms that compare a call's error result with nil). What is left is the data condition
// under which b runs on a successful parse; rules that state "exactly under X" compare it
// with X by equivalence, so an extra conjunct is as visible as a missing one.
func (c *Ctx) guardsBeyondErrors(fn *ssa.Function, b *ssa.BasicBlock) dnf {
	pc := c.PC(fn)
	// the error values this function tests
	errTerms := map[string]bool{}
	instrs(fn, func(in ssa.Instruction) {
		if ifi, ok := in.(*ssa.If); ok {
			if ev, _, ok := isErrNilTest(ifi.Cond); ok {
				errTerms[c.term(fn, ev)] = true
			}
		}
	})
	return dropAtoms(pc.canonOf(pc.At(b)), func(a string) bool {
		if !errAtomRe.MatchString(a) {
			return false
		}
		t := strings.TrimPrefix(a, "(")
		t = strings.TrimSuffix(strings.TrimSuffix(t, " == nil)"), " != nil)")
		return errTerms[t]
	})
}

// dnfEffEquiv: (d ∧ ¬(l1 ∨ l2 ∨ …)) ≡ want, by truth table. Used for "the store that counts":
// a store under d whose value is overwritten by later stores under l_i is effective exactly
// under d ∧ ¬∨l_i.
func dnfEffEquiv(d dnf, later []dnf, want dnf) bool {
	if d.unknown || want.unknown {
		return false
	}
	all := append([]dnf{d, want}, later...)
	for _, l := range later {
		if l.unknown {
			return false
		}
	}
	atoms := dnfAtoms(all...)
	if len(atoms) > 16 {
		return false
	}
	for mask := 0; mask < 1<<uint(len(atoms)); mask++ {
		asg := map[string]bool{}
		for i, at := range atoms {
			asg[at] = mask&(1<<uint(i)) != 0
		}
		eff := evalDNF(d, asg)
		for _, l := range later {
			if evalDNF(l, asg) {
				eff = false
			}
		}
		if eff != evalDNF(want, asg) {
			return false
		}
	}
	return true
}

// dnfAnd: a ∧ b.
func dnfAnd(a, b dnf) dnf {
	out := dnf{unknown: a.unknown || b.unknown}
	for _, x := range a.cs {
		for _, y := range b.cs {
			if m, ok := conjMerge(x, y); ok {
				out.cs = append(out.cs, m)
			}
		}
	}
	out.cs = simplify(out.cs)
	return out
}
