package main

import (
	"fmt"
	"os"
	"sort"

	"golang.org/x/tools/go/ssa"
)

// debugTerms prints the terms and path conditions of one function (development aid:
// PSLINT_DEBUG_FN=pkg.Func pslint -prop C01).
func debugTerms(w *World) {
	name := os.Getenv("PSLINT_DEBUG_FN")
	if name == "" {
		return
	}
	eff := NewEffects(w)
	for _, fn := range w.Funcs {
		if w.FuncKey(fn) != name {
			continue
		}
		t := w.TermsOf(fn, eff)
		pc := NewPathConds(t)
		fmt.Println("effects:", eff.Writes(fn))
		for _, b := range fn.Blocks {
			fmt.Printf("b%d: %s   must=%v\n", b.Index, b.Comment, pc.Must(b))
			fmt.Printf("   cond=%s\n", pc.At(b))
			for _, in := range b.Instrs {
				if v, ok := in.(ssa.Value); ok {
					fmt.Printf("   %-8s = %-50s :: %s\n", v.Name(), in.String(), t.Term(v))
				} else {
					fmt.Printf("   %-8s   %s\n", "", in.String())
				}
			}
		}
		os.Exit(0)
	}
	var names []string
	for _, fn := range w.Funcs {
		names = append(names, w.FuncKey(fn))
	}
	sort.Strings(names)
	fmt.Println("no such function; have:", names)
	os.Exit(2)
}
