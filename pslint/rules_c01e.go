package main

// C01.e — return-point threading templates for the chunk constructors (K-ORIGIN).

import (
	"fmt"
	"go/types"
	"strings"

	"golang.org/x/tools/go/ssa"
)

const splitR = "(*emitter.chunk).splitChunkForBranch@0#1"

// jumpDest: if v is (an interface holding) a &jump{} allocation return its destChunkID at use.
func (c *Ctx) structFieldOf(fn *ssa.Function, v ssa.Value, pkg, typ, field string, use ssa.Instruction) (string, bool) {
	if mi, ok := v.(*ssa.MakeInterface); ok {
		v = mi.X
	}
	a, ok := v.(*ssa.Alloc)
	if !ok || !typeIs(a.Type(), pkg, typ) {
		return "", false
	}
	return c.fieldAtUse(fn, a, field, use), true
}

func findChunk(infos []chunkInfo, stmts string) *chunkInfo {
	for i := range infos {
		if infos[i].stmts == stmts {
			return &infos[i]
		}
	}
	return nil
}

func findEmptyChunk(infos []chunkInfo) *chunkInfo {
	for i := range infos {
		if strings.HasPrefix(infos[i].stmts, "new#") && strings.Contains(infos[i].stmts, "[0]ast.Statement") {
			return &infos[i]
		}
	}
	return nil
}

func c01e(c *Ctx) {
	splitFn := c.Fn("emitter.chunk.splitChunkForBranch")
	sbe := c.Fn("emitter.splitBooleanExpressionChunks")
	if splitFn == nil || sbe == nil {
		return
	}
	c01eSplit(c, splitFn)
	c01eLoops(c, splitFn, sbe)
	c01eIf(c, splitFn, sbe)
	c01eWorklist(c)
	c01eConditionRequired(c)
}

// c01eConditionRequired: the lowering templates of if / elif assume a condition (the entry of the
// construct is the entry chunk of its condition; without one the "entry" is -1 and the construct
// is rendered as a jump to nowhere). Only 'while' may be written without a condition (the
// documented infinite loop, lowered by its own template). So every call of the condition parser
// outside parseWhileStatement requires the expression.
func c01eConditionRequired(c *Ctx) {
	pce := c.Fn("parser.Parser.parseConditionExpression")
	if pce == nil {
		return
	}
	n := 0
	for _, ci := range c.W.callsTo(pce) {
		f := ci.Parent()
		if isTestFunc(c.W, f) {
			continue
		}
		n++
		a := ci.Common().Args
		req, isConst := a[len(a)-1].(*ssa.Const)
		key := fmt.Sprintf("condition-required/%s@%d", f.Name(), c.T(f).callOrd[ci])
		if f.Name() == "parseWhileStatement" {
			c.OK(key, c.W.Pos(ci.Pos()), "while may omit its condition (infinite loop)")
			continue
		}
		c.Check(isConst && req.Value != nil && req.Value.String() == "true", key, c.W.Pos(ci.Pos()), "the condition is required here", f.Name()+" parses its condition as optional: 'if { ... }' would be accepted and lowered as a jump to chunk -1")
	}
	// ... and the condition parser honours it: when it is told the expression is required, no
	// successful way through it leaves the node without one
	var req *ssa.Parameter
	for _, p := range pce.Params {
		if b, ok := p.Type().Underlying().(*types.Basic); ok && b.Kind() == types.Bool {
			req = p
		}
	}
	sts := storesToField(pce, "ast", "ConditionExpression", "Expression")
	if req == nil || len(sts) == 0 {
		c.Bad("condition-required/honoured", c.W.FuncPos(pce), "parseConditionExpression has no boolean parameter / never stores the expression: the clause cannot be stated")
	} else {
		isStore := func(in ssa.Instruction) bool {
			st, ok := in.(*ssa.Store)
			if !ok {
				return false
			}
			for _, x := range sts {
				if x == st {
					if k, isC := st.Val.(*ssa.Const); isC && k.IsNil() {
						return false
					}
					return true
				}
			}
			return false
		}
		w, found := existsPath(pathQuery{from: entry(pce), avoid: isStore, exitIs: true, target: func(ssa.Instruction) bool { return false }, edgeOK: func(b *ssa.BasicBlock, succ int) bool {
			if !notErrorEdge(b, succ) {
				return false
			}
			if ifi, ok := b.Instrs[len(b.Instrs)-1].(*ssa.If); ok && ifi.Cond == ssa.Value(req) {
				return succ == 0 // the expression is required
			}
			return true
		}})
		why := ""
		if found {
			why = "told that the expression is required, parseConditionExpression can still return successfully (" + c.nearPos(w) + ") without having stored one: 'if { ... }' is accepted and lowered as a jump to chunk -1"
		}
		c.Check(!found, "condition-required/honoured", c.W.FuncPos(pce), "with the expression required, every successful return has stored one", why)
	}
	c.Check(n >= 3, "condition-required/sites", c.W.FuncPos(pce), "call sites of the condition parser examined", fmt.Sprintf("expected at least 3 calls of parseConditionExpression, found %d", n))
}

// splitChunkForBranch: result id = receiver's returnID when last, else id of the new chunk.
func c01eSplit(c *Ctx, fn *ssa.Function) {
	// the post-logic chunk: made in place or by a constructor helper
	var newChunk ssa.Value
	for _, ci := range c.chunkAllocs(fn) {
		newChunk = ci.a
	}
	if newChunk == nil {
		for _, ci := range callsIn(fn) {
			g := callee(ci)
			if g != nil && c.W.InRepo(g) && len(c.chunkAllocs(g)) == 1 {
				if v, ok := ci.(ssa.Value); ok {
					newChunk = v
				}
			}
		}
	}
	newID := ""
	if newChunk != nil {
		newID = c.nodePath(fn, newChunk, lastInstrOf(fn, newChunk), "id")
	}
	// the alternatives of the returned id with the literals under which they are returned
	type alt struct {
		term string
		must []string
		pos  string
	}
	var alts []alt
	for _, r := range returnsOf(fn) {
		if len(r.Results) < 2 {
			continue
		}
		if phi, ok := r.Results[1].(*ssa.Phi); ok && !isLoopHeader(phi.Block()) {
			for i, e := range phi.Edges {
				alts = append(alts, alt{c.term(fn, e), c.mustLits(fn, phi.Block().Preds[i]), c.W.Pos(r.Pos())})
			}
			continue
		}
		alts = append(alts, alt{c.term(fn, r.Results[1]), c.mustLits(fn, r.Block()), c.W.Pos(r.Pos())})
	}
	okLast, okNew := false, false
	other := ""
	for _, a := range alts {
		isNewID := (newID != "" && a.term == newID) || (strings.HasPrefix(a.term, "(*emitter.chunk).createPostLogicChunk($0,") && strings.HasSuffix(a.term, ".id"))
		switch {
		case hasLit(a.must, "+"+isLastLit) && a.term == "$0.returnID":
			okLast = true
		case hasLit(a.must, "-"+isLastLit) && isNewID:
			okNew = true
		default:
			other = a.term + " under " + fmt.Sprint(a.must)
		}
	}
	pos := c.W.FuncPos(fn)
	c.Check(okLast && other == "", "splitChunkForBranch/last->receiver.returnID", pos, "when the index is last the branch returns to the chunk's own return id", "result id when the statement is last is not the receiver's returnID"+ifNonEmpty(" (also returns "+pretty(other)+")", other))
	c.Check(okNew && other == "", "splitChunkForBranch/notlast->new.id", pos, "otherwise it returns to the new post-logic chunk", "result id when the statement is not last is not the id of the new post-logic chunk"+ifNonEmpty(" (also returns "+pretty(other)+")", other))
}

func ifNonEmpty(s, cond string) string {
	if cond == "" {
		return ""
	}
	return s
}

// lastInstrOf: a point of fn at which every field of the object v has its final value
// (the last store into it for a local object, the value itself otherwise).
func lastInstrOf(fn *ssa.Function, v ssa.Value) ssa.Instruction {
	if a, ok := v.(*ssa.Alloc); ok {
		return lastUse(a)
	}
	if in, ok := v.(ssa.Instruction); ok {
		return in
	}
	return nil
}

func checkSplitCall(c *Ctx, name string, fn, splitFn *ssa.Function) bool {
	calls := callsToIn(fn, splitFn)
	if len(calls) != 1 {
		c.Bad(name+"/split-call", c.W.FuncPos(fn), fmt.Sprintf("expected exactly one splitChunkForBranch call, found %d", len(calls)))
		return false
	}
	a := calls[0].Common().Args
	got := []string{c.term(fn, a[0]), c.term(fn, a[1]), c.term(fn, a[2]), c.term(fn, a[3])}
	ok := got[0] == "$2" && got[1] == "$1" && got[2] == "$4" && got[3] == "$3"
	return c.Check(ok, name+"/split-call", c.W.Pos(calls[0].Pos()), "curChunk.splitChunkForBranch(index, counter, workList)", fmt.Sprintf("splitChunkForBranch called with (%s) instead of (curChunk, index, counter, workList)", strings.Join(got, ", ")))
}

func c01eLoops(c *Ctx, splitFn, sbe *ssa.Function) {
	for _, spec := range []struct {
		name    string
		doWhile bool
	}{{"emitter.createWhileStatementChunks", false}, {"emitter.createDoWhileStatementChunks", true}} {
		fn := c.Fn(spec.name)
		if fn == nil {
			continue
		}
		if !checkSplitCall(c, spec.name, fn, splitFn) {
			continue
		}
		infos := c.chunkAllocs(fn)
		body := findChunk(infos, "$0.Consequence.Body.Statements")
		header := findEmptyChunk(infos)
		if body == nil || header == nil {
			c.Bad(spec.name+"/roles", c.W.FuncPos(fn), "cannot find the loop body chunk (statements = Consequence.Body.Statements) and the empty header chunk")
			continue
		}
		c.Check(body.retID == header.id, spec.name+"/body.returnID=header.id", c.W.Pos(body.a.Pos()), "loop body returns to the loop header", "loop body chunk returns to "+pretty(body.retID)+" instead of the header chunk id "+pretty(header.id))
		// condition call
		calls := callsToIn(fn, sbe)
		if len(calls) != 1 {
			c.Bad(spec.name+"/condition-call", c.W.FuncPos(fn), fmt.Sprintf("expected exactly one splitBooleanExpressionChunks call, found %d", len(calls)))
			continue
		}
		call := calls[0]
		a := call.Common().Args
		got := []string{c.term(fn, a[0]), c.term(fn, a[1]), c.term(fn, a[2]), c.term(fn, a[3]), c.term(fn, a[5])}
		want := []string{"$0.Consequence.Expression", "$4", body.id, splitR, "-1"}
		ok := true
		for i := range want {
			if got[i] != want[i] {
				ok = false
			}
		}
		c.Check(ok, spec.name+"/condition-call", c.W.Pos(call.Pos()), "condition: success -> body chunk, failure -> return id of the loop, fresh first id", fmt.Sprintf("condition wired as (expr=%s, counter=%s, success=%s, failure=%s, firstID=%s); expected (%s)", pretty(got[0]), got[1], pretty(got[2]), pretty(got[3]), got[4], strings.Join(want, ", ")))
		entry := c.term(fn, call.(ssa.Value)) + "#2"
		// header branch behaviour: every value the header's jump can take — written at one place
		// per case, or as one store of a chosen destination — is the body (no condition; while
		// only) or the entry chunk of the condition (otherwise)
		nStores := 0
		sawInfinite, sawEntry := false, false
		for _, ref := range *header.a.Referrers() {
			fa, ok := ref.(*ssa.FieldAddr)
			if !ok || fieldName(fa.X.Type(), fa.Field) != "branchBehavior" {
				continue
			}
			for _, r2 := range *fa.Referrers() {
				st, ok := r2.(*ssa.Store)
				if !ok || st.Addr != ssa.Value(fa) {
					continue
				}
				nStores++
				key := spec.name + "/header-branch"
				pos := c.W.Pos(st.Pos())
				ja, isJump := unwrapIface(st.Val).(*ssa.Alloc)
				if !isJump || !typeIs(ja.Type(), "emitter", "jump") {
					c.Bad(key, pos, "the loop header's branch behaviour is not a jump")
					continue
				}
				dv := fieldValue(ja, "destChunkID", st)
				if dv == nil {
					c.Bad(key, pos, "the loop header's jump has no destination")
					continue
				}
				for _, gl := range c.guardedLeaves(fn, dv, c.mustLits(fn, st.Block())) {
					dest := c.term(fn, gl.v)
					infinite := hasLit(gl.must, "+($0.Consequence.Expression == nil)")
					conditional := hasLit(gl.must, "-($0.Consequence.Expression == nil)")
					switch {
					case infinite:
						sawInfinite = true
						c.Check(dest == body.id && !spec.doWhile, key+"(no condition)", pos, "condition-less loop header jumps straight to the body", "condition-less header jumps to "+pretty(dest)+", expected the body chunk "+pretty(body.id))
					case conditional || spec.doWhile:
						sawEntry = true
						c.Check(dest == entry, key, pos, "loop header jumps to the entry chunk of the condition", "loop header jumps to "+pretty(dest)+", expected the condition entry "+entry)
					default:
						c.Bad(key, pos, "the loop header can jump to "+pretty(dest)+" on a path that does not say whether the loop has a condition")
					}
				}
			}
		}
		okCover := sawEntry && (spec.doWhile || sawInfinite)
		if !okCover {
			c.Bad(spec.name+"/header-branch-count", c.W.Pos(header.a.Pos()), fmt.Sprintf("header chunk gets its branch behaviour at %d places, which do not cover %s", nStores, map[bool]string{true: "the condition entry", false: "both the condition-less and the conditional form"}[spec.doWhile]))
		}
		// returned jump and return id
		for _, r := range returnsOf(fn) {
			dest, isJump := c.structFieldOf(fn, r.Results[1], "emitter", "jump", "destChunkID", r)
			wantDest := header.id
			what := "header chunk (condition is tested first)"
			if spec.doWhile {
				wantDest = body.id
				what = "body chunk (body runs before the first test)"
			}
			c.Check(isJump && dest == wantDest, spec.name+"/entry-jump", c.W.Pos(r.Pos()), "statement enters the loop at the "+what, "loop is entered at "+pretty(dest)+", expected "+pretty(wantDest)+" — the "+what)
			c.Check(c.term(fn, r.Results[2]) == splitR, spec.name+"/returned-return-id", c.W.Pos(r.Pos()), "returned break target is the return id of the statement", "returned return id is "+pretty(c.term(fn, r.Results[2]))+", expected the split result")
		}
	}
}

// phiLeaves collects the non-phi values merged into v.
func phiLeaves(v ssa.Value, seen map[ssa.Value]bool, out *[]ssa.Value) {
	if seen[v] {
		return
	}
	seen[v] = true
	if p, ok := v.(*ssa.Phi); ok {
		for _, e := range p.Edges {
			phiLeaves(e, seen, out)
		}
		return
	}
	*out = append(*out, v)
}

func c01eIf(c *Ctx, splitFn, sbe *ssa.Function) {
	name := "emitter.createIfStatementChunks"
	fn := c.Fn(name)
	if fn == nil {
		return
	}
	if !checkSplitCall(c, name, fn, splitFn) {
		return
	}
	infos := c.chunkAllocs(fn)
	cons := findChunk(infos, "$0.Consequence.Body.Statements")
	els := findChunk(infos, "$0.ElseConsequence.Statements")
	var elif *chunkInfo
	for i := range infos {
		if strings.HasPrefix(infos[i].stmts, "$0.ElifConsequences[") && strings.HasSuffix(infos[i].stmts, "].Body.Statements") {
			elif = &infos[i]
		}
	}
	if cons == nil || els == nil || elif == nil {
		c.Bad(name+"/roles", c.W.FuncPos(fn), "cannot find the consequence / elif / else chunks by their statements")
		return
	}
	for _, x := range []struct {
		ci   *chunkInfo
		role string
	}{{cons, "consequence"}, {elif, "elif"}, {els, "else"}} {
		c.Check(x.ci.retID == splitR, name+"/"+x.role+".returnID", c.W.Pos(x.ci.a.Pos()), x.role+" body continues after the if statement", x.role+" body returns to "+pretty(x.ci.retID)+", expected the return id of the statement")
	}
	c.Check(hasLit(c.mustLits(fn, els.a.Block()), "-($0.ElseConsequence == nil)"), name+"/else-guard", c.W.Pos(els.a.Pos()), "else chunk exists iff there is an else block", "else chunk is created without testing ElseConsequence != nil")
	// elif chunk k <-> ElifConsequences[k]: the chunk is appended to the elif list in the iteration that created it
	elifIdx := strings.TrimSuffix(strings.TrimPrefix(elif.stmts, "$0.ElifConsequences["), "].Body.Statements")
	nElifAppend := 0
	atEnd := true
	for _, ap := range appendsHolding(elif.a) {
		if !reachesReturn(ap, 0) {
			nElifAppend++
			// ... at the end of the list (the chunk is among the appended elements, the list so
			// far is what is extended): position k in the list is elif k
			isElem := false
			for _, e := range varargElems(ap.Call.Args[1]) {
				if e == ssa.Value(elif.a) {
					isElem = true
				}
			}
			if !isElem {
				atEnd = false
			}
		}
	}
	c.Check(atEnd, name+"/elif-list/in-order", c.W.Pos(elif.a.Pos()), "the elif chunk is appended behind the chunks of the earlier elifs", "the elif chunk is put in front of the helper list instead of being appended to it: with two or more elifs, condition k would jump to the body of another elif")
	c.Check(nElifAppend == 1, name+"/elif-list", c.W.Pos(elif.a.Pos()), "elif chunk k is recorded for elif condition k", fmt.Sprintf("elif chunk recorded %d times in the helper list (expected once, in range order)", nElifAppend))
	_ = elifIdx

	elseID := ""
	elifListTerm := ""
	// Two accepted shapes. (A) one condition call per case: three for the if condition
	// (elif present / else only / neither) and three for the elif conditions (chain / last
	// with else / last without). (B) one running failure target: initialised to the else
	// chunk or the return id, threaded through a reverse loop over the elif conditions
	// (each call fails into the value left by the previous iteration and leaves its own
	// entry id), and finally used by the if condition.
	tCons, tElif := 0, 0
	for _, call := range callsToIn(fn, sbe) {
		e := c.term(fn, call.Common().Args[0])
		if e == "$0.Consequence.Expression" {
			tCons++
		} else if strings.HasPrefix(e, "$0.ElifConsequences[") {
			tElif++
		}
	}
	running := tCons == 1 && tElif == 1
	var runningPhi *ssa.Phi
	// the case a (call, alternative of its failure operand) belongs to is read off the guards
	type caseFlags struct{ hasElif, noElif, elseNil, elseNonNil, lastElif, notLastElif bool }
	flagsOf := func(must []string) caseFlags {
		var f caseFlags
		for _, l := range must {
			switch {
			case strings.HasPrefix(l, "+(0 < builtin:len(phi(") && strings.Contains(l, "elifChunks"):
				f.hasElif = true
			case strings.HasPrefix(l, "-(0 < builtin:len(phi(") && strings.Contains(l, "elifChunks"):
				f.noElif = true
			case strings.HasPrefix(l, "+(phi(") && strings.HasSuffix(l, " == nil)") && strings.Contains(l, "elseChunk"):
				f.elseNil = true
			case strings.HasPrefix(l, "-(phi(") && strings.HasSuffix(l, " == nil)") && strings.Contains(l, "elseChunk"):
				f.elseNonNil = true
			case strings.HasPrefix(l, "+(builtin:len(phi(") && strings.Contains(l, ")-1 == phi("):
				f.lastElif = true
			case strings.HasPrefix(l, "-(builtin:len(phi(") && strings.Contains(l, ")-1 == phi("):
				f.notLastElif = true
			}
		}
		return f
	}
	// chainOK: the value is the entry id left by the wiring of an elif condition (or the -1 it starts with)
	chainOK := func(v ssa.Value) bool {
		var leaves []ssa.Value
		phiLeaves(v, map[ssa.Value]bool{}, &leaves)
		ok := len(leaves) > 0
		for _, lf := range leaves {
			if k, isC := intConst(lf); isC && k == -1 {
				continue
			}
			ex, isEx := lf.(*ssa.Extract)
			if !isEx || ex.Index != 2 {
				ok = false
				continue
			}
			inner, isCall := ex.Tuple.(*ssa.Call)
			if !isCall || callee(inner) != sbe || !strings.HasPrefix(c.term(fn, inner.Call.Args[0]), "$0.ElifConsequences[") {
				ok = false
				continue
			}
		}
		return ok
	}
	// carriedAll: ... of every one of them: the entry each elif condition call returns is among
	// the values the failure target can take (a call whose entry id is dropped leaves its
	// condition chunks without anybody jumping to them)
	carriedAll := func(v ssa.Value) bool {
		carried := map[*ssa.Call]bool{}
		var leaves []ssa.Value
		phiLeaves(v, map[ssa.Value]bool{}, &leaves)
		for _, lf := range leaves {
			if ex, isEx := lf.(*ssa.Extract); isEx && ex.Index == 2 {
				if inner, isCall := ex.Tuple.(*ssa.Call); isCall {
					carried[inner] = true
				}
			}
		}
		for _, call := range callsToIn(fn, sbe) {
			if cc, isC := call.(*ssa.Call); isC && strings.HasPrefix(c.term(fn, cc.Call.Args[0]), "$0.ElifConsequences[") && !carried[cc] {
				return false
			}
		}
		return true
	}
	// every turn of the wiring loop wires its elif: no way round the loop skips the condition
	// call (an elif whose condition is never tested does not stop the chain when it is true)
	{
		var elifCalls []ssa.Instruction
		for _, call := range callsToIn(fn, sbe) {
			if cc, isC := call.(*ssa.Call); isC && strings.HasPrefix(c.term(fn, cc.Call.Args[0]), "$0.ElifConsequences[") && loopHeaders(fn)[cc.Block()] != nil {
				elifCalls = append(elifCalls, cc)
			}
		}
		if len(elifCalls) > 0 {
			w, skip := loopSkip(fn, elifCalls...)
			why := ""
			if skip {
				why = "a turn of the elif wiring loop can pass (" + c.nearPos(w) + ") without wiring the condition of its elif: that condition is never tested, so a true elif no longer ends the chain"
			}
			c.Check(!skip, name+"/elif-condition/every-elif-wired", c.W.Pos(elifCalls[0].Pos()), "every turn of the wiring loop wires the condition of its elif", why)
		}
	}
	covered := map[string]bool{}
	// classify the condition calls
	nCons, nElif := 0, 0
	var entryVals []ssa.Value
	for _, call := range callsToIn(fn, sbe) {
		a := call.Common().Args
		expr := c.term(fn, a[0])
		succ, fail := c.term(fn, a[2]), c.term(fn, a[3])
		first := c.term(fn, a[5])
		must := c.mustLits(fn, call.Block())
		pos := c.W.Pos(call.Pos())
		c.Check(first == "-1" && c.term(fn, a[1]) == "$4", name+"/condition-call/first-id"+fmt.Sprint(nCons+nElif), pos, "fresh first id and the shared counter", "condition call passes firstID="+first+", counter="+c.term(fn, a[1]))
		switch {
		case expr == "$0.Consequence.Expression":
			nCons++
			entryVals = append(entryVals, nil)
			key := name + "/if-condition"
			c.Check(succ == cons.id, key+"/success", pos, "if condition true -> consequence body", "if condition success goes to "+pretty(succ)+", expected the consequence chunk "+pretty(cons.id))
			switch {
			case running:
				h, isPhi := a[3].(*ssa.Phi)
				ok := isPhi && isLoopHeader(h.Block()) && !loopBody(h.Block())[call.Block()] && h.Block().Dominates(call.Block()) && (runningPhi == nil || runningPhi == h)
				if ok {
					runningPhi = h
				}
				c.Check(ok, key+"/failure(running)", pos, "if condition false -> the running failure target as left by the elif loop (entry of the first elif, or the else body / return id when there is none)", "the if condition's failure target "+pretty(fail)+" is not the value carried by the elif wiring loop")
			default:
				// every alternative of the failure target, with the guards under which it is chosen
				// (one call per case, or one call whose target was chosen beforehand)
				for _, gl := range c.guardedLeaves(fn, a[3], must) {
					f := flagsOf(gl.must)
					t := c.term(fn, gl.v)
					switch {
					case f.hasElif:
						covered["if/elif"] = true
						c.Check(carriedAll(a[3]), key+"/failure(elif)/every-entry-carried", pos, "the entry id of every elif condition call is carried towards the if condition", "the entry id returned by some elif condition call never reaches the failure target of the if condition: that elif's condition is wired but nothing jumps to it")
						c.Check(chainOK(gl.v), key+"/failure(elif)", pos, "if condition false -> entry of the first elif condition", "with elif blocks present the if condition's failure target is "+pretty(t)+", which is not the entry id computed for the elif conditions")
					case f.noElif && f.elseNonNil:
						covered["if/else"] = true
						c.Check(strings.HasSuffix(t, ".id") && strings.Contains(t, "elseChunk"), key+"/failure(else)", pos, "if condition false -> else body", "without elif the failure target is "+pretty(t)+", expected the else chunk id")
						elseID = t
					case f.noElif && f.elseNil:
						covered["if/none"] = true
						c.Check(t == splitR, key+"/failure(none)", pos, "if condition false -> after the statement", "without elif/else the failure target is "+pretty(t)+", expected the return id")
					default:
						c.Unk(key+"/failure", pos, "cannot classify the guards of this condition call: "+strings.Join(gl.must, " "))
					}
				}
			}
		case strings.HasPrefix(expr, "$0.ElifConsequences[") && strings.HasSuffix(expr, "].Expression"):
			nElif++
			k := strings.TrimSuffix(strings.TrimPrefix(expr, "$0.ElifConsequences["), "].Expression")
			key := name + "/elif-condition"
			okSucc := strings.HasSuffix(succ, "["+k+"].id") && strings.Contains(succ, "elifChunks")
			c.Check(okSucc, key+"/success#"+fmt.Sprint(nElif), pos, "elif condition k true -> elif body k", "elif condition "+pretty(k)+" success goes to "+pretty(succ)+", expected elifChunks["+pretty(k)+"].id")
			if okSucc {
				elifListTerm = strings.TrimSuffix(succ, "["+k+"].id")
			}
			switch {
			case running:
				h, isPhi := a[3].(*ssa.Phi)
				ok := isPhi && isLoopHeader(h.Block()) && loopBody(h.Block())[call.Block()] && (runningPhi == nil || runningPhi == h)
				why := "the elif condition's failure target " + pretty(fail) + " is not a value carried around the elif wiring loop"
				if ok {
					runningPhi = h
					for i, e := range h.Edges {
						pred := h.Block().Preds[i]
						if h.Block().Dominates(pred) {
							// carried value: the entry id this very call returned
							ex, isEx := e.(*ssa.Extract)
							if !isEx || ex.Index != 2 || ex.Tuple != call.(ssa.Value) {
								ok = false
								why = "the value carried to the next (lower-index) elif is " + pretty(c.term(fn, e)) + ", expected the entry id returned for this elif condition"
							}
							continue
						}
						// initial value: else chunk id if there is an else block, return id otherwise
						for _, gl := range c.guardedLeaves(fn, e, nil) {
							t := c.term(fn, gl.v)
							nonNil, isNil := false, false
							for _, l := range gl.must {
								if strings.HasSuffix(l, " == nil)") && strings.Contains(l, "elseChunk") {
									if l[0] == '-' {
										nonNil = true
									} else {
										isNil = true
									}
								}
							}
							switch {
							case strings.HasSuffix(t, ".id") && strings.Contains(t, "elseChunk") && nonNil:
							case t == splitR && isNil:
							default:
								ok = false
								why = "the last elif condition can fail into " + pretty(t) + " under " + fmt.Sprint(gl.must) + "; expected the else chunk id when there is an else block and the return id otherwise"
							}
						}
					}
				}
				c.Check(ok, key+"/failure(running)", pos, "last elif false -> else body or return id; elif k false -> entry of elif k+1 (left by the previous iteration)", why)
				if ph, isPhi := rootIndexPhi(a[0]); isPhi {
					down, startsLast := false, false
					for _, e := range ph.Edges {
						et := c.term(fn, e)
						if strings.HasSuffix(et, "-1") && strings.HasPrefix(et, "phi(") {
							down = true
						}
						if strings.HasPrefix(et, "builtin:len(") && strings.HasSuffix(et, ")-1") {
							startsLast = true
						}
					}
					c.Check(down && startsLast, key+"/reverse-order", pos, "elif conditions are wired from the last one backwards", "the elif wiring loop does not run from len-1 downwards, so 'entry of the next elif' is not available when needed")
				} else {
					c.Unk(key+"/reverse-order", pos, "cannot find the loop index of the elif wiring loop")
				}
			default:
				sawChain := false
				for _, gl := range c.guardedLeaves(fn, a[3], must) {
					f := flagsOf(gl.must)
					t := c.term(fn, gl.v)
					switch {
					case f.lastElif && f.elseNonNil:
						covered["elif/last-else"] = true
						c.Check(strings.HasSuffix(t, ".id") && strings.Contains(t, "elseChunk"), key+"/failure(last,else)", pos, "last elif false -> else body", "last elif failure target is "+pretty(t)+", expected the else chunk id")
					case f.lastElif && f.elseNil:
						covered["elif/last-none"] = true
						c.Check(t == splitR, key+"/failure(last,none)", pos, "last elif false -> after the statement", "last elif failure target is "+pretty(t)+", expected the return id")
					case f.notLastElif:
						covered["elif/chain"] = true
						sawChain = true
						// previous iteration's entry id (reverse order)
						c.Check(carriedAll(a[3]), key+"/failure(chain)/every-entry-carried", pos, "the entry id of every elif condition call is carried to the elif before it", "the entry id returned by some elif condition call never reaches the failure target of the elif before it: that elif's condition is wired but nothing jumps to it")
						c.Check(chainOK(gl.v), key+"/failure(chain)", pos, "elif k false -> entry of elif k+1 (computed in the previous, higher-index iteration)", "non-last elif failure target "+pretty(t)+" is not the entry id of the following elif condition")
					default:
						c.Unk(key+"/failure", pos, "cannot classify the guards of this elif condition call: "+strings.Join(gl.must, " "))
					}
				}
				if sawChain {
					// the loop runs from len-1 downwards
					if ph, isPhi := rootIndexPhi(a[0]); isPhi {
						down := false
						startsLast := false
						for _, e := range ph.Edges {
							et := c.term(fn, e)
							if strings.HasSuffix(et, "-1") && strings.HasPrefix(et, "phi(") {
								down = true
							}
							if strings.HasPrefix(et, "builtin:len(") && strings.HasSuffix(et, ")-1") {
								startsLast = true
							}
						}
						c.Check(down && startsLast, key+"/reverse-order", pos, "elif conditions are wired from the last one backwards", "the elif wiring loop does not run from len-1 downwards, so 'entry of the next elif' is not available when needed")
					} else {
						c.Unk(key+"/reverse-order", pos, "cannot find the loop index of the elif wiring loop")
					}
				}
			}
		default:
			c.Bad(name+"/condition-call/expr", pos, "condition call on unexpected expression "+pretty(expr))
		}
	}
	if running {
		c.Check(runningPhi != nil, name+"/condition-call-count", c.W.FuncPos(fn), "one wiring of the if condition and one of the elif conditions, sharing a running failure target", "the if condition and the elif conditions do not share one running failure target")
	} else {
		var missing []string
		for _, k := range []string{"if/elif", "if/else", "if/none", "elif/chain", "elif/last-else", "elif/last-none"} {
			if !covered[k] {
				missing = append(missing, k)
			}
		}
		c.Check(len(missing) == 0 && nCons >= 1 && nElif >= 1, name+"/condition-call-count", c.W.FuncPos(fn), "the if condition is wired for (elif / else / none) and the elif conditions for (chain / last with else / last without)", fmt.Sprintf("no wiring found for the cases %v (%d if-condition and %d elif-condition calls)", missing, nCons, nElif))
	}
	_ = elseID
	_ = elifListTerm
	// returned jump = entry of the if condition
	for _, r := range returnsOf(fn) {
		a, ok := r.Results[1].(*ssa.Alloc)
		if !ok {
			c.Bad(name+"/entry-jump", c.W.Pos(r.Pos()), "returned branch behaviour is not a fresh jump")
			continue
		}
		// find the store to destChunkID
		okEntry := false
		for _, ref := range *a.Referrers() {
			if fa, ok := ref.(*ssa.FieldAddr); ok {
				for _, r2 := range *fa.Referrers() {
					if st, ok := r2.(*ssa.Store); ok && st.Addr == ssa.Value(fa) {
						var leaves []ssa.Value
						phiLeaves(st.Val, map[ssa.Value]bool{}, &leaves)
						okEntry = len(leaves) == nCons && nCons >= 1
						for _, lf := range leaves {
							ex, isEx := lf.(*ssa.Extract)
							if !isEx || ex.Index != 2 {
								okEntry = false
								continue
							}
							inner, isCall := ex.Tuple.(*ssa.Call)
							if !isCall || callee(inner) != sbe || c.term(fn, inner.Call.Args[0]) != "$0.Consequence.Expression" {
								okEntry = false
							}
						}
					}
				}
			}
		}
		c.Check(okEntry, name+"/entry-jump", c.W.Pos(r.Pos()), "the statement jumps to the entry chunk of the if condition", "the returned jump does not target the entry id of the if condition on every path")
	}
}

// rootIndexPhi finds the phi used as slice index in the address chain of v.
func rootIndexPhi(v ssa.Value) (*ssa.Phi, bool) {
	for i := 0; i < 12; i++ {
		switch x := v.(type) {
		case *ssa.UnOp:
			v = x.X
		case *ssa.FieldAddr:
			v = x.X
		case *ssa.IndexAddr:
			p, ok := x.Index.(*ssa.Phi)
			return p, ok
		default:
			return nil, false
		}
	}
	return nil, false
}

func c01eWorklist(c *Ctx) {
	fn := c.Fn("emitter.Emitter.emitScriptStatement")
	if fn == nil {
		return
	}
	name := "emitScriptStatement"
	// identify the two maps by how break / continue read them
	var retMap, originMap ssa.Value
	instrs(fn, func(in ssa.Instruction) {
		lk, ok := in.(*ssa.Lookup)
		if !ok {
			return
		}
		if _, isMap := lk.X.Type().Underlying().(*types.Map); !isMap {
			return
		}
		k := c.term(fn, lk.Index)
		switch {
		case strings.HasSuffix(k, ".ScopeStatment"):
			retMap = lk.X
		case strings.HasSuffix(k, ".LoopStatment"):
			originMap = lk.X
		}
	})
	if retMap == nil || originMap == nil {
		c.Bad(name+"/break-maps", c.W.FuncPos(fn), "cannot find the lookups of break (ScopeStatment) and continue (LoopStatment) targets")
		return
	}
	ctorOf := map[string]string{"WhileStatement": "createWhileStatementChunks", "DoWhileStatement": "createDoWhileStatementChunks", "SwitchStatement": "createSwitchStatementChunks"}
	// a table is a map, or one field of a map of records
	retField, originField := "", ""
	// finalised chunks: id / returnID copies and branch behaviour of each arm
	for _, ci := range c.chunkAllocs(fn) {
		if !strings.Contains(ci.stmts, ".statements[:") {
			continue
		}
		role := finalRole(c, fn, ci)
		use := chunkLastUse(ci)
		// the fields are judged where the chunk is stored into the final table: a field set
		// on some paths only (`if !shortcut { chunk.branchBehavior = … }`) is not set
		instrs(fn, func(in ssa.Instruction) {
			if mu, ok := in.(*ssa.MapUpdate); ok && mu.Value == ssa.Value(ci.a) {
				use = mu
			}
		})
		bb := c.nodePath(fn, ci.a, use, "branchBehavior")
		pos := c.W.Pos(ci.a.Pos())
		cur := strings.SplitN(ci.stmts, ".statements[:", 2)[0]
		switch role {
		case "IfStatement":
			c.Check(bb == "emitter.createIfStatementChunks@0#1", name+"/branch/"+role, pos, "chunk ends with the jump returned by the constructor", "if arm attaches "+pretty(bb)+" instead of the jump returned by createIfStatementChunks")
		case "WhileStatement", "DoWhileStatement", "SwitchStatement":
			c.Check(bb == "emitter."+ctorOf[role]+"@0#1", name+"/branch/"+role, pos, "chunk ends with the jump returned by the constructor", role+" arm attaches "+pretty(bb)+" instead of the jump returned by its constructor")
		case "BreakStatement", "ContinueStatement":
			a, ok := use.(*ssa.Store)
			_ = a
			_ = ok
			// branchBehavior holds a breakContext (stored in place or handed to a constructor helper)
			dest := c.nodePath(fn, ci.a, use, "branchBehavior", "destChunkID")
			field, m := ".ScopeStatment", retMap
			what := "break jumps to the recorded return id of its scope statement"
			if role == "ContinueStatement" {
				field, m = ".LoopStatment", originMap
				what = "continue jumps to the recorded entry chunk of its loop"
			}
			want := c.term(fn, m) + "[assert<*ast." + role + ">(" + cur + ".statements[" + strings.TrimSuffix(strings.SplitN(ci.stmts, ".statements[:", 2)[1], "]") + "])#0" + field + "]#0"
			if st, isRec := m.Type().Underlying().(*types.Map).Elem().Underlying().(*types.Struct); isRec && strings.HasPrefix(dest, want+".") {
				for i := 0; i < st.NumFields(); i++ {
					if dest == want+"."+st.Field(i).Name() {
						want = dest
						if role == "ContinueStatement" {
							originField = st.Field(i).Name()
						} else {
							retField = st.Field(i).Name()
						}
					}
				}
			}
			c.Check(dest == want, name+"/branch/"+role, pos, what, role+" arm jumps to "+pretty(dest)+", expected "+pretty(want))
		}
		if ci.retID != "-1" {
			c.Check(stripLoopTags(ci.retID) == stripLoopTags(cur)+".returnID" || bb != "zero" && bb != "nil", name+"/returnID-copy/"+role, pos, "finalised chunk keeps the return id (or ends in a branch)", "finalised chunk without branch behaviour has return id "+pretty(ci.retID)+", expected "+pretty(cur)+".returnID")
		}
	}
	// each constructor is handed the very statement the work list is looking at — the node as it
	// stands in the chunk, not a merged, simplified or otherwise reworked copy of it
	for _, ctorName := range []string{"createIfStatementChunks", "createWhileStatementChunks", "createDoWhileStatementChunks", "createSwitchStatementChunks"} {
		g := c.W.Func("emitter", ctorName)
		if g == nil {
			continue
		}
		for _, call := range callsToIn(fn, g) {
			at := c.term(fn, call.Common().Args[0])
			okNode := strings.HasPrefix(at, "assert<*ast.") && strings.HasSuffix(at, "#0") && strings.Contains(at, ".statements[")
			c.Check(okNode, fmt.Sprintf("%s/lowered-node-is-the-statement/%s@%d", name, ctorName, c.T(fn).callOrd[call]), c.W.Pos(call.Pos()), "the constructor lowers the statement found in the chunk", ctorName+" is handed "+pretty(at)+" instead of the statement found in the chunk: what is lowered is not what was parsed")
		}
	}
	c.Check(retMap != originMap || (retField != "" && originField != "" && retField != originField), name+"/break-maps-distinct", c.W.FuncPos(fn), "break and continue read different tables", "break and continue read the same table")
	nRet, nOrigin := 0, 0
	retTypes, originTypes := map[string]bool{}, map[string]bool{}
	instrs(fn, func(in ssa.Instruction) {
		mu, ok := in.(*ssa.MapUpdate)
		if !ok || (mu.Map != retMap && mu.Map != originMap) {
			return
		}
		key := c.term(fn, mu.Key)
		val := c.term(fn, mu.Value)
		pos := c.W.Pos(mu.Pos())
		typ := ""
		for t := range ctorOf {
			if strings.HasPrefix(key, "assert<*ast."+t+">(") && strings.HasSuffix(key, "#0") {
				typ = t
			}
		}
		if typ == "" {
			c.Bad(name+"/break-table-key", pos, "break/continue table keyed by "+pretty(key)+", expected the loop/switch statement node being lowered")
			return
		}
		ctor := "emitter." + ctorOf[typ] + "@0"
		// the constructor must have been called on the same node
		ctorFn := c.W.Func("emitter", ctorOf[typ])
		sameNode := false
		if ctorFn != nil {
			for _, call := range callsToIn(fn, ctorFn) {
				if c.term(fn, call.Common().Args[0]) == key && instrDominates(call, mu) {
					sameNode = true
				}
			}
		}
		if retField != "" || originField != "" {
			_, f := c.withFields(fn, val)
			if mu.Map == retMap && retField != "" {
				nRet++
				c.Check(sameNode && f != nil && f[retField] == ctor+"#2", name+"/break-target/"+typ, pos, "break target of the statement = return id reported by its constructor", "break target recorded for "+typ+" is "+pretty(f[retField])+", expected "+ctor+"#2 (the statement's return id)")
			}
			if mu.Map == originMap && originField != "" {
				nOrigin++
				originTypes[typ] = true
				c.Check(sameNode && f != nil && f[originField] == ctor+"#1.destChunkID", name+"/continue-target/"+typ, pos, "continue target of the statement = chunk the statement is entered at", "continue target recorded for "+typ+" is "+pretty(f[originField])+", expected the destination of the jump returned by its constructor")
			}
			return
		}
		if mu.Map == retMap {
			nRet++
			retTypes[typ] = true
			c.Check(sameNode && val == ctor+"#2", name+"/break-target/"+typ, pos, "break target of the statement = return id reported by its constructor", "break target recorded for "+typ+" is "+pretty(val)+", expected "+ctor+"#2 (the statement's return id)")
		} else {
			nOrigin++
			originTypes[typ] = true
			c.Check(sameNode && val == ctor+"#1.destChunkID", name+"/continue-target/"+typ, pos, "continue target of the statement = chunk the statement is entered at", "continue target recorded for "+typ+" is "+pretty(val)+", expected the destination of the jump returned by its constructor")
		}
	})
	// per kind of statement, not a total: every loop records where 'continue' goes (a loop that
	// records none turns a 'continue' inside it into an emit error)
	for _, lt := range []string{"WhileStatement", "DoWhileStatement"} {
		c.Check(originTypes[lt], name+"/continue-target-recorded/"+lt, c.W.FuncPos(fn), "the "+lt+" arm records its continue target", "the "+lt+" arm records no continue target: 'continue' inside such a loop cannot be lowered")
	}
	c.Check(nRet == 3 && nOrigin >= 2, name+"/break-table-writes", c.W.FuncPos(fn), "while, do-while and switch record their break target; loops record their continue target", fmt.Sprintf("found %d break-target and %d continue-target records, expected 3 and at least 2", nRet, nOrigin))
}

var loopTagRe = regexpMust(`!L\d+`)

// stripLoopTags removes loop-header version tags (the value at the start of the iteration).
func stripLoopTags(s string) string { return loopTagRe.ReplaceAllString(s, "") }

type guardedLeaf struct {
	v    ssa.Value
	must []string
}

// guardedLeaves: the non-phi values merged into v (merges at loop heads are leaves), each
// with the literals that hold on the edges through which it flows.
func (c *Ctx) guardedLeaves(fn *ssa.Function, v ssa.Value, must []string) []guardedLeaf {
	p, ok := v.(*ssa.Phi)
	if !ok || isLoopHeader(p.Block()) || len(must) > 64 {
		return []guardedLeaf{{v, must}}
	}
	var out []guardedLeaf
	for i, e := range p.Edges {
		m := append(append([]string{}, must...), c.edgeMust(fn, p.Block().Preds[i], p.Block())...)
		out = append(out, c.guardedLeaves(fn, e, m)...)
	}
	return out
}
