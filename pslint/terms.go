package main

// K-ORIGIN: value-origin terms for SSA values of one function. A term is a canonical
// string; two values with the same term are equal on every execution (global value
// numbering with store-to-load forwarding and class-based invalidation through
// K-EFFECT). No solver, no path enumeration: joins with different inputs become
// opaque terms.

import (
	"fmt"
	"go/token"
	"go/types"
	"regexp"
	"sort"
	"strconv"
	"strings"

	"golang.org/x/tools/go/ssa"
)

type memEntry struct {
	term string
	def  ssa.Instruction // Store or invalidating call; nil for merges
}

type memState struct {
	cells   map[string]memEntry // cell name -> content
	classV  map[string]string   // class -> version tag (set by invalidations)
	cellCls map[string]string   // cell name -> class
}

func newMem() *memState {
	return &memState{cells: map[string]memEntry{}, classV: map[string]string{}, cellCls: map[string]string{}}
}

func (m *memState) clone() *memState {
	n := newMem()
	for k, v := range m.cells {
		n.cells[k] = v
	}
	for k, v := range m.classV {
		n.classV[k] = v
	}
	for k, v := range m.cellCls {
		n.cellCls[k] = v
	}
	return n
}

// Terms holds the analysis result for one function.
type Terms struct {
	w       *World
	eff     *Effects
	fn      *ssa.Function
	val     map[ssa.Value]string
	memIn   map[*ssa.BasicBlock]*memState
	memOut  map[*ssa.BasicBlock]*memState
	loadDef map[*ssa.UnOp]ssa.Instruction // reaching def of each load (nil when merged/initial)
	callOrd map[ssa.CallInstruction]int
	allocOrd map[*ssa.Alloc]int
	rpo     []*ssa.BasicBlock
	opaque  int
	fresh   map[string]bool // terms of fresh allocations (pointer values)
}

var termCache = map[*ssa.Function]*Terms{}

// TermsOf computes (and caches) the terms of fn.
func (w *World) TermsOf(fn *ssa.Function, eff *Effects) *Terms {
	if t, ok := termCache[fn]; ok {
		return t
	}
	t := &Terms{w: w, eff: eff, fn: fn, val: map[ssa.Value]string{}, memIn: map[*ssa.BasicBlock]*memState{}, memOut: map[*ssa.BasicBlock]*memState{},
		loadDef: map[*ssa.UnOp]ssa.Instruction{}, callOrd: map[ssa.CallInstruction]int{}, allocOrd: map[*ssa.Alloc]int{}, fresh: map[string]bool{}}
	t.number()
	t.run()
	termCache[fn] = t
	return t
}

// number assigns stable ordinals: calls per callee name, allocs per type, by source position.
func (t *Terms) number() {
	type ck struct{ name string }
	callsBy := map[string][]ssa.CallInstruction{}
	allocsBy := map[string][]*ssa.Alloc{}
	instrs(t.fn, func(in ssa.Instruction) {
		switch x := in.(type) {
		case ssa.CallInstruction:
			n := t.calleeShort(x)
			callsBy[n] = append(callsBy[n], x)
		case *ssa.Alloc:
			n := shortType(deref(x.Type()))
			allocsBy[n] = append(allocsBy[n], x)
		}
	})
	for _, cs := range callsBy {
		sort.SliceStable(cs, func(i, j int) bool { return cs[i].Pos() < cs[j].Pos() })
		for i, c := range cs {
			t.callOrd[c] = i
		}
	}
	for _, as := range allocsBy {
		sort.SliceStable(as, func(i, j int) bool { return as[i].Pos() < as[j].Pos() })
		for i, a := range as {
			t.allocOrd[a] = i
		}
	}
}

func (t *Terms) calleeShort(ci ssa.CallInstruction) string {
	n := calleeName(ci)
	if n == "" {
		return "dyn:" + t.Term(ci.Common().Value)
	}
	n = strings.ReplaceAll(n, t.w.ModPath+"/", "")
	n = strings.ReplaceAll(n, t.w.ModPath+".", "main.")
	return n
}

func (t *Terms) computeRPO() {
	seen := map[*ssa.BasicBlock]bool{}
	var post []*ssa.BasicBlock
	var dfs func(b *ssa.BasicBlock)
	dfs = func(b *ssa.BasicBlock) {
		seen[b] = true
		for _, s := range b.Succs {
			if !seen[s] {
				dfs(s)
			}
		}
		post = append(post, b)
	}
	if len(t.fn.Blocks) > 0 {
		dfs(t.fn.Blocks[0])
	}
	for i := len(post) - 1; i >= 0; i-- {
		t.rpo = append(t.rpo, post[i])
	}
}

func (t *Terms) newOpaque(prefix string) string {
	t.opaque++
	return fmt.Sprintf("%s?%d", prefix, t.opaque)
}

func (t *Terms) run() {
	if len(t.fn.Blocks) == 0 {
		return
	}
	t.computeRPO()
	for i, p := range t.fn.Params {
		_ = i
		t.val[p] = "$" + p.Name()
	}
	for _, fv := range t.fn.FreeVars {
		t.val[fv] = "^" + fv.Name()
	}
	for _, b := range t.rpo {
		// merge forward predecessors
		var in *memState
		var preds []*memState
		for _, p := range b.Preds {
			if out, ok := t.memOut[p]; ok && !b.Dominates(p) {
				preds = append(preds, out)
			}
		}
		if len(preds) == 0 {
			in = newMem()
		} else {
			in = t.merge(b, preds)
		}
		if isLoopHeader(b) {
			t.invalidateLoop(b, in)
		}
		t.memIn[b] = in
		m := in.clone()
		for _, instr := range b.Instrs {
			t.step(instr, m)
		}
		t.memOut[b] = m
	}
}

func (t *Terms) merge(b *ssa.BasicBlock, preds []*memState) *memState {
	out := newMem()
	keys := map[string]bool{}
	for _, p := range preds {
		for k := range p.cells {
			keys[k] = true
		}
	}
	for k := range keys {
		var first memEntry
		same := true
		for i, p := range preds {
			e, ok := p.cells[k]
			if !ok {
				// initial content on that path
				e = memEntry{term: t.defaultContent(k, p), def: nil}
			}
			if i == 0 {
				first = e
			} else if e.term != first.term {
				same = false
			} else if e.def != first.def {
				first.def = nil
			}
		}
		if same {
			out.cells[k] = first
		} else {
			out.cells[k] = memEntry{term: fmt.Sprintf("mu(b%d,%s)", b.Index, k), def: nil}
		}
		for _, p := range preds {
			if c, ok := p.cellCls[k]; ok {
				out.cellCls[k] = c
			}
		}
	}
	ckeys := map[string]bool{}
	for _, p := range preds {
		for k := range p.classV {
			ckeys[k] = true
		}
	}
	for k := range ckeys {
		v0 := preds[0].classV[k]
		same := true
		for _, p := range preds[1:] {
			if p.classV[k] != v0 {
				same = false
			}
		}
		if same {
			out.classV[k] = v0
		} else {
			out.classV[k] = fmt.Sprintf("j%d", b.Index)
		}
	}
	return out
}

// invalidateLoop makes everything that may be written inside the loop unknown at its header.
func (t *Terms) invalidateLoop(h *ssa.BasicBlock, m *memState) {
	body := loopBody(h)
	tag := fmt.Sprintf("L%d", h.Index)
	for b := range body {
		for _, in := range b.Instrs {
			switch x := in.(type) {
			case *ssa.Store:
				if a, ok := rootValue(x.Addr).(*ssa.Alloc); ok && body[a.Block()] {
					if _, direct := x.Addr.(*ssa.Alloc); !direct {
						continue // object allocated inside the loop: fresh every iteration
					}
				}
				if a, ok := x.Addr.(*ssa.Alloc); ok {
					// local variable cell
					cell := "*(" + t.allocName(a) + ")"
					m.cells[cell] = memEntry{term: fmt.Sprintf("mu(%s,%s)", tag, cell)}
					continue
				}
				if p, ok := x.Addr.(*ssa.Parameter); ok {
					cell := "*($" + p.Name() + ")"
					m.cells[cell] = memEntry{term: fmt.Sprintf("mu(%s,%s)", tag, cell)}
					continue
				}
				t.invalidateClass(m, storeClass(x.Addr), tag, "")
			case *ssa.MapUpdate:
				t.invalidateClass(m, "map:"+shortType(x.Map.Type()), tag, "")
			case ssa.CallInstruction:
				t.invalidateForCall(x, m, tag)
			}
		}
	}
}

func (t *Terms) invalidateClass(m *memState, cls, tag, exceptBase string) {
	m.classV[cls] = tag
	for cell, c := range m.cellCls {
		if c != cls {
			continue
		}
		base := cellBase(cell)
		if exceptBase != "" && base == exceptBase {
			continue
		}
		if t.fresh[base] && exceptBase != "*" {
			// distinct fresh allocation cannot alias a different base
			if exceptBase != "" {
				continue
			}
		}
		m.cells[cell] = memEntry{term: cell + "!" + tag}
	}
}

func cellBase(cell string) string {
	if i := strings.LastIndex(cell, "."); i > 0 && !strings.HasSuffix(cell, ")") && !strings.HasSuffix(cell, "]") {
		return cell[:i]
	}
	return cell
}

func (t *Terms) invalidateForCall(ci ssa.CallInstruction, m *memState, tag string) {
	c := ci.Common()
	targets := t.eff.targets(ci)
	static := c.StaticCallee()
	if len(targets) == 0 && static != nil && !t.w.InRepo(static) {
		// library call: may write through pointer arguments
		for _, a := range c.Args {
			if _, ok := a.Type().Underlying().(*types.Pointer); ok {
				t.invalidateBase(m, t.Term(a), tag)
			}
		}
		return
	}
	for _, g := range targets {
		for _, k := range t.eff.Writes(g) {
			if isParamClass(k) {
				pi := paramClassIndex(k)
				if pi < len(c.Args) {
					t.invalidateBase(m, t.Term(c.Args[pi]), tag)
				}
				continue
			}
			t.invalidateClass(m, k, tag, "")
		}
	}
	if static == nil && !c.IsInvoke() {
		if _, isB := c.Value.(*ssa.Builtin); !isB && len(targets) == 0 {
			// unknown dynamic call: forget everything
			for cell := range m.cells {
				m.cells[cell] = memEntry{term: cell + "!" + tag}
			}
		}
	}
}

// invalidateBase forgets *(P) and every P.f cell.
func (t *Terms) invalidateBase(m *memState, base, tag string) {
	cell := "*(" + base + ")"
	m.cells[cell] = memEntry{term: cell + "!" + tag}
	for c := range m.cells {
		if strings.HasPrefix(c, base+".") {
			m.cells[c] = memEntry{term: c + "!" + tag}
		}
	}
	m.classV["base:"+base] = tag
}

func (t *Terms) allocName(a *ssa.Alloc) string {
	return fmt.Sprintf("new#%d<%s>", t.allocOrd[a], shortType(deref(a.Type())))
}

// defaultContent is the content of a cell that has not been stored to on this path.
func (t *Terms) defaultContent(cell string, m *memState) string {
	base := cellBase(cell)
	if strings.HasPrefix(cell, "*(new#") || (t.fresh[base] && base != cell) {
		return "zero"
	}
	if cls, ok := m.cellCls[cell]; ok {
		if v, ok := m.classV[cls]; ok {
			return cell + "!" + v
		}
	}
	if v, ok := m.classV["base:"+base]; ok {
		return cell + "!" + v
	}
	return cell
}

// cellOf names the memory cell addressed by addr and its class.
func (t *Terms) cellOf(addr ssa.Value) (cell, cls string) {
	switch x := addr.(type) {
	case *ssa.FieldAddr:
		return t.Term(x.X) + "." + fieldName(x.X.Type(), x.Field), storeClass(addr)
	case *ssa.IndexAddr:
		return t.Term(x.X) + "[" + t.Term(x.Index) + "]", storeClass(addr)
	case *ssa.Alloc:
		return "*(" + t.allocName(x) + ")", ""
	case *ssa.Global:
		return "@" + x.Pkg.Pkg.Name() + "." + x.Name(), storeClass(addr)
	default:
		return "*(" + t.Term(addr) + ")", storeClass(addr)
	}
}

func (t *Terms) load(addr ssa.Value, m *memState) (string, ssa.Instruction) {
	cell, cls := t.cellOf(addr)
	if cls != "" {
		m.cellCls[cell] = cls
	}
	if e, ok := m.cells[cell]; ok {
		return e.term, e.def
	}
	return t.defaultContent(cell, m), nil
}

func (t *Terms) store(st *ssa.Store, m *memState) {
	cell, cls := t.cellOf(st.Addr)
	if cls != "" {
		m.cellCls[cell] = cls
		// may-alias: other cells of the same class with a different, non-fresh base
		base := cellBase(cell)
		for c, k := range m.cellCls {
			if k != cls || c == cell {
				continue
			}
			ob := cellBase(c)
			if t.fresh[ob] || t.fresh[base] {
				continue
			}
			m.cells[c] = memEntry{term: c + "!" + t.newOpaque("st")}
		}
		if !t.fresh[base] {
			// unknown cells of this class become versioned too
			m.classV[cls] = t.newOpaque("st")
		}
	}
	m.cells[cell] = memEntry{term: t.Term(st.Val), def: st}
}

var addK = regexp.MustCompile(`^(.*)\+(\d+)$`)

func (t *Terms) step(in ssa.Instruction, m *memState) {
	switch x := in.(type) {
	case *ssa.Store:
		t.store(x, m)
		return
	case *ssa.MapUpdate:
		t.invalidateClass(m, "map:"+shortType(x.Map.Type()), t.newOpaque("mu"), "")
		return
	case *ssa.UnOp:
		if x.Op == token.MUL {
			term, def := t.load(x.X, m)
			t.val[x] = term
			t.loadDef[x] = def
			return
		}
	case ssa.CallInstruction:
		if v, ok := in.(ssa.Value); ok {
			t.val[v] = t.callTerm(x)
		}
		if !t.isPureCall(x) {
			t.invalidateForCall(x, m, fmt.Sprintf("c%s@%d", shortCallee(t.calleeShort(x)), t.callOrd[x]))
		}
		return
	}
	if v, ok := in.(ssa.Value); ok {
		t.val[v] = t.compute(v)
	}
}

func shortCallee(s string) string {
	if i := strings.LastIndex(s, "."); i >= 0 {
		return s[i+1:]
	}
	return s
}

var pureStd = map[string]bool{
	"fmt.Sprintf": true, "fmt.Errorf": true, "errors.New": true, "strings.Join": true, "strings.HasSuffix": true,
	"strings.HasPrefix": true, "strings.Split": true, "strings.SplitN": true, "strings.ReplaceAll": true, "strings.TrimRightFunc": true,
	"strconv.ParseInt": true, "strconv.Itoa": true, "unicode.IsDigit": true, "unicode.IsLetter": true, "unicode.IsSpace": true,
	"unicode/utf8.DecodeRuneInString": true, "builtin:len": true, "builtin:cap": true, "builtin:append": true,
	"strings.TrimSpace": true, "strings.Contains": true, "strings.TrimRight": true, "strings.TrimSuffix": true, "strings.TrimPrefix": true,
	"(*strings.Builder).String": true, "(*strings.Builder).Len": true,
}

// isPureCall: the call writes nothing the analysis tracks and its result depends only on
// its arguments (and, for the Builder readers, on the builder cell which is versioned).
func (t *Terms) isPureCall(ci ssa.CallInstruction) bool {
	n := calleeName(ci)
	if pureStd[n] {
		return true
	}
	if f := callee(ci); f != nil && t.w.InRepo(f) {
		return len(t.eff.Writes(f)) == 0 && t.readsNoMutable(f)
	}
	return false
}

// readsNoMutable: approximates "result depends only on arguments": the function (and
// callees) performs no load from a global and calls nothing impure outside the repo.
func (t *Terms) readsNoMutable(f *ssa.Function) bool {
	ok := true
	seen := map[*ssa.Function]bool{}
	var visit func(g *ssa.Function)
	visit = func(g *ssa.Function) {
		if seen[g] || !ok {
			return
		}
		seen[g] = true
		for _, ci := range callsIn(g) {
			n := calleeName(ci)
			if pureStd[n] {
				continue
			}
			if h := callee(ci); h != nil && t.w.InRepo(h) {
				visit(h)
				continue
			}
			if strings.HasPrefix(n, "builtin:") {
				continue
			}
			ok = false
		}
	}
	visit(f)
	return ok
}

func (t *Terms) callTerm(ci ssa.CallInstruction) string {
	c := ci.Common()
	name := t.calleeShort(ci)
	if t.isPureCall(ci) {
		var as []string
		for _, a := range c.Args {
			as = append(as, t.Term(a))
		}
		if name == "(*strings.Builder).String" || name == "(*strings.Builder).Len" {
			// depends on builder content: version it by call ordinal
			return fmt.Sprintf("%s(%s)@%d", name, strings.Join(as, ","), t.callOrd[ci])
		}
		return name + "(" + strings.Join(as, ",") + ")"
	}
	return fmt.Sprintf("%s@%d", name, t.callOrd[ci])
}

// Term returns the term of v.
func (t *Terms) Term(v ssa.Value) string {
	if s, ok := t.val[v]; ok {
		return s
	}
	s := t.compute(v)
	t.val[v] = s
	return s
}

func (t *Terms) compute(v ssa.Value) string {
	switch x := v.(type) {
	case *ssa.Const:
		if x.Value == nil {
			if _, ok := x.Type().Underlying().(*types.Struct); ok {
				return "zero"
			}
			return "nil"
		}
		if s, ok := constStr(x.Value); ok {
			return strconv.Quote(s)
		}
		return x.Value.ExactString()
	case *ssa.Parameter:
		return "$" + x.Name()
	case *ssa.FreeVar:
		return "^" + x.Name()
	case *ssa.Global:
		return "&@" + x.Pkg.Pkg.Name() + "." + x.Name()
	case *ssa.Function:
		return "func:" + t.w.FuncKey(x)
	case *ssa.Builtin:
		return "builtin:" + x.Name()
	case *ssa.Alloc:
		n := t.allocName(x)
		t.fresh[n] = true
		return n
	case *ssa.FieldAddr:
		return "&" + t.Term(x.X) + "." + fieldName(x.X.Type(), x.Field)
	case *ssa.Field:
		return t.Term(x.X) + "." + fieldName(x.X.Type(), x.Field)
	case *ssa.IndexAddr:
		return "&" + t.Term(x.X) + "[" + t.Term(x.Index) + "]"
	case *ssa.Index:
		return t.Term(x.X) + "[" + t.Term(x.Index) + "]"
	case *ssa.Lookup:
		return t.Term(x.X) + "[" + t.Term(x.Index) + "]"
	case *ssa.Slice:
		lo, hi := "", ""
		if x.Low != nil {
			lo = t.Term(x.Low)
		}
		if x.High != nil {
			hi = t.Term(x.High)
		}
		return t.Term(x.X) + "[" + lo + ":" + hi + "]"
	case *ssa.MakeInterface:
		return t.Term(x.X)
	case *ssa.ChangeInterface:
		return t.Term(x.X)
	case *ssa.ChangeType:
		return t.Term(x.X)
	case *ssa.Convert:
		if b, ok := x.Type().Underlying().(*types.Basic); ok && b.Info()&types.IsString != 0 {
			if xb, ok := x.X.Type().Underlying().(*types.Basic); ok && xb.Info()&types.IsString != 0 {
				return t.Term(x.X)
			}
		}
		return "conv<" + shortType(x.Type()) + ">(" + t.Term(x.X) + ")"
	case *ssa.TypeAssert:
		return "assert<" + shortType(x.AssertedType) + ">(" + t.Term(x.X) + ")"
	case *ssa.Extract:
		return t.Term(x.Tuple) + "#" + strconv.Itoa(x.Index)
	case *ssa.MakeSlice:
		return t.newOpaque("makeslice")
	case *ssa.MakeMap:
		return t.newOpaque("makemap")
	case *ssa.MakeClosure:
		return "closure:" + t.w.FuncKey(x.Fn.(*ssa.Function))
	case *ssa.Range:
		return t.newOpaque("range")
	case *ssa.Next:
		return t.newOpaque("next")
	case *ssa.Phi:
		return t.phiTerm(x)
	case *ssa.BinOp:
		a, b := t.Term(x.X), t.Term(x.Y)
		switch x.Op {
		case token.ADD:
			if k, ok := intConst(x.Y); ok && k >= 0 {
				if m := addK.FindStringSubmatch(a); m != nil {
					p, _ := strconv.ParseInt(m[2], 10, 64)
					return fmt.Sprintf("%s+%d", m[1], p+k)
				}
				return fmt.Sprintf("%s+%d", a, k)
			}
			if _, isStr := x.Type().Underlying().(*types.Basic); isStr && x.Type().Underlying().(*types.Basic).Info()&types.IsString != 0 {
				return "(" + a + " ++ " + b + ")"
			}
			if a > b {
				a, b = b, a
			}
		case token.EQL, token.NEQ, token.MUL, token.AND, token.OR:
			if _, isC := x.X.(*ssa.Const); isC {
				a, b = b, a
			} else if _, isC := x.Y.(*ssa.Const); !isC && a > b {
				a, b = b, a
			}
		case token.GTR:
			return "(" + b + " < " + a + ")"
		case token.GEQ:
			return "(" + b + " <= " + a + ")"
		}
		return "(" + a + " " + x.Op.String() + " " + b + ")"
	case *ssa.UnOp:
		if x.Op == token.MUL {
			// load evaluated out of order (should not happen); treat as opaque
			return t.newOpaque("load")
		}
		return x.Op.String() + t.Term(x.X)
	case *ssa.Call:
		return t.callTerm(x)
	}
	return t.newOpaque(fmt.Sprintf("%T", v))
}

func (t *Terms) phiTerm(p *ssa.Phi) string {
	first := ""
	same := true
	for i, e := range p.Edges {
		pred := p.Block().Preds[i]
		if p.Block().Dominates(pred) {
			same = false // back edge
			break
		}
		s, ok := t.val[e]
		if !ok {
			if _, isC := e.(*ssa.Const); isC {
				s = t.Term(e)
			} else {
				same = false
				break
			}
		}
		if i == 0 {
			first = s
		} else if s != first {
			same = false
		}
	}
	if same && first != "" {
		return first
	}
	name := p.Comment
	return fmt.Sprintf("phi(b%d:%s)", p.Block().Index, name) + "#" + strconv.Itoa(idxInBlock(p))
}

// MemBefore returns the memory state just before instruction `in`.
func (t *Terms) MemBefore(in ssa.Instruction) *memState {
	b := in.Block()
	m := t.memIn[b]
	if m == nil {
		return newMem()
	}
	m = m.clone()
	// re-simulate without disturbing recorded values
	saveVal := t.val
	t.val = map[ssa.Value]string{}
	for k, v := range saveVal {
		t.val[k] = v
	}
	saveOp := t.opaque
	for _, x := range b.Instrs {
		if x == in {
			break
		}
		switch y := x.(type) {
		case *ssa.Store:
			cell, cls := t.cellOf(y.Addr)
			if cls != "" {
				m.cellCls[cell] = cls
			}
			m.cells[cell] = memEntry{term: saveVal[y.Val], def: y}
			if saveVal[y.Val] == "" {
				m.cells[cell] = memEntry{term: t.Term(y.Val), def: y}
			}
		case ssa.CallInstruction:
			if !t.isPureCall(y) {
				t.invalidateForCall(y, m, fmt.Sprintf("c%s@%d", shortCallee(t.calleeShort(y)), t.callOrd[y]))
			}
		case *ssa.MapUpdate:
			t.invalidateClass(m, "map:"+shortType(y.Map.Type()), "mu", "")
		}
	}
	t.val = saveVal
	t.opaque = saveOp
	return m
}

// FieldAt returns the term of field f of the object denoted by base term, just before `at`.
func (t *Terms) FieldAt(at ssa.Instruction, base, field string) string {
	m := t.MemBefore(at)
	cell := base + "." + field
	if e, ok := m.cells[cell]; ok {
		return e.term
	}
	return t.defaultContent(cell, m)
}

// FieldDefAt returns the store that defines field f of base just before `at` (nil if unknown).
func (t *Terms) FieldDefAt(at ssa.Instruction, base, field string) ssa.Instruction {
	m := t.MemBefore(at)
	if e, ok := m.cells[base+"."+field]; ok {
		return e.def
	}
	return nil
}
