package main

// K-ORIGIN: value-origin terms for SSA values of one function. A term is a canonical
// string; two values with the same term are equal on every execution (global value
// numbering with store-to-load forwarding, struct copy/update tracking and class-based
// invalidation through K-EFFECT). No solver, no path enumeration: joins with different
// inputs become opaque terms.
//
// Memory model. A *cell* names a storage location:
//   P.f        field f of the struct pointed to by pointer term P (or of sub-object cell P)
//   P{}        the whole struct pointed to by P
//   X[i]       element
//   *(P)       non-struct pointee
//   @pkg.g     package variable
// A struct-valued cell may hold a term T; its fields read as proj(T,f). Updating a field
// of a copied struct yields with(T; f=v).
//
// Token window. Functions of the shape of (*Parser).nextToken (a chain of field-to-field
// copies ending in a call) are applied as a *shift* of those cells, so that
// `p.curToken` after one advance is the same term as `p.peekToken` before it.
// (*Parser).expectPeek is treated as a shift as well: on its error result every caller
// returns at once (rule C18.d checks that), so the state seen by code that continues is
// always the advanced one.

import (
	"fmt"
	"go/token"
	"go/types"
	"regexp"
	"sort"
	"strconv"
	"strings"

	"golang.org/x/tools/go/ssa"
)

type memEntry struct {
	term string
	def  ssa.Instruction // Store or invalidating call; nil for merges
}

type memState struct {
	cells   map[string]memEntry // cell name -> content
	classV  map[string]string   // class -> version tag (set by invalidations)
	cellCls map[string]string   // cell name -> class
}

func newMem() *memState {
	return &memState{cells: map[string]memEntry{}, classV: map[string]string{}, cellCls: map[string]string{}}
}

func (m *memState) clone() *memState {
	n := newMem()
	for k, v := range m.cells {
		n.cells[k] = v
	}
	for k, v := range m.classV {
		n.classV[k] = v
	}
	for k, v := range m.cellCls {
		n.cellCls[k] = v
	}
	return n
}

type withInfo struct {
	base string
	over map[string]string
}

// shiftShape describes a nextToken-like function: dst field <- src field copies (in
// order) and the field that receives a fresh value from a call.
type shiftShape struct {
	copies [][2]string // {dst, src}
	last   string
}

// testShape describes a peekTokenIs-like function: return recv.F.G == param.
type testShape struct {
	f, g  string
	param int
}

// Terms holds the analysis result for one function.
type Terms struct {
	w        *World
	eff      *Effects
	fn       *ssa.Function
	val      map[ssa.Value]string
	memIn    map[*ssa.BasicBlock]*memState
	memOut   map[*ssa.BasicBlock]*memState
	loadDef  map[*ssa.UnOp]ssa.Instruction
	callOrd  map[ssa.CallInstruction]int
	allocOrd map[*ssa.Alloc]int
	rpo      []*ssa.BasicBlock
	opaque   int
	fresh    map[string]bool // pointer terms of fresh allocations
	withs    map[string]*withInfo
}

var termCache = map[*ssa.Function]*Terms{}
var shiftCache = map[*ssa.Function]*shiftShape{}
var testCache = map[*ssa.Function]*testShape{}
var purityCache = map[*ssa.Function]int{}

// TermsOf computes (and caches) the terms of fn.
func (w *World) TermsOf(fn *ssa.Function, eff *Effects) *Terms {
	if t, ok := termCache[fn]; ok {
		return t
	}
	t := &Terms{w: w, eff: eff, fn: fn, val: map[ssa.Value]string{}, memIn: map[*ssa.BasicBlock]*memState{}, memOut: map[*ssa.BasicBlock]*memState{},
		loadDef: map[*ssa.UnOp]ssa.Instruction{}, callOrd: map[ssa.CallInstruction]int{}, allocOrd: map[*ssa.Alloc]int{}, fresh: map[string]bool{}, withs: map[string]*withInfo{}}
	t.number()
	t.run()
	termCache[fn] = t
	return t
}

// number assigns stable ordinals: calls per callee name, allocs per type, by source position.
func (t *Terms) number() {
	callsBy := map[string][]ssa.CallInstruction{}
	allocsBy := map[string][]*ssa.Alloc{}
	instrs(t.fn, func(in ssa.Instruction) {
		switch x := in.(type) {
		case ssa.CallInstruction:
			n := t.calleeKey(x)
			callsBy[n] = append(callsBy[n], x)
		case *ssa.Alloc:
			n := shortType(deref(x.Type()))
			allocsBy[n] = append(allocsBy[n], x)
		}
	})
	for _, cs := range callsBy {
		sort.SliceStable(cs, func(i, j int) bool { return cs[i].Pos() < cs[j].Pos() })
		for i, c := range cs {
			t.callOrd[c] = i
		}
	}
	for _, as := range allocsBy {
		sort.SliceStable(as, func(i, j int) bool { return as[i].Pos() < as[j].Pos() })
		for i, a := range as {
			t.allocOrd[a] = i
		}
	}
}

func (t *Terms) calleeKey(ci ssa.CallInstruction) string {
	n := calleeName(ci)
	if n == "" {
		return "dyn"
	}
	n = strings.ReplaceAll(n, t.w.ModPath+"/", "")
	n = strings.ReplaceAll(n, t.w.ModPath+".", "main.")
	return n
}

func (t *Terms) calleeShort(ci ssa.CallInstruction) string {
	n := t.calleeKey(ci)
	if n == "dyn" {
		return "dyn:" + t.Term(ci.Common().Value)
	}
	return n
}

func (t *Terms) computeRPO() {
	seen := map[*ssa.BasicBlock]bool{}
	var post []*ssa.BasicBlock
	var dfs func(b *ssa.BasicBlock)
	dfs = func(b *ssa.BasicBlock) {
		seen[b] = true
		for _, s := range b.Succs {
			if !seen[s] {
				dfs(s)
			}
		}
		post = append(post, b)
	}
	if len(t.fn.Blocks) > 0 {
		dfs(t.fn.Blocks[0])
	}
	for i := len(post) - 1; i >= 0; i-- {
		t.rpo = append(t.rpo, post[i])
	}
}

func (t *Terms) newOpaque(prefix string) string {
	t.opaque++
	return fmt.Sprintf("%s?%d", prefix, t.opaque)
}

func (t *Terms) run() {
	if len(t.fn.Blocks) == 0 {
		return
	}
	t.computeRPO()
	for i, p := range t.fn.Params {
		t.val[p] = "$" + strconv.Itoa(i)
	}
	for i, fv := range t.fn.FreeVars {
		t.val[fv] = "^" + strconv.Itoa(i)
	}
	for _, b := range t.rpo {
		var in *memState
		var preds []*memState
		for _, p := range b.Preds {
			if out, ok := t.memOut[p]; ok && !b.Dominates(p) {
				preds = append(preds, out)
			}
		}
		if len(preds) == 0 {
			in = newMem()
		} else {
			in = t.merge(b, preds)
		}
		if isLoopHeader(b) {
			t.invalidateLoop(b, in)
		}
		t.memIn[b] = in
		m := in.clone()
		for _, instr := range b.Instrs {
			t.step(instr, m)
		}
		t.memOut[b] = m
	}
}

func (t *Terms) merge(b *ssa.BasicBlock, preds []*memState) *memState {
	out := newMem()
	for _, p := range preds {
		for k, c := range p.cellCls {
			out.cellCls[k] = c
		}
	}
	ckeys := map[string]bool{}
	for _, p := range preds {
		for k := range p.classV {
			ckeys[k] = true
		}
	}
	for k := range ckeys {
		v0, ok0 := preds[0].classV[k]
		same := true
		for _, p := range preds[1:] {
			v, ok := p.classV[k]
			if v != v0 || ok != ok0 {
				same = false
			}
		}
		if same {
			out.classV[k] = v0
		} else {
			out.classV[k] = fmt.Sprintf("j%d", b.Index)
		}
	}
	keys := map[string]bool{}
	for _, p := range preds {
		for k := range p.cells {
			keys[k] = true
		}
	}
	for k := range keys {
		var first memEntry
		same := true
		for i, p := range preds {
			e, ok := p.cells[k]
			if !ok {
				e = memEntry{term: t.lookup(k, p), def: nil}
			}
			if i == 0 {
				first = e
			} else if e.term != first.term {
				same = false
			} else if e.def != first.def {
				first.def = nil
			}
		}
		if same {
			out.cells[k] = first
		} else {
			out.cells[k] = memEntry{term: fmt.Sprintf("mu(b%d,%s)", b.Index, k), def: nil}
		}
	}
	return out
}

// invalidateLoop makes everything that may be written inside the loop unknown at its header.
func (t *Terms) invalidateLoop(h *ssa.BasicBlock, m *memState) {
	body := loopBody(h)
	tag := fmt.Sprintf("L%d", h.Index)
	for b := range body {
		for _, in := range b.Instrs {
			switch x := in.(type) {
			case *ssa.Store:
				root := rootValue(x.Addr)
				if a, ok := root.(*ssa.Alloc); ok {
					if body[a.Block()] {
						continue // object allocated inside the loop: fresh every iteration
					}
					// local variable / object allocated before the loop, updated in it
					if cell, ok := t.invariantCell(x.Addr); ok {
						t.forgetCell(m, cell, tag)
					} else {
						t.forgetPrefix(m, t.Term(a), tag)
					}
					continue
				}
				if p, ok := x.Addr.(*ssa.Parameter); ok {
					cell := "*(" + t.Term(p) + ")"
					m.cells[cell] = memEntry{term: fmt.Sprintf("mu(%s,%s)", tag, cell)}
					continue
				}
				t.invalidateClass(m, storeClass(x.Addr), tag)
			case *ssa.MapUpdate:
				t.invalidateClass(m, "map:"+shortType(x.Map.Type()), tag)
			case ssa.CallInstruction:
				if !t.isQuietCall(x) {
					t.invalidateForCall(x, m, tag)
				}
			}
		}
	}
}

// invariantCell names the cell of an address made only of field selections on an
// allocation or parameter (so the name does not depend on loop-variant values).
func (t *Terms) invariantCell(addr ssa.Value) (string, bool) {
	switch x := addr.(type) {
	case *ssa.FieldAddr:
		switch y := x.X.(type) {
		case *ssa.FieldAddr:
			b, ok := t.invariantCell(y)
			return b + "." + fieldName(x.X.Type(), x.Field), ok
		case *ssa.Alloc:
			return t.Term(y) + "." + fieldName(x.X.Type(), x.Field), true
		case *ssa.Parameter:
			return t.Term(y) + "." + fieldName(x.X.Type(), x.Field), true
		}
		return "", false
	case *ssa.Alloc:
		c, _ := t.cellOf(x)
		return c, true
	}
	return "", false
}

// forgetCell makes one cell (and its sub-cells) unknown.
func (t *Terms) forgetCell(m *memState, cell, tag string) {
	m.cells[cell] = memEntry{term: fmt.Sprintf("mu(%s,%s)", tag, cell)}
	prefix := strings.TrimSuffix(cell, "{}") + "."
	for c := range m.cells {
		if strings.HasPrefix(c, prefix) {
			delete(m.cells, c)
		}
	}
}

// forgetPrefix makes the object named by pointer term base (and its sub-cells) unknown.
func (t *Terms) forgetPrefix(m *memState, base, tag string) {
	for c := range m.cells {
		if c == base+"{}" || c == "*("+base+")" || strings.HasPrefix(c, base+".") || strings.HasPrefix(c, base+"[") {
			m.cells[c] = memEntry{term: fmt.Sprintf("mu(%s,%s)", tag, c)}
		}
	}
	m.classV["base:"+base] = tag
}

func (t *Terms) invalidateClass(m *memState, cls, tag string) {
	m.classV[cls] = tag
	for cell, c := range m.cellCls {
		if c != cls {
			continue
		}
		if _, has := m.cells[cell]; has {
			m.cells[cell] = memEntry{term: cell + "!" + tag}
		}
		for sub := range m.cells {
			if strings.HasPrefix(sub, cell+".") {
				delete(m.cells, sub)
			}
		}
	}
}

func (t *Terms) invalidateForCall(ci ssa.CallInstruction, m *memState, tag string) {
	c := ci.Common()
	targets := t.eff.targets(ci)
	static := c.StaticCallee()
	if static != nil && !t.w.InRepo(static) {
		// library call: may write through pointer arguments
		for _, a := range c.Args {
			if _, ok := a.Type().Underlying().(*types.Pointer); ok {
				t.forgetPrefix(m, t.Term(a), tag)
			}
		}
		return
	}
	if c.IsInvoke() && len(targets) == 0 {
		return
	}
	for _, g := range targets {
		for _, k := range t.eff.Writes(g) {
			if isParamClass(k) {
				pi := paramClassIndex(k)
				if pi < len(c.Args) {
					t.forgetPrefix(m, t.Term(c.Args[pi]), tag)
				}
				continue
			}
			t.invalidateClass(m, k, tag)
		}
	}
	if static == nil && !c.IsInvoke() {
		if _, isB := c.Value.(*ssa.Builtin); !isB && len(targets) == 0 {
			for cell := range m.cells {
				m.cells[cell] = memEntry{term: cell + "!" + tag}
			}
		}
	}
}

func (t *Terms) allocName(a *ssa.Alloc) string {
	return fmt.Sprintf("new#%d<%s>", t.allocOrd[a], shortType(deref(a.Type())))
}

func isStructType(ty types.Type) bool {
	_, ok := ty.Underlying().(*types.Struct)
	return ok
}

type cellLevel struct{ cell, cls string }

// cellOf names the memory cell addressed by addr; levels lists the enclosing cells
// (outermost first) with their classes, the last one being the cell itself.
func (t *Terms) cellOf(addr ssa.Value) (cell string, levels []cellLevel) {
	switch x := addr.(type) {
	case *ssa.FieldAddr:
		var base string
		var up []cellLevel
		switch x.X.(type) {
		case *ssa.FieldAddr, *ssa.IndexAddr:
			base, up = t.cellOf(x.X)
		default:
			base = t.Term(x.X)
		}
		cell = base + "." + fieldName(x.X.Type(), x.Field)
		return cell, append(up, cellLevel{cell, storeClass(addr)})
	case *ssa.IndexAddr:
		var base string
		var up []cellLevel
		switch x.X.(type) {
		case *ssa.FieldAddr, *ssa.IndexAddr:
			base, up = t.cellOf(x.X)
		default:
			base = t.Term(x.X)
		}
		cell = base + "[" + t.Term(x.Index) + "]"
		return cell, append(up, cellLevel{cell, storeClass(addr)})
	case *ssa.Alloc:
		if isStructType(deref(x.Type())) {
			cell = t.Term(x) + "{}"
		} else {
			cell = "*(" + t.Term(x) + ")"
		}
		return cell, []cellLevel{{cell, ""}}
	case *ssa.Global:
		cell = "@" + x.Pkg.Pkg.Name() + "." + x.Name()
		return cell, []cellLevel{{cell, storeClass(addr)}}
	default:
		if isStructType(deref(addr.Type())) {
			cell = t.Term(addr) + "{}"
		} else {
			cell = "*(" + t.Term(addr) + ")"
		}
		return cell, []cellLevel{{cell, storeClass(addr)}}
	}
}

// splitCell splits "B.f" into (B, f); ok=false for non-field cells.
func splitCell(cell string) (string, string, bool) {
	if strings.HasSuffix(cell, "{}") || strings.HasSuffix(cell, ")") || strings.HasSuffix(cell, "]") {
		return "", "", false
	}
	// find last '.' at bracket depth 0 and outside quotes
	depth := 0
	inStr := false
	last := -1
	for i := 0; i < len(cell); i++ {
		ch := cell[i]
		if ch == '"' && (i == 0 || cell[i-1] != '\\') {
			inStr = !inStr
		}
		if inStr {
			continue
		}
		switch ch {
		case '(', '[', '<', '{':
			depth++
		case ')', ']', '>', '}':
			depth--
		case '.':
			if depth == 0 {
				last = i
			}
		}
	}
	if last <= 0 {
		return "", "", false
	}
	return cell[:last], cell[last+1:], true
}

// proj projects field f out of a struct term.
func (t *Terms) proj(term, f string) string {
	if term == "zero" {
		return "zero"
	}
	if wi, ok := t.withs[term]; ok {
		if v, ok := wi.over[f]; ok {
			return v
		}
		return t.proj(wi.base, f)
	}
	return term + "." + f
}

func (t *Terms) mkWith(base string, over map[string]string) string {
	if wi, ok := t.withs[base]; ok {
		merged := map[string]string{}
		for k, v := range wi.over {
			merged[k] = v
		}
		for k, v := range over {
			merged[k] = v
		}
		base, over = wi.base, merged
	}
	var ks []string
	for k := range over {
		ks = append(ks, k)
	}
	sort.Strings(ks)
	var parts []string
	for _, k := range ks {
		parts = append(parts, k+"="+over[k])
	}
	s := "with(" + base + "; " + strings.Join(parts, "; ") + ")"
	t.withs[s] = &withInfo{base: base, over: over}
	return s
}

// initial is the content of a cell never written on this path (with invalidation versions).
func (t *Terms) initial(cell string, m *memState) string {
	if strings.HasSuffix(cell, "{}") {
		base := strings.TrimSuffix(cell, "{}")
		if t.fresh[base] {
			return "zero"
		}
		if v, ok := m.classV["base:"+base]; ok {
			return "*" + base + "!" + v
		}
		return "*" + base
	}
	if strings.HasPrefix(cell, "*(") {
		base := strings.TrimSuffix(strings.TrimPrefix(cell, "*("), ")")
		if t.fresh[base] {
			return "zero"
		}
		if v, ok := m.classV["base:"+base]; ok {
			return cell + "!" + v
		}
		return cell
	}
	if b, _, ok := splitCell(cell); ok {
		if t.fresh[b] {
			return "zero"
		}
		if v, ok := m.classV["base:"+b]; ok {
			return cell + "!" + v
		}
	}
	if cls, ok := m.cellCls[cell]; ok && cls != "" {
		if v, ok := m.classV[cls]; ok {
			return cell + "!" + v
		}
	}
	return cell
}

// lookup returns the content of a cell in state m (following struct prefixes).
func (t *Terms) lookup(cell string, m *memState) string {
	if e, ok := m.cells[cell]; ok {
		return e.term
	}
	if b, f, ok := splitCell(cell); ok {
		// whole-struct candidates: sub-object cell b, or object b{}
		if e, ok := m.cells[b]; ok {
			return t.proj(e.term, f)
		}
		if e, ok := m.cells[b+"{}"]; ok {
			return t.proj(e.term, f)
		}
		// an enclosing cell further up?
		if _, _, ok2 := splitCell(b); ok2 {
			if _, known := m.cellCls[b]; known {
				up := t.lookup(b, m)
				if up != b {
					return t.proj(up, f)
				}
			}
		}
	}
	return t.initial(cell, m)
}

// wholeLoad returns the content of a struct-valued cell including field overrides.
func (t *Terms) wholeLoad(cell string, m *memState) string {
	baseTerm := ""
	if e, ok := m.cells[cell]; ok {
		baseTerm = e.term
	} else {
		baseTerm = t.lookup(cell, m)
	}
	prefix := strings.TrimSuffix(cell, "{}") + "."
	over := map[string]string{}
	for c, e := range m.cells {
		if strings.HasPrefix(c, prefix) {
			rest := c[len(prefix):]
			if _, _, nested := splitCell(c); nested && !strings.ContainsAny(rest, ".[") {
				over[rest] = e.term
			} else {
				over[rest] = e.term
			}
		}
	}
	if len(over) == 0 {
		return baseTerm
	}
	return t.mkWith(baseTerm, over)
}

func (t *Terms) load(u *ssa.UnOp, m *memState) (string, ssa.Instruction) {
	cell, levels := t.cellOf(u.X)
	for _, l := range levels {
		if l.cls != "" {
			m.cellCls[l.cell] = l.cls
		}
	}
	var def ssa.Instruction
	if e, ok := m.cells[cell]; ok {
		def = e.def
	}
	if isStructType(u.Type()) {
		return t.wholeLoad(cell, m), def
	}
	return t.lookup(cell, m), def
}

func (t *Terms) store(st *ssa.Store, m *memState) {
	cell, levels := t.cellOf(st.Addr)
	for _, l := range levels {
		if l.cls != "" {
			m.cellCls[l.cell] = l.cls
		}
	}
	cls := levels[len(levels)-1].cls
	root := rootValue(st.Addr)
	_, rootFresh := root.(*ssa.Alloc)
	if cls != "" && !rootFresh {
		// may-alias: other cells of the same class reached through a different, non-fresh base
		for c, k := range m.cellCls {
			if k != cls || c == cell {
				continue
			}
			b, _, ok := splitCell(c)
			if ok && t.fresh[b] {
				continue
			}
			if _, has := m.cells[c]; has {
				m.cells[c] = memEntry{term: c + "!" + t.newOpaque("st")}
			}
		}
		m.classV[cls] = t.newOpaque("st")
	}
	// drop sub-cells of the stored cell
	prefix := strings.TrimSuffix(cell, "{}") + "."
	for c := range m.cells {
		if strings.HasPrefix(c, prefix) {
			delete(m.cells, c)
		}
	}
	m.cells[cell] = memEntry{term: t.Term(st.Val), def: st}
}

var addK = regexp.MustCompile(`^(.*)\+(\d+)$`)

func (t *Terms) step(in ssa.Instruction, m *memState) {
	switch x := in.(type) {
	case *ssa.Store:
		t.store(x, m)
		return
	case *ssa.MapUpdate:
		t.invalidateClass(m, "map:"+shortType(x.Map.Type()), t.newOpaque("mu"))
		return
	case *ssa.UnOp:
		if x.Op == token.MUL {
			term, def := t.load(x, m)
			t.val[x] = term
			t.loadDef[x] = def
			return
		}
	case ssa.CallInstruction:
		t.stepCall(x, m)
		return
	}
	if v, ok := in.(ssa.Value); ok {
		t.val[v] = t.compute(v)
	}
}

func (t *Terms) stepCall(x ssa.CallInstruction, m *memState) {
	v, isVal := x.(ssa.Value)
	f := callee(x)
	tag := fmt.Sprintf("c%s@%d", shortCallee(t.calleeKey(x)), t.callOrd[x])
	if f != nil && t.w.InRepo(f) {
		if ts := t.testShapeOf(f); ts != nil && isVal && len(x.Common().Args) > ts.param {
			recv := t.Term(x.Common().Args[0])
			cell := recv + "." + ts.f + "." + ts.g
			m.cellCls[recv+"."+ts.f] = t.recvClass(f, ts.f)
			t.val[v] = "(" + t.lookup(cell, m) + " == " + t.Term(x.Common().Args[ts.param]) + ")"
			return
		}
		sh := t.shiftShapeOf(f)
		if sh == nil && isExpectPeek(t.w, f) {
			if nt := t.w.Method("parser", "Parser", "nextToken"); nt != nil {
				sh = t.shiftShapeOf(nt)
			}
		}
		if sh != nil {
			if isVal {
				t.val[v] = t.callTerm(x)
			}
			t.applyShift(sh, f, t.Term(x.Common().Args[0]), m, tag)
			return
		}
	}
	if isVal && f != nil && t.w.InRepo(f) {
		if term, ok := t.inlineValue(x, f, m); ok {
			t.val[v] = term
			return
		}
	}
	if isVal {
		term := t.callTerm(x)
		// a pure function of a slice depends on the slice's elements: version the term by the
		// element class when elements of that slice type were overwritten earlier on this path
		for _, a := range x.Common().Args {
			if n := calleeName(x); n == "builtin:len" || n == "builtin:cap" || n == "builtin:append" {
				break // do not read element contents
			}
			if _, isSlice := a.Type().Underlying().(*types.Slice); isSlice {
				if ver, ok := m.classV["elem:"+shortType(a.Type())]; ok && !strings.Contains(term, "@") {
					term += "!e" + ver
				}
			}
		}
		t.val[v] = term
	}
	if !t.isQuietCall(x) {
		t.invalidateForCall(x, m, tag)
	}
}

func isExpectPeek(w *World, f *ssa.Function) bool {
	return f == w.Method("parser", "Parser", "expectPeek")
}

func (t *Terms) recvClass(f *ssa.Function, field string) string {
	if len(f.Params) == 0 {
		return ""
	}
	n := namedOf(f.Params[0].Type())
	if n == nil {
		return ""
	}
	return n.Obj().Pkg().Name() + "." + n.Obj().Name() + "." + field
}

func (t *Terms) applyShift(sh *shiftShape, f *ssa.Function, recv string, m *memState, tag string) {
	vals := map[string]string{}
	for _, c := range sh.copies {
		cell := recv + "." + c[1]
		m.cellCls[cell] = t.recvClass(f, c[1])
		vals[c[0]] = t.wholeLoad(cell, m)
	}
	fields := map[string]bool{sh.last: true}
	for _, c := range sh.copies {
		fields[c[0]] = true
		fields[c[1]] = true
	}
	for fld := range fields {
		prefix := recv + "." + fld + "."
		for c := range m.cells {
			if strings.HasPrefix(c, prefix) {
				delete(m.cells, c)
			}
		}
	}
	for _, c := range sh.copies {
		cell := recv + "." + c[0]
		m.cellCls[cell] = t.recvClass(f, c[0])
		m.cells[cell] = memEntry{term: vals[c[0]]}
	}
	cell := recv + "." + sh.last
	m.cellCls[cell] = t.recvClass(f, sh.last)
	m.cells[cell] = memEntry{term: "lex!" + tag}
}

// shiftShapeOf recognises `recv.A = recv.B; recv.B = recv.C; ...; recv.Z = call()`.
func (t *Terms) shiftShapeOf(f *ssa.Function) *shiftShape {
	if s, ok := shiftCache[f]; ok {
		return s
	}
	shiftCache[f] = nil
	if len(f.Blocks) != 1 || len(f.Params) != 1 {
		return nil
	}
	recv := f.Params[0]
	sh := &shiftShape{}
	for _, in := range f.Blocks[0].Instrs {
		switch x := in.(type) {
		case *ssa.Store:
			fa, ok := x.Addr.(*ssa.FieldAddr)
			if !ok || fa.X != recv {
				return nil
			}
			dst := fieldName(recv.Type(), fa.Field)
			switch v := x.Val.(type) {
			case *ssa.UnOp:
				sfa, ok := v.X.(*ssa.FieldAddr)
				if !ok || sfa.X != recv {
					return nil
				}
				sh.copies = append(sh.copies, [2]string{dst, fieldName(recv.Type(), sfa.Field)})
			case *ssa.Call:
				if sh.last != "" {
					return nil
				}
				sh.last = dst
			default:
				return nil
			}
		case *ssa.FieldAddr, *ssa.UnOp, *ssa.Call, *ssa.Return:
		default:
			return nil
		}
	}
	if len(sh.copies) < 2 || sh.last == "" {
		return nil
	}
	shiftCache[f] = sh
	return sh
}

// testShapeOf recognises `return recv.F.G == param`.
func (t *Terms) testShapeOf(f *ssa.Function) *testShape {
	if f == nil {
		return nil // a call through a function value
	}
	if s, ok := testCache[f]; ok {
		return s
	}
	testCache[f] = nil
	if len(f.Blocks) != 1 || len(f.Params) != 2 {
		return nil
	}
	ins := f.Blocks[0].Instrs
	ret, ok := ins[len(ins)-1].(*ssa.Return)
	if !ok || len(ret.Results) != 1 {
		return nil
	}
	bo, ok := ret.Results[0].(*ssa.BinOp)
	if !ok || bo.Op != token.EQL {
		return nil
	}
	ld, ok := bo.X.(*ssa.UnOp)
	par := bo.Y
	if !ok {
		ld, ok = bo.Y.(*ssa.UnOp)
		par = bo.X
	}
	if !ok || ld.Op != token.MUL || par != ssa.Value(f.Params[1]) {
		return nil
	}
	inner, ok := ld.X.(*ssa.FieldAddr)
	if !ok {
		return nil
	}
	outer, ok := inner.X.(*ssa.FieldAddr)
	if !ok || outer.X != ssa.Value(f.Params[0]) {
		return nil
	}
	ts := &testShape{f: fieldName(outer.X.Type(), outer.Field), g: fieldName(inner.X.Type(), inner.Field), param: 1}
	testCache[f] = ts
	return ts
}

func shortCallee(s string) string {
	if i := strings.LastIndex(s, "."); i >= 0 {
		return s[i+1:]
	}
	return s
}

var pureStd = map[string]bool{
	"fmt.Sprintf": true, "fmt.Errorf": true, "errors.New": true, "strings.Join": true, "strings.HasSuffix": true,
	"strings.HasPrefix": true, "strings.Split": true, "strings.SplitN": true, "strings.ReplaceAll": true, "strings.TrimRightFunc": true,
	"strconv.ParseInt": true, "strconv.Itoa": true, "unicode.IsDigit": true, "unicode.IsLetter": true, "unicode.IsSpace": true,
	"unicode/utf8.DecodeRuneInString": true, "builtin:len": true, "builtin:cap": true, "builtin:append": true,
	"strings.TrimSpace": true, "strings.Contains": true, "strings.TrimRight": true, "strings.TrimSuffix": true, "strings.TrimPrefix": true,
	"strings.ToLower": true, "strings.ToUpper": true, "strings.EqualFold": true, "strings.Index": true, "strings.Repeat": true,
	"strings.ContainsRune": true, "strings.ContainsAny": true, "strings.IndexRune": true, "strings.IndexByte": true, "strings.IndexAny": true,
	"strings.LastIndex": true, "strings.Count": true, "strings.Fields": true, "strings.Title": true, "strings.TrimLeft": true, "strings.Trim": true,
	"strings.Replace": true, "strings.Compare": true, "strconv.Atoi": true, "strconv.Quote": true, "strconv.FormatInt": true,
	"unicode.IsUpper": true, "unicode.IsLower": true, "unicode.IsPunct": true, "unicode.ToLower": true, "unicode.ToUpper": true, "unicode.In": true,
	"unicode/utf8.RuneLen": true, "unicode/utf8.RuneCountInString": true, "unicode/utf8.DecodeLastRuneInString": true, "unicode/utf8.ValidString": true,
	"sort.Strings": false,
}

var readerStd = map[string]bool{
	"(*strings.Builder).String": true, "(*strings.Builder).Len": true,
}

const (
	purImpure = iota + 1
	purReadOnly
	purArgOnly
)

// purity classifies a repo function: argOnly (result determined by arguments; may read
// package variables, which rule C17.b shows are never written after init), readOnly
// (writes nothing but reads memory through its parameters), impure.
func (t *Terms) purity(f *ssa.Function) int {
	if p, ok := purityCache[f]; ok {
		return p
	}
	purityCache[f] = purImpure // recursion guard
	p := purArgOnly
	if len(t.eff.Writes(f)) > 0 {
		purityCache[f] = purImpure
		return purImpure
	}
	instrs(f, func(in ssa.Instruction) {
		switch x := in.(type) {
		case *ssa.UnOp:
			if x.Op == token.MUL {
				root := rootValue(x.X)
				switch root.(type) {
				case *ssa.Alloc, *ssa.Global:
				default:
					if p > purReadOnly {
						p = purReadOnly
					}
				}
			}
		case *ssa.Lookup, *ssa.Index:
			// reads of map/slice contents passed in
			if p > purReadOnly {
				if _, isGlobalLoad := rootValue(x.(ssa.Value)).(*ssa.Global); !isGlobalLoad {
					// lookups in maps loaded from package variables stay argOnly; others readOnly
					if lk, ok := x.(*ssa.Lookup); ok {
						if u, ok := lk.X.(*ssa.UnOp); ok {
							if _, ok := u.X.(*ssa.Global); ok {
								return
							}
						}
						if _, isStr := lk.X.Type().Underlying().(*types.Basic); isStr {
							return
						}
					}
					p = purReadOnly
				}
			}
		case ssa.CallInstruction:
			n := calleeName(x)
			if pureStd[n] {
				return
			}
			if readerStd[n] {
				if p > purReadOnly {
					p = purReadOnly
				}
				return
			}
			if g := callee(x); g != nil && t.w.InRepo(g) {
				q := t.purity(g)
				if q < p {
					p = q
				}
				return
			}
			if strings.HasPrefix(n, "builtin:") {
				return
			}
			// library call that only touches objects local to this function (e.g. a local strings.Builder)
			localOnly := callee(x) != nil && len(x.Common().Args) > 0
			for _, a := range x.Common().Args {
				if _, isPtr := a.Type().Underlying().(*types.Pointer); isPtr {
					if _, isLocal := rootValue(a).(*ssa.Alloc); !isLocal {
						localOnly = false
					}
				}
			}
			if localOnly && (strings.HasPrefix(n, "(*strings.Builder).") || strings.HasPrefix(n, "(*bytes.Buffer).")) {
				return
			}
			// sorting a list that was made in this function rearranges nothing anybody else sees
			if (n == "sort.Ints" || n == "sort.Strings") && len(x.Common().Args) == 1 && localSlice(x.Common().Args[0], map[ssa.Value]bool{}) {
				return
			}
			p = purImpure
		}
	})
	purityCache[f] = p
	return p
}

// isQuietCall: the call writes nothing the analysis tracks.
func (t *Terms) isQuietCall(ci ssa.CallInstruction) bool {
	n := calleeName(ci)
	if pureStd[n] || readerStd[n] {
		return true
	}
	if f := callee(ci); f != nil && t.w.InRepo(f) {
		return t.purity(f) >= purReadOnly
	}
	return false
}

func (t *Terms) callTerm(ci ssa.CallInstruction) string {
	c := ci.Common()
	name := t.calleeShort(ci)
	n := calleeName(ci)
	argOnly := pureStd[n]
	if f := callee(ci); f != nil && t.w.InRepo(f) {
		argOnly = t.purity(f) == purArgOnly
	}
	var as []string
	for _, a := range c.Args {
		as = append(as, t.Term(a))
	}
	if argOnly {
		return name + "(" + strings.Join(as, ",") + ")"
	}
	if readerStd[n] {
		return fmt.Sprintf("%s(%s)@%d", name, strings.Join(as, ","), t.callOrd[ci])
	}
	if f := callee(ci); f != nil && t.w.InRepo(f) && t.purity(f) == purReadOnly {
		return fmt.Sprintf("%s(%s)@%d", name, strings.Join(as, ","), t.callOrd[ci])
	}
	return fmt.Sprintf("%s@%d", name, t.callOrd[ci])
}

// Term returns the term of v.
func (t *Terms) Term(v ssa.Value) string {
	if s, ok := t.val[v]; ok {
		return s
	}
	s := t.compute(v)
	t.val[v] = s
	return s
}

func (t *Terms) compute(v ssa.Value) string {
	switch x := v.(type) {
	case *ssa.Const:
		if x.Value == nil {
			if isStructType(x.Type()) {
				return "zero"
			}
			return "nil"
		}
		if s, ok := constStr(x.Value); ok {
			return strconv.Quote(s)
		}
		return x.Value.ExactString()
	case *ssa.Parameter:
		return "$" + strconv.Itoa(paramIndex(t.fn, x))
	case *ssa.FreeVar:
		for i, fv := range t.fn.FreeVars {
			if fv == x {
				return "^" + strconv.Itoa(i)
			}
		}
		return "^" + x.Name()
	case *ssa.Global:
		return "&@" + x.Pkg.Pkg.Name() + "." + x.Name()
	case *ssa.Function:
		return "func:" + t.w.FuncKey(x)
	case *ssa.Builtin:
		return "builtin:" + x.Name()
	case *ssa.Alloc:
		n := t.allocName(x)
		t.fresh[n] = true
		return n
	case *ssa.FieldAddr:
		c, _ := t.cellOf(x)
		return "&" + c
	case *ssa.Field:
		return t.proj(t.Term(x.X), fieldName(x.X.Type(), x.Field))
	case *ssa.IndexAddr:
		c, _ := t.cellOf(x)
		return "&" + c
	case *ssa.Index:
		return t.Term(x.X) + "[" + t.Term(x.Index) + "]"
	case *ssa.Lookup:
		return t.Term(x.X) + "[" + t.Term(x.Index) + "]"
	case *ssa.Slice:
		lo, hi := "", ""
		if x.Low != nil {
			lo = t.Term(x.Low)
		}
		if x.High != nil {
			hi = t.Term(x.High)
		}
		base := t.Term(x.X)
		// x[0:i] is x[:i], x[i:len(x)] is x[i:] (one spelling per slice)
		if lo == "0" {
			lo = ""
		}
		if hi == "builtin:len("+base+")" {
			hi = ""
		}
		if lo == "" && hi == "" {
			if _, isPtr := x.X.Type().Underlying().(*types.Pointer); !isPtr {
				return base // s[:] of a slice is the same slice
			}
		}
		return base + "[" + lo + ":" + hi + "]"
	case *ssa.MakeInterface:
		return t.Term(x.X)
	case *ssa.ChangeInterface:
		return t.Term(x.X)
	case *ssa.ChangeType:
		return t.Term(x.X)
	case *ssa.Convert:
		if b, ok := x.Type().Underlying().(*types.Basic); ok && b.Info()&types.IsString != 0 {
			if xb, ok := x.X.Type().Underlying().(*types.Basic); ok && xb.Info()&types.IsString != 0 {
				return t.Term(x.X)
			}
		}
		return "conv<" + shortType(x.Type()) + ">(" + t.Term(x.X) + ")"
	case *ssa.TypeAssert:
		return "assert<" + shortType(x.AssertedType) + ">(" + t.Term(x.X) + ")"
	case *ssa.Extract:
		return t.Term(x.Tuple) + "#" + strconv.Itoa(x.Index)
	case *ssa.MakeSlice:
		return t.newOpaque("makeslice")
	case *ssa.MakeMap:
		return t.newOpaque("makemap")
	case *ssa.MakeClosure:
		return "closure:" + t.w.FuncKey(x.Fn.(*ssa.Function))
	case *ssa.Range:
		return t.newOpaque("range")
	case *ssa.Next:
		return t.newOpaque("next")
	case *ssa.Phi:
		return t.phiTerm(x)
	case *ssa.BinOp:
		a, b := t.Term(x.X), t.Term(x.Y)
		switch x.Op {
		case token.ADD:
			if k, ok := intConst(x.Y); ok && k >= 0 {
				if m := addK.FindStringSubmatch(a); m != nil {
					p, _ := strconv.ParseInt(m[2], 10, 64)
					return fmt.Sprintf("%s+%d", m[1], p+k)
				}
				return fmt.Sprintf("%s+%d", a, k)
			}
			if bt, ok := x.Type().Underlying().(*types.Basic); ok && bt.Info()&types.IsString != 0 {
				return "(" + a + " ++ " + b + ")"
			}
			if a > b {
				a, b = b, a
			}
		case token.SUB:
			if k, ok := intConst(x.Y); ok && k >= 0 {
				return fmt.Sprintf("%s-%d", a, k)
			}
		case token.EQL, token.NEQ, token.MUL, token.AND, token.OR:
			if _, isC := x.X.(*ssa.Const); isC {
				a, b = b, a
			} else if _, isC := x.Y.(*ssa.Const); !isC && a > b {
				a, b = b, a
			}
		case token.GTR:
			return "(" + b + " < " + a + ")"
		case token.GEQ:
			return "(" + b + " <= " + a + ")"
		}
		return "(" + a + " " + x.Op.String() + " " + b + ")"
	case *ssa.UnOp:
		if x.Op == token.MUL {
			return t.newOpaque("load")
		}
		return x.Op.String() + t.Term(x.X)
	case *ssa.Call:
		return t.callTerm(x)
	}
	return t.newOpaque(fmt.Sprintf("%T", v))
}

func (t *Terms) phiTerm(p *ssa.Phi) string {
	first := ""
	same := true
	for i, e := range p.Edges {
		pred := p.Block().Preds[i]
		if p.Block().Dominates(pred) {
			same = false // back edge
			break
		}
		s, ok := t.val[e]
		if !ok {
			switch e.(type) {
			case *ssa.Const, *ssa.Parameter, *ssa.Global, *ssa.Function:
				s = t.Term(e)
			default:
				same = false
			}
			if !same {
				break
			}
		}
		if i == 0 {
			first = s
		} else if s != first {
			same = false
		}
	}
	if same && first != "" {
		return first
	}
	return fmt.Sprintf("phi(b%d:%s)#%d", p.Block().Index, p.Comment, idxInBlock(p))
}

// MemBefore returns the memory state just before instruction `in`.
func (t *Terms) MemBefore(in ssa.Instruction) *memState {
	b := in.Block()
	m0 := t.memIn[b]
	if m0 == nil {
		return newMem()
	}
	m := m0.clone()
	saveVal := t.val
	t.val = map[ssa.Value]string{}
	for k, v := range saveVal {
		t.val[k] = v
	}
	saveOp := t.opaque
	saveLD := t.loadDef
	t.loadDef = map[*ssa.UnOp]ssa.Instruction{}
	for _, x := range b.Instrs {
		if x == in {
			break
		}
		switch y := x.(type) {
		case *ssa.Store, *ssa.MapUpdate, ssa.CallInstruction:
			_ = y
			// keep recorded value terms stable: re-step only memory effects
			vv, isVal := x.(ssa.Value)
			var keep string
			if isVal {
				keep = saveVal[vv]
			}
			t.step(x, m)
			if isVal && keep != "" {
				t.val[vv] = keep
			}
		}
	}
	t.val = saveVal
	t.opaque = saveOp
	t.loadDef = saveLD
	return m
}

// FieldAt returns the term of field f of the object denoted by pointer term base, just
// before `at`.
func (t *Terms) FieldAt(at ssa.Instruction, base, field string) string {
	m := t.MemBefore(at)
	return t.lookup(base+"."+field, m)
}

// FieldDefAt returns the store that defines field f of base just before `at` (nil if unknown).
func (t *Terms) FieldDefAt(at ssa.Instruction, base, field string) ssa.Instruction {
	m := t.MemBefore(at)
	if e, ok := m.cells[base+"."+field]; ok {
		return e.def
	}
	return nil
}

// Canon is the identity: parameters are already named by index ($0, $1, ...).
func (t *Terms) Canon(term string) string { return term }

// eqTerm builds the term of `a == b` with the operand order used by compute.
func eqTerm(a, b string) string {
	if a > b {
		a, b = b, a
	}
	return "(" + a + " == " + b + ")"
}

// subOne: the term one less than x = base+k (k >= 1).
func subOne(x string) string {
	if m := addK.FindStringSubmatch(x); m != nil {
		p, _ := strconv.ParseInt(m[2], 10, 64)
		if p > 1 {
			return fmt.Sprintf("%s+%d", m[1], p-1)
		}
		return m[1]
	}
	return x + "-1"
}

// addOne returns the term of x+1 in the normal form used by compute.
func addOne(x string) string {
	if m := addK.FindStringSubmatch(x); m != nil {
		p, _ := strconv.ParseInt(m[2], 10, 64)
		return fmt.Sprintf("%s+%d", m[1], p+1)
	}
	return x + "+1"
}

// Value helpers. A call of a small repo function that has no side effects, a single block
// and one result (`func (p *Parser) curInt() int { n, _ := strconv.ParseInt(p.cur.Literal, 0, 64); return int(n) }`)
// denotes the helper's own result term with its parameters replaced by the arguments, field
// paths below a parameter being read in the caller's memory at the call. An expression and
// the same expression moved into a named helper thus have the same term.
var tagRe = regexp.MustCompile(`![A-Za-z]`)

var valueTmplCache = map[*ssa.Function]*string{}

func (t *Terms) valueTemplate(f *ssa.Function) (string, bool) {
	if p, ok := valueTmplCache[f]; ok {
		if p == nil {
			return "", false
		}
		return *p, true
	}
	valueTmplCache[f] = nil
	if len(f.Blocks) != 1 || isOpaquePred(f) || f.Signature.Results().Len() != 1 {
		return "", false
	}
	if t.purity(f) < purReadOnly {
		return "", false
	}
	ins := f.Blocks[0].Instrs
	ret, ok := ins[len(ins)-1].(*ssa.Return)
	if !ok || len(ret.Results) != 1 {
		return "", false
	}
	for _, in := range ins {
		switch in.(type) {
		case *ssa.Defer, *ssa.Go, *ssa.MakeClosure, *ssa.Alloc, *ssa.Store:
			return "", false
		}
	}
	tf := t.w.TermsOf(f, t.eff)
	rt := tf.Term(ret.Results[0])
	bare := quotedRe.ReplaceAllString(rt, `""`)
	if strings.Contains(bare, "@") || tagRe.MatchString(bare) || strings.Contains(bare, "phi(") || strings.Contains(bare, "mu(") || strings.Contains(bare, "new#") || !strings.Contains(bare, "$") {
		return "", false
	}
	valueTmplCache[f] = &rt
	return rt, true
}

func (t *Terms) inlineValue(x ssa.CallInstruction, f *ssa.Function, m *memState) (string, bool) {
	if x.Common().IsInvoke() {
		return "", false
	}
	tmpl, ok := t.valueTemplate(f)
	if !ok {
		return "", false
	}
	args := x.Common().Args
	good := true
	out := paramPathRe.ReplaceAllStringFunc(tmpl, func(mm string) string {
		sm := paramPathRe.FindStringSubmatch(mm)
		k, _ := strconv.Atoi(sm[1])
		if k >= len(args) {
			good = false
			return mm
		}
		term := t.Term(args[k])
		if sm[2] != "" {
			for _, fld := range strings.Split(sm[2][1:], ".") {
				term = t.lookup(term+"."+fld, m)
			}
		}
		return term
	})
	return out, good
}
