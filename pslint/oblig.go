package main

// Obligations, rule registry, evidence and known-findings plumbing (DESIGN §2.2, §2.3).

import (
	"encoding/json"
	"fmt"
	"os"
	"path/filepath"
	"runtime/debug"
	"sort"
	"strings"
)

const (
	stOK  = "discharged"
	stBad = "violated"
	stUnk = "undecided"
)

// Oblig is one proof obligation: one rule applied to one construct.
type Oblig struct {
	Rule   string `json:"rule"`
	Key    string `json:"construct"` // position-free key of the construct
	Pos    string `json:"pos"`
	Status string `json:"status"`
	Detail string `json:"detail"`
}

// Rule is one structural rule; a property is decided by a list of rules.
type Rule struct {
	ID    string
	Doc   string
	Floor int // minimum number of obligations the rule must produce (vacuity guard)
	Run   func(c *Ctx)
}

// Ctx is what a rule sees while it runs.
type Ctx struct {
	W       *World
	Tier    string
	rule    *Rule
	obs     []Oblig
	notes   []string
	seenKey map[string]int
}

func (c *Ctx) add(key, pos, status, detail string) {
	full := c.rule.ID + "|" + key
	if n := c.seenKey[full]; n > 0 {
		key = fmt.Sprintf("%s#%d", key, n+1)
	}
	c.seenKey[full]++
	c.obs = append(c.obs, Oblig{Rule: c.rule.ID, Key: key, Pos: pos, Status: status, Detail: detail})
}

// OK records a discharged obligation.
func (c *Ctx) OK(key, pos, how string) { c.add(key, pos, stOK, how) }

// Bad records a violated obligation.
func (c *Ctx) Bad(key, pos, why string) { c.add(key, pos, stBad, why) }

// Unk records an obligation the rule could not decide (counts as failure).
func (c *Ctx) Unk(key, pos, why string) { c.add(key, pos, stUnk, why) }

// Check is OK when cond holds, Bad otherwise.
func (c *Ctx) Check(cond bool, key, pos, how, why string) bool {
	if cond {
		c.OK(key, pos, how)
	} else {
		c.Bad(key, pos, why)
	}
	return cond
}

// Note adds a free-text remark to the evidence.
func (c *Ctx) Note(format string, a ...interface{}) {
	c.notes = append(c.notes, c.rule.ID+": "+fmt.Sprintf(format, a...))
}

// Need resolves an anchor; a nil anchor is reported as undecided and false is returned.
func (c *Ctx) Need(name string, v interface{}) bool {
	isNil := v == nil
	if !isNil {
		switch x := v.(type) {
		case interface{ IsNilAnchor() bool }:
			isNil = x.IsNilAnchor()
		}
	}
	if isNil || fmt.Sprintf("%v", v) == "<nil>" {
		c.Unk("anchor:"+name, "-", "anchored symbol "+name+" not found (renamed or removed); the rule cannot be evaluated")
		return false
	}
	return true
}

var registry = map[string]*Rule{}
var propRules = map[string][]string{}
var propExplain = map[string]string{}
var propAssume = map[string][]string{}

func register(r *Rule) {
	if _, dup := registry[r.ID]; dup {
		panic("duplicate rule " + r.ID)
	}
	registry[r.ID] = r
}

// property declares which rules decide a property.
func property(id, explanation string, assumptions []string, rules ...string) {
	propRules[id] = rules
	propExplain[id] = explanation
	propAssume[id] = assumptions
}

// KnownFindings is /verif/known_findings.json (committed; never written at run time).
type KnownFindings struct {
	Findings []struct {
		Property string `json:"property"`
		Rule     string `json:"rule"`
		Key      string `json:"construct"`
		What     string `json:"what"`
	} `json:"findings"`
	Fixed []string `json:"fixed"`
}

func loadKnown(path string) (*KnownFindings, error) {
	k := &KnownFindings{}
	b, err := os.ReadFile(path)
	if err != nil {
		if os.IsNotExist(err) {
			return k, nil
		}
		return nil, err
	}
	if err := json.Unmarshal(b, k); err != nil {
		return nil, err
	}
	return k, nil
}

type runResult struct {
	obs       []Oblig
	notes     []string
	perRule   map[string][2]int // rule -> [obligations, discharged]
	floorFail []string
}

// runProperty evaluates all rules of a property.
func runProperty(w *World, prop, tier string, onlyRule, onlyKey string) *runResult {
	res := &runResult{perRule: map[string][2]int{}}
	for _, rid := range propRules[prop] {
		r := registry[rid]
		if r == nil {
			res.obs = append(res.obs, Oblig{Rule: rid, Key: "rule", Pos: "-", Status: stUnk, Detail: "rule not implemented"})
			continue
		}
		if onlyRule != "" && onlyRule != rid {
			continue
		}
		c := &Ctx{W: w, Tier: tier, rule: r, seenKey: map[string]int{}}
		func() {
			defer func() {
				if e := recover(); e != nil {
					c.Unk("panic", "-", fmt.Sprintf("analyser panic: %v\n%s", e, trimStack(string(debug.Stack()))))
				}
			}()
			r.Run(c)
		}()
		// the floor guards against a rule that silently matches nothing any more; merging
		// duplicated code legitimately lowers the count, so the alarm is raised below two
		// thirds of what was confirmed by hand
		if len(c.obs) < (r.Floor*2+2)/3 {
			c.Unk("floor", "-", fmt.Sprintf("rule matched %d constructs, far fewer than the %d confirmed by hand; the rule may be passing vacuously", len(c.obs), r.Floor))
		}
		n, d := 0, 0
		for _, o := range c.obs {
			if onlyKey != "" && o.Key != onlyKey {
				continue
			}
			n++
			if o.Status == stOK {
				d++
			}
			res.obs = append(res.obs, o)
		}
		res.perRule[rid] = [2]int{n, d}
		res.notes = append(res.notes, c.notes...)
	}
	return res
}

func trimStack(s string) string {
	lines := strings.Split(s, "\n")
	var keep []string
	for _, l := range lines {
		if strings.Contains(l, "verif/pslint") || strings.Contains(l, "/pslint/") {
			keep = append(keep, strings.TrimSpace(l))
		}
		if len(keep) > 12 {
			break
		}
	}
	return strings.Join(keep, "\n")
}

// report prints VIOLATION / KNOWN-FINDING lines, writes evidence, returns exit code.
func report(w *World, verifDir, prop, tier string, seed int, res *runResult, wall float64, extra map[string]interface{}) int {
	known, err := loadKnown(filepath.Join(verifDir, "known_findings.json"))
	if err != nil {
		fmt.Fprintf(os.Stderr, "cannot read known_findings.json: %v\n", err)
		return 1
	}
	vdir := filepath.Join(verifDir, "evidence", "violations")
	os.MkdirAll(vdir, 0o755)
	// remove stale replay files of this property
	if ents, err := os.ReadDir(vdir); err == nil {
		for _, e := range ents {
			if strings.HasPrefix(e.Name(), prop+"-") {
				os.Remove(filepath.Join(vdir, e.Name()))
			}
		}
	}
	nviol := 0
	nknown := 0
	total, discharged := 0, 0
	distinct := map[string]bool{}
	var samples []Oblig
	perRuleSample := map[string]int{}
	for _, o := range res.obs {
		total++
		distinct[o.Rule+"|"+o.Key] = true
		if o.Status == stOK {
			discharged++
			if perRuleSample[o.Rule] < 2 {
				perRuleSample[o.Rule]++
				samples = append(samples, o)
			}
			continue
		}
		matched := false
		for _, k := range known.Findings {
			if k.Property == prop && k.Rule == o.Rule && k.Key == o.Key {
				fmt.Printf("KNOWN-FINDING: property=%s %s [%s %s at %s]\n", prop, k.What, o.Rule, o.Key, o.Pos)
				matched = true
				nknown++
				break
			}
		}
		if matched {
			continue
		}
		nviol++
		path := filepath.Join(vdir, fmt.Sprintf("%s-%d.json", prop, nviol))
		b, _ := json.MarshalIndent(map[string]interface{}{"property": prop, "obligation": o, "root": w.Root}, "", " ")
		os.WriteFile(path, b, 0o644)
		fmt.Printf("VIOLATION property=%s replay=%s\n", prop, path)
		fmt.Printf("  rule %s [%s] at %s: %s: %s\n", o.Rule, o.Status, o.Pos, o.Key, o.Detail)
	}
	ruleCounts := map[string]interface{}{}
	var rids []string
	for rid := range res.perRule {
		rids = append(rids, rid)
	}
	sort.Strings(rids)
	for _, rid := range rids {
		v := res.perRule[rid]
		doc := ""
		if r := registry[rid]; r != nil {
			doc = r.Doc
		}
		ruleCounts[rid] = map[string]interface{}{"obligations": v[0], "discharged": v[1], "rule": doc}
	}
	cov := map[string]interface{}{
		"explanation":         propExplain[prop],
		"obligations":         total,
		"discharged":          discharged,
		"evaluations":         total,
		"distinct_nontrivial": len(distinct),
		"rule":                "one obligation per (rule, construct) instance enumerated from the resolved program (SSA / typed AST of every package under the analysed root); distinct = distinct (rule, construct key) pairs; every obligation is non-trivial in that it names a concrete construct of the source",
		"samples":             samples,
		"per_rule":            ruleCounts,
		"checker_cmd":         fmt.Sprintf("bin/pslint -prop %s -tier %s", prop, tier),
		"trusted_base":        []string{"go/types, go/ssa, go/packages (golang.org/x/tools v0.29.0)", "the oracles written from README.md inside the rules", "DESIGN.md scheme arguments (paper, not machine-checked)"},
		"functions_analysed":  len(w.Funcs),
		"packages_analysed":   len(w.Pkgs),
		"root":                w.Root,
		"known_findings":      nknown,
		"exhaustive":          false,
	}
	if len(res.notes) > 0 {
		cov["notes"] = res.notes
	}
	for k, v := range extra {
		cov[k] = v
	}
	ev := map[string]interface{}{
		"property_id": prop,
		"tier":        tier,
		"seed":        seed,
		"level":       "other",
		"coverage":    cov,
		"assumptions": propAssume[prop],
		"wall_s":      wall,
		"violations":  nviol,
	}
	b, _ := json.MarshalIndent(ev, "", " ")
	os.MkdirAll(filepath.Join(verifDir, "evidence"), 0o755)
	if err := os.WriteFile(filepath.Join(verifDir, "evidence", prop+".json"), append(b, '\n'), 0o644); err != nil {
		fmt.Fprintf(os.Stderr, "cannot write evidence: %v\n", err)
		return 1
	}
	fmt.Printf("pslint %s tier=%s: %d obligations, %d discharged, %d violations, %d known findings, %d rules, %.1fs\n", prop, tier, total, discharged, nviol, nknown, len(res.perRule), wall)
	if nviol > 0 {
		return 1
	}
	return 0
}
