package main

import (
	"fmt"
	"go/types"
	"golang.org/x/tools/go/ssa"
	"strings"
)

func init() {
	register(&Rule{ID: "C14.e", Doc: "integer tokens are decoded the way the lexer spells them: every strconv parse of a token literal uses base 0 (decimal, 0x.., 0.. forms) and 64 bits", Floor: 4, Run: c14e})
}

// c14e: the lexer's INT token covers decimal and 0x literals (C19.f: the literal is the source
// text). A multiplier or format() parameter decoded with base 10 rejects '0x10' and reads '010'
// as ten; decoded with fewer bits it wraps. Every call of strconv.ParseInt / ParseUint / Atoi in
// the library packages must be ParseInt(<token>.Literal, 0, 64).
func c14e(c *Ctx) {
	n := 0
	for _, fn := range libraryFuncs(c) {
		if c.W.PkgShort(fn) == "" {
			continue
		}
		fk := c.W.FuncKey(fn)
		for _, ci := range callsIn(fn) {
			nm := calleeName(ci)
			if !strings.HasPrefix(nm, "strconv.Parse") && nm != "strconv.Atoi" {
				continue
			}
			if nm == "strconv.ParseBool" || nm == "strconv.ParseFloat" {
				continue
			}
			n++
			key := fmt.Sprintf("%s/%s@%d", fk, strings.TrimPrefix(nm, "strconv."), c.T(fn).callOrd[ci])
			pos := c.W.Pos(ci.Pos())
			a := ci.Common().Args
			if nm != "strconv.ParseInt" || len(a) != 3 {
				c.Bad(key, pos, "an integer literal is decoded with "+nm+", which does not accept the 0x form the lexer produces; expected strconv.ParseInt(literal, 0, 64)")
				continue
			}
			base, okB := intConst(a[1])
			bits, okS := intConst(a[2])
			lit := c.term(fn, a[0])
			// (a small helper that is handed the literal: judged by what its callers hand in)
			if par, isPar := a[0].(*ssa.Parameter); isPar {
				idx := paramIndex(fn, par)
				all := idx >= 0
				cnt := 0
				for _, cs := range c.W.callsTo(fn) {
					if isTestFunc(c.W, cs.Parent()) || idx >= len(cs.Common().Args) {
						continue
					}
					cnt++
					if !strings.HasSuffix(c.term(cs.Parent(), cs.Common().Args[idx]), ".Literal") {
						all = false
					}
				}
				if all && cnt > 0 {
					lit = "<callers>.Literal"
				}
			}
			// what was decoded is used as it is: converted to int at most (a narrower integer type
			// on the way wraps large values silently)
			if call, isCall := ci.(*ssa.Call); isCall && call.Referrers() != nil {
				var follow func(v ssa.Value, depth int)
				follow = func(v ssa.Value, depth int) {
					if v.Referrers() == nil || depth > 4 {
						return
					}
					for _, r := range *v.Referrers() {
						switch y := r.(type) {
						case *ssa.Extract:
							if y.Index == 0 {
								follow(y, depth+1)
							}
						case *ssa.Convert:
							if b, ok := y.Type().Underlying().(*types.Basic); ok && b.Info()&types.IsInteger != 0 {
								if b.Kind() != types.Int && b.Kind() != types.Int64 {
									c.Bad(key+"/narrowed", c.W.Pos(y.Pos()), "the decoded number is converted to "+b.Name()+" before it is used: values beyond that type's range wrap instead of being rejected")
								}
								follow(y, depth+1)
							}
						case *ssa.Phi:
							follow(y, depth+1)
						}
					}
				}
				follow(call, 0)
			}
			c.Check(okB && base == 0 && okS && bits == 64 && strings.HasSuffix(lit, ".Literal"), key, pos, "ParseInt(<token>.Literal, 0, 64)", fmt.Sprintf("an integer literal is decoded with ParseInt(%s, %d, %d): with a base other than 0 the 0x form is rejected and a leading 0 changes meaning; with fewer than 64 bits large values wrap instead of being rejected", pretty(lit), base, bits))
		}
	}
	c.Check(n >= 1, "integer-decoding/scanned", "-", fmt.Sprintf("%d integer decodings examined", n), "no integer decoding found in the library packages")
}
