package main

// C07 — format(): structural clauses (conservation, break discipline shape, parameter binding).

import (
	"go/constant"
	"fmt"
	"go/token"
	"go/types"
	"sort"
	"strings"

	"golang.org/x/tools/go/ssa"
)

func init() {
	property("C07",
		"Static conformance of the structural part of format(): (a) conservation — in the main loop of FormatText every non-break word is written to the current line exactly once on every path, every reset of the current line is preceded by flushing it to the output, a break word flushes the line, writes one break code and one newline, the final line is flushed after the loop, and nothing but the word, a single space, the line content, the break codes and the newline byte is ever written; (b) break discipline shape — the automatic break (\\N) and the wrap choose between \\n and \\l by the same predicate over (current line number, numLines), the line number is incremented on every line end and reset by a paragraph break; (c) parameter binding — each named format() parameter reaches the FormatText parameter of the same meaning, font-config fallbacks read the field of the same name under the font id that is passed to FormatText; (d, e) the formatter writes no state and glyph widths are read from the font table by presence; (f) the break-code predicates the other clauses are stated with mean what their names say (isLineBreak = {\\n, \\l, \\p, \\N}, …), every word is scanned in the text whose line breaks were turned into spaces, and the -f / -fc / -l options reach the parser fields of their meaning. NOT decided (runtime arithmetic): that every line fits maxLineLength, that a word moves only when it does not fit, cursor-overlap accounting, and getNextWord's tokenisation. The word-to-table chain measures runes with the asked-for font and looks codes up under their own spelling (C07.e); fallbacks are taken exactly for non-positive values and the command-line font precedes the config default (C07.c); position, separator space, first-word flag (C07.a) and the escape flag (C07.d) follow their protocols; the font table is read-only (C17.g); config keys and struct tags agree (C11.d); integers are decoded with base 0 (C14.e).",
		[]string{"pixel-width arithmetic and getNextWord tokenisation are not decided (DESIGN §6)", "go/ssa lowering is faithful to the source"},
		"C07.a", "C07.b", "C07.c", "C07.d", "C07.e", "C07.f", "C06.b", "C09.b", "C17.f", "C19.c", "C17.g", "C14.e", "C11.d", "C19.b", "C18.m", "C18.n", "C18.d", "C05.a")

	register(&Rule{ID: "C07.d", Doc: "formatting is a function of (text, font table, parameters): the formatter writes no state; depth counters of the word scanner cannot go negative", Floor: 4, Run: c07d})
	register(&Rule{ID: "C07.e", Doc: "a width is what the font table says for the glyph when it lists it (also when that is 0), else the font's default, else the fallback: presence decided by the comma-ok bit; cursor room reserved exactly on lines that show the prompt", Floor: 5, Run: c07e})
	register(&Rule{ID: "C07.f", Doc: "break-code vocabulary: the predicates the layout rules are stated with mean what their names say", Floor: 4, Run: c07f})
	register(&Rule{ID: "C07.a", Doc: "FormatText conservation: words written once, flush before reset, final flush, who-writes-what", Floor: 19, Run: c07a})
	register(&Rule{ID: "C07.b", Doc: "break choice predicate agrees at both sites; line counter discipline", Floor: 4, Run: c07b})
	register(&Rule{ID: "C07.c", Doc: "format() parameter binding and font-config fallbacks", Floor: 8, Run: c07c})
}

type builderCall struct {
	call   ssa.CallInstruction
	method string
	sb     ssa.Value
	arg    ssa.Value
}

func builderCalls(fn *ssa.Function) []builderCall {
	var out []builderCall
	for _, ci := range callsIn(fn) {
		n := calleeName(ci)
		if !strings.HasPrefix(n, "(*strings.Builder).") {
			continue
		}
		bc := builderCall{call: ci, method: strings.TrimPrefix(n, "(*strings.Builder)."), sb: ci.Common().Args[0]}
		if len(ci.Common().Args) > 1 {
			bc.arg = ci.Common().Args[1]
		}
		out = append(out, bc)
	}
	return out
}

func c07a(c *Ctx) {
	fn := c.Fn("parser.FontConfig.FormatText")
	if fn == nil {
		return
	}
	bcs := builderCalls(fn)
	// roles
	var lineSb, outSb ssa.Value
	for _, b := range bcs {
		if b.method == "Reset" {
			lineSb = b.sb
		}
	}
	for _, r := range returnsOf(fn) {
		if isSuccessReturn(r) {
			if call, ok := r.Results[0].(*ssa.Call); ok && calleeName(call) == "(*strings.Builder).String" {
				outSb = call.Call.Args[0]
			}
		}
	}
	if lineSb == nil || outSb == nil || lineSb == outSb {
		c.Bad("builders", c.W.FuncPos(fn), "cannot identify the current-line builder (the one that is Reset) and the output builder (the one returned)")
		return
	}
	// the loop and the word
	var wordPhi *ssa.Phi
	instrs(fn, func(in ssa.Instruction) {
		if p, ok := in.(*ssa.Phi); ok && isLoopHeader(p.Block()) {
			if ifi, ok := p.Block().Instrs[len(p.Block().Instrs)-1].(*ssa.If); ok && c.term(fn, ifi.Cond) == "(0 < builtin:len("+c.term(fn, p)+"))" {
				wordPhi = p
			}
		}
	})
	if wordPhi == nil {
		c.Bad("loop", c.W.FuncPos(fn), "cannot find the word loop (for len(word) > 0)")
		return
	}
	head := wordPhi.Block()
	word := c.term(fn, wordPhi)
	// Nothing comes back before the loop unless there was nothing to format: a successful return
	// that the word loop does not lead to stands under "the first word is empty" (a test for a
	// one-letter first word, or for anything else, would hand back an empty text for a text that has words)
	for k, r := range returnsOf(fn) {
		if !isSuccessReturn(r) || head.Dominates(r.Block()) {
			continue
		}
		empty := false
		for _, l := range c.mustLits(fn, r.Block()) {
			l = verRe.ReplaceAllString(l, "")
			if guardClass(l) == "EMPTY" && strings.Contains(l, "getNextWord") {
				empty = true
			}
		}
		c.Check(empty, fmt.Sprintf("early-return#%d/only-without-words", k), c.W.Pos(r.Pos()), "FormatText returns before its loop only when the text has no word", "FormatText returns before the word loop although the first word is not known to be empty: a text that has words comes back empty")
	}
	isBreakLit := "(*parser.FontConfig).isLineBreak($0," + word + ")"
	isLineWrite := func(in ssa.Instruction) bool {
		for _, b := range bcs {
			if b.call == in && b.sb == lineSb && b.method == "WriteString" && b.arg == ssa.Value(wordPhi) {
				return true
			}
		}
		return false
	}
	// what is measured is what is written: every width asked for inside the loop is the width of
	// the loop's word in the font FormatText was asked for (not of a trimmed or otherwise reworked
	// copy, not in another font)
	{
		var fontPar *ssa.Parameter
		for _, p := range fn.Params {
			if p.Name() == "fontID" {
				fontPar = p
			}
		}
		if fontPar == nil {
			// by position: the last string parameter
			for _, p := range fn.Params {
				if b, ok := p.Type().Underlying().(*types.Basic); ok && b.Kind() == types.String {
					fontPar = p
				}
			}
		}
		nMeas := 0
		for _, ci := range callsIn(fn) {
			g := callee(ci)
			if g == nil || !c.W.InRepo(g) || g.Signature.Recv() == nil || g.Signature.Results().Len() != 1 {
				continue
			}
			if b, ok := g.Signature.Results().At(0).Type().Underlying().(*types.Basic); !ok || b.Kind() != types.Int {
				continue
			}
			args := ci.Common().Args
			if len(args) != 3 {
				continue // (receiver, what, font)
			}
			nMeas++
			key := fmt.Sprintf("measured/%s@%d", g.Name(), c.T(fn).callOrd[ci])
			okFont := fontPar != nil && args[2] == ssa.Value(fontPar)
			okWhat := true
			if _, isStr := args[1].Type().Underlying().(*types.Basic); isStr && loopBody(head)[ci.Block()] {
				if b := args[1].Type().Underlying().(*types.Basic); b.Kind() == types.String {
					okWhat = args[1] == ssa.Value(wordPhi)
				}
			}
			c.Check(okFont && okWhat, key, c.W.Pos(ci.Pos()), g.Name()+" measures the loop's word in the font that was asked for", g.Name()+" is asked for the width of "+pretty(c.term(fn, args[1]))+" in font "+pretty(c.term(fn, args[2]))+": expected the very word that is written, in the fontID FormatText was given — otherwise the line that is built is wider or narrower than the one that was measured")
		}
		c.Check(nMeas >= 2, "measured/sites", c.W.FuncPos(fn), fmt.Sprintf("%d width requests in FormatText", nMeas), fmt.Sprintf("only %d width requests found in FormatText", nMeas))
	}
	// progress: every way round the loop hands the next word to the loop variable — the word the
	// scanner returned in this very turn (a `continue` that skips `word = nextWord` asks about the
	// same word for ever)
	{
		okProg := true
		got := ""
		for i, e := range wordPhi.Edges {
			if !head.Dominates(head.Preds[i]) {
				continue
			}
			ex, isEx := e.(*ssa.Extract)
			call, isCall := (ssa.Value)(nil), false
			if isEx {
				call, isCall = ex.Tuple, true
			}
			if !isEx || !isCall || ex.Index != 1 || !strings.HasSuffix(calleeName(call.(*ssa.Call)), ".getNextWord") || !loopBody(head)[call.(*ssa.Call).Block()] {
				okProg = false
				got = c.term(fn, e)
			}
		}
		c.Check(okProg, "loop/next-word-every-turn", c.W.Pos(wordPhi.Pos()), "every turn of the word loop goes on with the word getNextWord returned in that turn", "a turn of the word loop can come round with "+pretty(got)+" as the word instead of the next word the scanner returned: FormatText would look at the same word for ever (the compiler hangs)")
	}
	headFirst := head.Instrs[0]
	toHead := func(in ssa.Instruction) bool { return in == headFirst }
	// entry blocks of the two arms
	var wordArm, breakArm *ssa.BasicBlock
	for _, b := range fn.Blocks {
		if len(b.Preds) != 1 {
			continue
		}
		lit := c.PC(fn).edgeLit(b.Preds[0], b)
		if lit == "-"+isBreakLit {
			wordArm = b
		}
		if lit == "+"+isBreakLit {
			breakArm = b
		}
	}
	if wordArm == nil || breakArm == nil {
		c.Bad("arms", c.W.FuncPos(fn), "cannot find the two arms of the isLineBreak(word) test")
		return
	}
	// (1) word written exactly once
	_, lost := existsPath(pathQuery{from: point{wordArm, 0}, target: toHead, avoid: isLineWrite})
	c.Check(!lost, "word/written-on-every-path", c.W.Pos(wordPhi.Pos()), "a non-break word reaches the current line on every path of the iteration", "an iteration can finish without writing the word to the current line (the word would be lost)")
	twice := false
	for _, b := range bcs {
		if isLineWrite(b.call) {
			_, again := existsPath(pathQuery{from: after(b.call), target: isLineWrite, stopAt: toHead})
			if again {
				twice = true
			}
		}
	}
	c.Check(!twice, "word/written-once", c.W.Pos(wordPhi.Pos()), "the word is written at most once per iteration", "the word can be written to the current line twice in one iteration")
	// break words are not written to the line
	_, brk := existsPath(pathQuery{from: point{breakArm, 0}, target: isLineWrite, stopAt: toHead})
	c.Check(!brk, "break/not-in-line", c.W.Pos(wordPhi.Pos()), "a break code is not written into the line text", "a break word can be written into the current line")
	// (2) every Reset is preceded by a flush of the line with no line write in between
	isFlush := func(in ssa.Instruction) bool {
		for _, b := range bcs {
			if b.call == in && b.sb == outSb && b.method == "WriteString" {
				if call, ok := b.arg.(*ssa.Call); ok && calleeName(call) == "(*strings.Builder).String" && call.Call.Args[0] == lineSb {
					return true
				}
			}
		}
		return false
	}
	isLineAny := func(in ssa.Instruction) bool {
		for _, b := range bcs {
			if b.call == in && b.sb == lineSb && strings.HasPrefix(b.method, "Write") {
				return true
			}
		}
		return false
	}
	nReset := 0
	for _, b := range bcs {
		if b.method != "Reset" {
			continue
		}
		nReset++
		// backwards: is there a path from the loop head to the reset that avoids every flush?
		_, unflushed := existsPath(pathQuery{from: point{head, 0}, target: func(in ssa.Instruction) bool { return in == b.call }, avoid: isFlush})
		c.Check(!unflushed, fmt.Sprintf("reset#%d/flushed-first", nReset), c.W.Pos(b.call.Pos()), "the line is copied to the output before it is cleared", "the current line can be Reset without having been written to the output in this iteration (its words would be lost)")
		// no line write between flush and reset
		dirty := false
		for _, f := range bcs {
			if isFlush(f.call) && canReachAvoidingHead(f.call, b.call, headFirst) {
				_, w := existsPath(pathQuery{from: after(f.call), target: isLineAny, stopAt: func(in ssa.Instruction) bool { return in == b.call || in == headFirst }})
				if w {
					dirty = true
				}
			}
		}
		c.Check(!dirty, fmt.Sprintf("reset#%d/nothing-added-after-flush", nReset), c.W.Pos(b.call.Pos()), "nothing is added to the line between flush and clear", "the line is written to between its flush and its Reset (that text would be dropped)")
	}
	c.Check(nReset == 2, "reset/sites", c.W.FuncPos(fn), "two places end a line (explicit break, wrap)", fmt.Sprintf("found %d Reset calls, expected 2", nReset))
	// every flush inside the loop is followed by a break code, the newline byte and the reset
	for i, f := range bcs {
		if !isFlush(f.call) || !loopBody(head)[f.call.Block()] {
			continue
		}
		isNL := func(in ssa.Instruction) bool {
			for _, b := range bcs {
				if b.call == in && b.sb == outSb && b.method == "WriteByte" {
					if k, ok := intConst(b.arg); ok && k == 10 {
						return true
					}
				}
			}
			return false
		}
		isReset := func(in ssa.Instruction) bool {
			for _, b := range bcs {
				if b.call == in && b.method == "Reset" && b.sb == lineSb {
					return true
				}
			}
			return false
		}
		isCode := func(in ssa.Instruction) bool {
			for _, b := range bcs {
				if b.call == in && b.sb == outSb && b.method == "WriteString" {
					// a break code: constant \n / \l, the (break) word, or a helper that returns only those
					alts := c.stringAlts(fn, b.arg, 0)
					all := len(alts) > 0
					for _, a := range alts {
						if !(a.konst && (a.text == `\n` || a.text == `\l`)) && !(!a.konst && a.term == c.term(fn, wordPhi)) {
							all = false
						}
					}
					if all {
						return true
					}
				}
			}
			return false
		}
		_, noCode := existsPath(pathQuery{from: after(f.call), target: isNL, avoid: isCode, stopAt: toHead})
		_, noNL := existsPath(pathQuery{from: after(f.call), target: toHead, avoid: isNL})
		_, noReset := existsPath(pathQuery{from: after(f.call), target: toHead, avoid: isReset})
		c.Check(!noCode && !noNL && !noReset, fmt.Sprintf("line-end#%d/code-newline-reset", i), c.W.Pos(f.call.Pos()), "a finished line is followed by exactly a break code, the newline byte and a cleared line", "after flushing a line the iteration can continue without (break code, newline byte, Reset) in that order")
	}
	// (4) final flush and return
	okFinal := false
	for _, f := range bcs {
		if isFlush(f.call) && !loopBody(head)[f.call.Block()] {
			okFinal = true
			for _, r := range returnsOf(fn) {
				if isSuccessReturn(r) && head.Dominates(r.Block()) && !loopBody(head)[r.Block()] {
					// a path from loop exit to the return that skips the flush must be guarded by Len() == 0
					_, skip := existsPath(pathQuery{from: point{head, len(head.Instrs) - 1}, target: func(in ssa.Instruction) bool { return in == ssa.Instruction(r) }, avoid: func(in ssa.Instruction) bool { return in == f.call }, edgeOK: func(b *ssa.BasicBlock, s int) bool { return !loopBody(head)[b.Succs[s]] || b != head }})
					if skip && !hasLit(c.mustLits(fn, f.call.Block()), "+(0 < (*strings.Builder).Len("+c.term(fn, lineSb)+")@") && !containsPrefix(c.mustLits(fn, f.call.Block()), "+(0 < (*strings.Builder).Len(") {
						okFinal = false
					}
				}
			}
		}
	}
	c.Check(okFinal, "final-flush", c.W.FuncPos(fn), "the last line is flushed after the loop (when not empty)", "the last line is not written to the output after the loop")
	// (5) who writes what
	for i, b := range bcs {
		if !strings.HasPrefix(b.method, "Write") {
			continue
		}
		key := fmt.Sprintf("write#%d", i)
		pos := c.W.Pos(b.call.Pos())
		at := c.term(fn, b.arg)
		switch {
		case b.sb == lineSb:
			ok := b.arg == ssa.Value(wordPhi) || (b.method == "WriteByte" && at == "32")
			c.Check(ok, key+"/line", pos, "the line receives only the word or a single space", "the current line receives "+pretty(at)+", expected the word or a space")
			if ok && b.method == "WriteByte" {
				// the space goes in front of a word that is appended to a line that already has one:
				// exactly the condition of that word write, and "not the first word of the line"
				var wordW ssa.Instruction
				for _, b2 := range bcs {
					if b2.sb == lineSb && b2.arg == ssa.Value(wordPhi) && canReachAvoidingHead(b.call, b2.call, head.Instrs[0]) {
						wordW = b2.call
					}
				}
				okSpace, whySpace := false, "no word is written to the line after this space"
				if wordW != nil {
					pc := c.PC(fn)
					dS, dW := pc.canonOf(pc.At(b.call.Block())), pc.canonOf(pc.At(wordW.Block()))
					whySpace = "the space is written under [" + dS.String() + "] and the word after it under [" + dW.String() + "]: expected the space exactly when that word is written and it is not the first word of its line (one bare flag)"
					// ways to the word write on which the line was cleared first (the wrap arm, when
					// both arms share one word write) start a new line: no space there
					var cleared []dnf
					for _, b2 := range bcs {
						if b2.method == "Reset" && b2.sb == lineSb && canReachAvoidingHead(b2.call, wordW, head.Instrs[0]) {
							cleared = append(cleared, pc.canonOf(pc.At(b2.call.Block())))
						}
					}
					for _, cj := range dS.cs {
						for _, l := range cj {
							if strings.HasPrefix(l, "-phi(") && !strings.Contains(l, " == ") && !strings.Contains(l, " < ") && dnfEffEquiv(dnfAndLit(dW, l), cleared, dS) {
								okSpace = true
							}
						}
					}
				}
				c.Check(okSpace, key+"/space-between-words", pos, "a space is written exactly in front of a word that is not the first of its line", whySpace)
				// the flag means what its use says: it is false on the way back to the loop head exactly
				// when a word was put on the line since the line was last cleared
				var flag *ssa.Phi
				for _, in := range head.Instrs {
					if ph, isPhi := in.(*ssa.Phi); isPhi {
						for _, cj := range c.PC(fn).canonOf(c.PC(fn).At(b.call.Block())).cs {
							for _, l := range cj {
								if l == "-"+c.term(fn, ph) {
									flag = ph
								}
							}
						}
					}
				}
				if flag != nil {
					isWordW := func(x ssa.Instruction) bool {
						for _, b2 := range bcs {
							if b2.call == x && b2.sb == lineSb && b2.arg == ssa.Value(wordPhi) {
								return true
							}
						}
						return false
					}
					isResetW := func(x ssa.Instruction) bool {
						for _, b2 := range bcs {
							if b2.call == x && b2.method == "Reset" && b2.sb == lineSb {
								return true
							}
						}
						return false
					}
					body := loopBody(head)
					bad := ""
					seenPhi := map[*ssa.Phi]bool{}
					var walk func(ph *ssa.Phi, viaBack bool)
					walk = func(ph *ssa.Phi, viaBack bool) {
						if seenPhi[ph] {
							return
						}
						seenPhi[ph] = true
						for i, e := range ph.Edges {
							pred := ph.Block().Preds[i]
							if ph == flag && !head.Dominates(pred) {
								continue // initial value
							}
							if !body[pred] {
								continue
							}
							last := pred.Instrs[len(pred.Instrs)-1]
							switch x := e.(type) {
							case *ssa.Const:
								isTrue := x.Value != nil && x.Value.String() == "true"
								if !isTrue {
									// false: a word write lies on every way from the head to here
									if _, noWord := existsPath(pathQuery{from: point{head, 0}, avoid: isWordW, stopAt: func(y ssa.Instruction) bool { return !body[y.Block()] }, target: func(y ssa.Instruction) bool { return y == last && !isWordW(y) }}); noWord {
										bad = "the flag is cleared at " + c.nearPos(last) + " although no word was put on the line on some way there"
									}
								} else {
									// true: no word write since the last Reset
									for _, b2 := range bcs {
										if b2.sb == lineSb && b2.arg == ssa.Value(wordPhi) && strings.HasPrefix(b2.method, "Write") {
											if _, dirty := existsPath(pathQuery{from: after(b2.call), avoid: isResetW, stopAt: func(y ssa.Instruction) bool { return y.Block() == head || !body[y.Block()] }, target: func(y ssa.Instruction) bool { return y == last }}); dirty {
												bad = "the flag is set at " + c.nearPos(last) + " although a word was put on the line and the line was not cleared"
											}
										}
									}
								}
							case *ssa.Phi:
								if x == flag {
									// unchanged: then no word was put on the line on the way here
									for _, b2 := range bcs {
										if b2.sb == lineSb && b2.arg == ssa.Value(wordPhi) && strings.HasPrefix(b2.method, "Write") {
											w := b2.call
											reaches := w.Block() == pred
											if !reaches {
												_, reaches = existsPath(pathQuery{from: after(w), stopAt: func(y ssa.Instruction) bool { return y.Block() == head || !body[y.Block()] }, target: func(y ssa.Instruction) bool { return y == last }})
											}
											if reaches {
												bad = "the flag keeps its value on the way through " + c.nearPos(last) + " although a word was put on the line: the next word would be joined to it without a space"
											}
										}
									}
									continue
								}
								if body[x.Block()] {
									walk(x, true)
								}
							default:
								bad = "the flag takes the computed value " + pretty(c.term(fn, e))
							}
						}
					}
					walk(flag, true)
					c.Check(bad == "", key+"/first-word-flag", pos, "the first-word flag is false exactly after a word was put on the line, true after the line was cleared", bad)
				}
			}
		case b.sb == outSb:
			ok := isFlush(b.call) || (b.method == "WriteByte" && at == "10")
			writesWord := false
			if !ok && b.method == "WriteString" {
				ok = true
				for _, a := range c.stringAlts(fn, b.arg, 0) {
					switch {
					case a.konst && (a.text == `\n` || a.text == `\l`):
					case !a.konst && a.term == c.term(fn, wordPhi):
						writesWord = true
					default:
						ok = false
					}
				}
			}
			c.Check(ok, key+"/output", pos, "the output receives only line content, break codes and newline bytes", "the output receives "+pretty(at)+", expected the line content, a break code or the newline byte")
			if writesWord {
				c.Check(hasLit(c.mustLits(fn, b.call.Block()), "+"+isBreakLit), key+"/explicit-break", pos, "only an explicit break word is copied to the output directly", "a word that is not a line break is written straight to the output")
			}
		default:
			c.Bad(key+"/unknown-builder", pos, "write to an unexpected builder")
		}
	}
	// wrap decision: taken exactly when the projected width exceeds the maximum and the line
	// builder itself is non-empty (zero-width content such as control codes still counts as content)
	for _, f := range bcs {
		if !isFlush(f.call) || !loopBody(head)[f.call.Block()] || hasLit(c.mustLits(fn, f.call.Block()), "+"+isBreakLit) {
			continue
		}
		must := c.mustLits(fn, f.call.Block())
		// what holds wherever the word is measured (the loop is running, the word is not a break)
		// is not part of the decision; everything else is
		base := map[string]bool{}
		if gw := c.Fn("parser.FontConfig.getWordPixelWidth"); gw != nil {
			for _, call := range callsToIn(fn, gw) {
				if instrDominates(call.(ssa.Instruction), f.call) {
					for _, l := range c.mustLits(fn, call.Block()) {
						base[l] = true
					}
				}
			}
		}
		over, nonEmpty := false, false
		var others []string
		for _, l := range must {
			switch {
			case strings.HasPrefix(l, "+($2 < "):
				over = true
			case strings.HasPrefix(l, "+(0 < (*strings.Builder).Len("+c.term(fn, lineSb)+")@"):
				nonEmpty = true
			case l == "-"+isBreakLit || base[l]:
			case len(base) == 0 && strings.Contains(l, "builtin:len("):
			default:
				others = append(others, l)
			}
		}
		c.Check(over && nonEmpty && len(others) == 0, "wrap/iff-overflow-and-line-not-empty", c.W.Pos(f.call.Pos()), "a line is wrapped exactly when the projected width exceeds maxWidth and the current line has content", fmt.Sprintf("the wrap is taken under %v; expected exactly (projected width > maxWidth) and (current line builder non-empty) — zero-width content must still allow a wrap, an empty line must not", must))
	}
	// the width arithmetic: the running width is 0 after a break, the word's own width after a
	// wrap, and otherwise grows by the word's width plus — unless it is the first word of the line
	// — the width of one space; the width that is compared with the maximum is that sum, plus the
	// cursor room where it applies (C07.e), and nothing else
	{
		gw := c.Fn("parser.FontConfig.getWordPixelWidth")
		gr := c.Fn("parser.FontConfig.getRunePixelWidth")
		var cw *ssa.Phi
		for _, in := range head.Instrs {
			ph, ok := in.(*ssa.Phi)
			if !ok {
				break
			}
			if bt, ok := ph.Type().Underlying().(*types.Basic); !ok || bt.Kind() != types.Int {
				continue
			}
			for i, e := range ph.Edges {
				if !head.Dominates(head.Preds[i]) {
					continue
				}
				var leaves []ssa.Value
				phiLeaves(e, map[ssa.Value]bool{ph: true}, &leaves)
				for _, lf := range leaves {
					if call, ok := lf.(*ssa.Call); ok && gw != nil && callee(call) == gw {
						cw = ph
					}
				}
			}
		}
		okArith, why := false, "cannot find the running width of the current line (a loop variable that is set to the word's measured width)"
		if cw != nil && gw != nil && gr != nil {
			okArith, why = true, ""
			isW := func(v ssa.Value) bool { call, ok := v.(*ssa.Call); return ok && callee(call) == gw }
			isSpaceWidth := func(v ssa.Value) bool {
				call, ok := v.(*ssa.Call)
				if !ok || callee(call) != gr {
					return false
				}
				k, isC := intConst(call.Call.Args[1])
				return isC && k == 32
			}
			isSum := func(v ssa.Value, p1, p2 func(ssa.Value) bool) bool {
				bo, ok := v.(*ssa.BinOp)
				return ok && bo.Op == token.ADD && (p1(bo.X) && p2(bo.Y) || p1(bo.Y) && p2(bo.X))
			}
			// nextWordWidth: the word's width, plus one space unless first
			// (the space may also be chosen first: separator = 0 or the space width, then word + separator)
			isSepChoice := func(v ssa.Value) bool {
				var leaves []ssa.Value
				phiLeaves(v, map[ssa.Value]bool{}, &leaves)
				saw0, sawS := false, false
				for _, lf := range leaves {
					k, isC := intConst(lf)
					switch {
					case isC && k == 0:
						saw0 = true
					case isSpaceWidth(lf):
						sawS = true
					default:
						return false
					}
				}
				_, isPhi := v.(*ssa.Phi)
				return isPhi && saw0 && sawS
			}
			// which of the two it is goes with the first-word flag of the line — the same flag that
			// decides whether the space is written (C07.a space clause) — not with the width so far
			// (a first word of width 0 is still a first word)
			flagGuards := func(v ssa.Value) string {
				ph, isPhi := v.(*ssa.Phi)
				if !isPhi {
					return ""
				}
				for i, e := range ph.Edges {
					must := c.edgeMust(fn, ph.Block().Preds[i], ph.Block())
					var leaves []ssa.Value
					phiLeaves(e, map[ssa.Value]bool{}, &leaves)
					for _, lf := range leaves {
						withSpace := isSum(lf, isW, isSpaceWidth) || isSpaceWidth(lf)
						plain := isW(lf)
						if k, isC := intConst(lf); isC && k == 0 {
							plain = true
						}
						bare := ""
						for _, l := range must {
							if (strings.HasPrefix(l, "+phi(") || strings.HasPrefix(l, "-phi(")) && !strings.Contains(l, " == ") && !strings.Contains(l, " < ") {
								bare = l
							}
						}
						switch {
						case withSpace && !strings.HasPrefix(bare, "-phi("):
							return "the space width is added under " + fmt.Sprint(prettyAll(must)) + ", expected exactly when the word is not the first of its line (the first-word flag)"
						case plain && !withSpace && !strings.HasPrefix(bare, "+phi("):
							return "the space width is left out under " + fmt.Sprint(prettyAll(must)) + ", expected exactly for the first word of a line (the first-word flag)"
						}
					}
				}
				return ""
			}
			isNW := func(v ssa.Value) bool {
				if isSum(v, isW, isSepChoice) {
					return true
				}
				var leaves []ssa.Value
				phiLeaves(v, map[ssa.Value]bool{}, &leaves)
				sawW, sawWS := false, false
				for _, lf := range leaves {
					switch {
					case isW(lf):
						sawW = true
					case isSum(lf, isW, isSpaceWidth):
						sawWS = true
					default:
						return false
					}
				}
				return sawW && sawWS
			}
			isCW := func(v ssa.Value) bool { return v == ssa.Value(cw) }
			nwWhy := ""
			isGrown := func(v ssa.Value) bool {
				if !isSum(v, isCW, isNW) {
					return false
				}
				bo := v.(*ssa.BinOp)
				nw := bo.Y
				if isCW(bo.Y) {
					nw = bo.X
				}
				// the choice sits in nw itself, or in the separator it is the sum of
				if w := flagGuards(nw); w != "" {
					nwWhy = w
				}
				if nb, ok := nw.(*ssa.BinOp); ok {
					for _, op := range []ssa.Value{nb.X, nb.Y} {
						if w := flagGuards(op); w != "" {
							nwWhy = w
						}
					}
				}
				return true
			}
			sawZero, sawWord, sawGrown := false, false, false
			for i, e := range cw.Edges {
				if !head.Dominates(head.Preds[i]) {
					continue
				}
				var leaves []ssa.Value
				phiLeaves(e, map[ssa.Value]bool{cw: true}, &leaves)
				for _, lf := range leaves {
					k, isC := intConst(lf)
					switch {
					case isC && k == 0:
						sawZero = true
					case isW(lf):
						sawWord = true
					case isGrown(lf):
						sawGrown = true
					default:
						okArith, why = false, "the running width can become "+pretty(c.term(fn, lf))+", expected 0 (after a break), the word's width (after a wrap) or width + word (+ space unless first)"
					}
				}
			}
			if okArith && !(sawZero && sawWord && sawGrown) {
				okArith, why = false, "the running width is not updated in all three ways (reset after a break, word's width after a wrap, grown otherwise)"
			}
			// what is compared with the maximum
			nCmp := 0
			instrs(fn, func(in ssa.Instruction) {
				bo, ok := in.(*ssa.BinOp)
				if !ok || (bo.Op != token.GTR && bo.Op != token.LSS && bo.Op != token.GEQ && bo.Op != token.LEQ) {
					return
				}
				var other ssa.Value
				if bo.X == ssa.Value(fn.Params[2]) {
					other = bo.Y
				} else if bo.Y == ssa.Value(fn.Params[2]) {
					other = bo.X
				} else {
					return
				}
				nCmp++
				var leaves []ssa.Value
				phiLeaves(other, map[ssa.Value]bool{}, &leaves)
				isCursor := func(v ssa.Value) bool { return v == ssa.Value(fn.Params[3]) }
				for _, lf := range leaves {
					if !isGrown(lf) && !isSum(lf, isGrown, isCursor) {
						okArith, why = false, "the width compared with the maximum can be "+pretty(c.term(fn, lf))+", expected (width so far + word (+ space unless first)) (+ cursor room)"
					}
				}
			})
			if okArith && nCmp != 1 {
				okArith, why = false, fmt.Sprintf("found %d comparisons with maxWidth, expected 1", nCmp)
			}
			if okArith && nwWhy != "" {
				okArith, why = false, nwWhy
			}
		}
		c.Check(okArith, "width/arithmetic", c.W.Pos(wordPhi.Pos()), "running width: 0 after a break, the word after a wrap, else + word (+ space); compared value = that sum (+ cursor room)", why)
	}
	// words come from getNextWord on the remaining text, in order (pos advances by the returned offset)
	okNext := false
	for _, e := range wordPhi.Edges {
		if strings.HasPrefix(c.term(fn, e), "(*parser.FontConfig).getNextWord($0,") && strings.HasSuffix(c.term(fn, e), ":])#1") {
			okNext = true
		}
	}
	// every scan for a word reads the text in which line breaks between adjacent literals have
	// become spaces (a raw line break would glue two words into one that is never measured)
	if gnw := c.Fn("parser.FontConfig.getNextWord"); gnw != nil {
		const norm = `strings.ReplaceAll($1,"\n"," ")`
		for i, call := range callsToIn(fn, gnw) {
			t := c.term(fn, call.Common().Args[1])
			c.Check(strings.HasPrefix(t, norm), fmt.Sprintf("word/scanned-text-normalised#%d", i), c.W.Pos(call.Pos()), "words are scanned in the text with line breaks turned into spaces", "a word is scanned in "+pretty(t)+", not in the text whose line breaks were replaced by spaces: words on both sides of a raw line break would be glued together")
		}
	}
	c.Check(okNext, "word/next-from-remaining-text", c.W.Pos(wordPhi.Pos()), "the next word is read from the text after the current position", "the next word is not read from text[pos:]")
	// the position: starts at the offset the first scan returned and advances by exactly the offset
	// each further scan returns (an offset that is dropped or counted twice repeats or skips text)
	if gnw := c.Fn("parser.FontConfig.getNextWord"); gnw != nil {
		okPos, why := false, "no scan of text[pos:] found inside the word loop"
		for _, call := range callsToIn(fn, gnw) {
			sl, isSlice := call.Common().Args[1].(*ssa.Slice)
			if !isSlice || !isLoopHeader(wordPhi.Block()) || !loopBody(wordPhi.Block())[call.Block()] {
				continue
			}
			posPhi, isPhi := sl.Low.(*ssa.Phi)
			if !isPhi || posPhi.Block() != wordPhi.Block() || sl.High != nil {
				why = "the scan inside the loop reads " + pretty(c.term(fn, sl)) + ", expected text[pos:] with pos carried by the loop"
				continue
			}
			okPos = true
			for i, e := range posPhi.Edges {
				pred := posPhi.Block().Preds[i]
				if posPhi.Block().Dominates(pred) {
					bo, isAdd := e.(*ssa.BinOp)
					okStep := false
					if isAdd && bo.Op == token.ADD {
						for _, pair := range [][2]ssa.Value{{bo.X, bo.Y}, {bo.Y, bo.X}} {
							if ex, isEx := pair[1].(*ssa.Extract); isEx && pair[0] == ssa.Value(posPhi) && ex.Index == 0 && ex.Tuple == call.(ssa.Value) {
								okStep = true
							}
						}
					}
					if !okStep {
						okPos, why = false, "inside the loop the position becomes "+pretty(c.term(fn, e))+", expected pos + (offset returned by this iteration's scan)"
					}
				} else {
					ex, isEx := e.(*ssa.Extract)
					first := false
					if isEx && ex.Index == 0 {
						if fc, isCall := ex.Tuple.(*ssa.Call); isCall && callee(fc) == gnw {
							if _, sliced := fc.Call.Args[1].(*ssa.Slice); !sliced {
								first = true
							}
						}
					}
					if !first {
						okPos, why = false, "the position starts at "+pretty(c.term(fn, e))+", expected the offset returned by the first scan of the whole text"
					}
				}
			}
		}
		c.Check(okPos, "word/position-advances-by-returned-offset", c.W.Pos(wordPhi.Pos()), "pos starts at the first scan's offset and grows by each scan's offset", why)
	}
}

func canReachAvoidingHead(a, b, head ssa.Instruction) bool {
	_, ok := existsPath(pathQuery{from: after(a), target: func(in ssa.Instruction) bool { return in == b }, stopAt: func(in ssa.Instruction) bool { return in == head }})
	return ok
}

func c07b(c *Ctx) {
	fn := c.Fn("parser.FontConfig.FormatText")
	if fn == nil {
		return
	}
	// (a "use line feed" helper, if there is one, is expanded into its definition by the path
	// conditions, so both sites test the line number against numLines in the same form)
	// the two sites
	var cur string
	nSites := 0
	for _, ws := range c.sitesOf(fn) {
		if !ws.konst || (ws.format != `\n` && ws.format != `\l`) {
			continue
		}
		must := siteMust(ws)
		pos := c.W.Pos(ws.call.Pos())
		// which predicate guards this site
		var lit string
		for _, l := range must {
			if strings.HasSuffix(l, "+1 < $5)") && strings.Contains(l, "phi(") {
				lit = l
			}
		}
		nSites++
		key := fmt.Sprintf("break-choice#%d[%s]", nSites, ws.format)
		if lit == "" {
			c.Bad(key, pos, "break code "+ws.format+" is written without a test of the line number against numLines")
			continue
		}
		// normalise to "scroll" = last line reached
		scroll := false
		switch {
		case strings.HasPrefix(lit[1:], "(phi("):
			// (cur < n-1): '+' means not yet on the last line
			scroll = lit[0] == '-'
			cur = strings.TrimSuffix(strings.TrimPrefix(lit[1:], "("), "+1 < $5)")
		}
		want := `\n`
		if scroll {
			want = `\l`
		}
		c.Check(ws.format == want, key, pos, "'\\l' exactly when the current line is the last line of the box (curLineNum >= numLines-1), else '\\n'", "break code "+ws.format+" is written when curLineNum "+map[bool]string{true: ">=", false: "<"}[scroll]+" numLines-1; expected "+want)
	}
	c.Check(nSites == 4, "break-choice/sites", c.W.FuncPos(fn), "two sites (auto break, wrap) each choosing between \\n and \\l", fmt.Sprintf("found %d break-code writes, expected 4", nSites))
	// line counter: loop phi; increments at both line ends, reset to 0 at paragraph break
	var numPhi *ssa.Phi
	instrs(fn, func(in ssa.Instruction) {
		if p, ok := in.(*ssa.Phi); ok && isLoopHeader(p.Block()) && c.term(fn, p) == cur {
			numPhi = p
		}
	})
	if numPhi == nil {
		c.Bad("line-counter", c.W.FuncPos(fn), "cannot find the line counter")
		return
	}
	var leaves []ssa.Value
	for i, e := range numPhi.Edges {
		if numPhi.Block().Dominates(numPhi.Block().Preds[i]) {
			phiLeaves(e, map[ssa.Value]bool{numPhi: true}, &leaves)
		}
	}
	inc, zero, keep := 0, 0, 0
	okZero := false
	for _, lf := range leaves {
		t := c.term(fn, lf)
		switch {
		case t == cur+"+1":
			inc++
		case t == "0":
			zero++
		case t == cur:
			keep++
		}
	}
	// the zero edge is guarded by isParagraphBreak(word)
	instrs(fn, func(in ssa.Instruction) {
		if p, ok := in.(*ssa.Phi); ok {
			for i, e := range p.Edges {
				if k, isC := intConst(e); isC && k == 0 && p != numPhi {
					for _, l := range c.edgeMust(fn, p.Block().Preds[i], p.Block()) {
						if strings.HasPrefix(l, "+(*parser.FontConfig).isParagraphBreak($0,phi(") {
							okZero = true
						}
					}
				}
			}
		}
	})
	// an edge that carries the counter unchanged must not lie after a line end (flush of the
	// current line to the output) of the same iteration
	{
		var flushes []ssa.Instruction
		for _, b := range builderCalls(fn) {
			if b.method == "WriteString" {
				if call, ok := b.arg.(*ssa.Call); ok && calleeName(call) == "(*strings.Builder).String" && loopBody(numPhi.Block())[b.call.Block()] {
					flushes = append(flushes, b.call.(ssa.Instruction))
				}
			}
		}
		headFirst := numPhi.Block().Instrs[0]
		bad := ""
		seenPhi := map[*ssa.Phi]bool{}
		var scan func(v ssa.Value)
		scan = func(v ssa.Value) {
			p, ok := v.(*ssa.Phi)
			if !ok || seenPhi[p] {
				return
			}
			seenPhi[p] = true
			for i, e := range p.Edges {
				if p == numPhi && !numPhi.Block().Dominates(p.Block().Preds[i]) {
					continue
				}
				if e == ssa.Value(numPhi) && p != numPhi {
					pred := p.Block().Preds[i]
					last := pred.Instrs[len(pred.Instrs)-1]
					for _, f := range flushes {
						if f.Block() == pred || canReachAvoidingHead(f, last, headFirst) {
							bad = c.W.Pos(f.Pos())
						}
					}
				}
				scan(e)
			}
		}
		scan(numPhi)
		c.Check(bad == "" && len(flushes) == 2, "line-counter/changes-at-every-line-end", c.W.Pos(numPhi.Pos()), "after a line has been flushed the line number is incremented or reset before the next word", "after the line end at "+bad+" the iteration can finish with the line number unchanged: the following breaks would use the wrong row (\\n vs \\l)")
	}
	c.Check(inc == 2 && zero == 1 && okZero, "line-counter/discipline", c.W.Pos(numPhi.Pos()), "line number +1 at every line end, 0 after a paragraph break", fmt.Sprintf("line counter updates: %d increments, %d resets (paragraph-guarded: %v); expected 2 increments and 1 paragraph reset", inc, zero, okZero))
}

func c07c(c *Ctx) {
	fn := c.Fn("parser.Parser.parseFormatStringOperator")
	ft := c.Fn("parser.FontConfig.FormatText")
	if fn == nil || ft == nil {
		return
	}
	calls := callsToIn(fn, ft)
	if len(calls) != 1 {
		c.Bad("format-call", c.W.FuncPos(fn), fmt.Sprintf("expected one FormatText call, found %d", len(calls)))
		return
	}
	call := calls[0]
	args := call.Common().Args
	fontT := c.term(fn, args[4])
	c.Check(strings.HasSuffix(c.term(fn, args[1]), ".Literal") && strings.Contains(c.term(fn, args[0]), "$0.fonts"), "format-call/text-and-fonts", c.W.Pos(call.Pos()), "FormatText(p.fonts, <string token>.Literal, ...)", "FormatText is not called on p.fonts with the string token's literal")
	type bind struct {
		idx         int
		name, field string
	}
	for _, b := range []bind{{2, "maxLineLength", "MaxLineLength"}, {3, "cursorOverlapWidth", "CursorOverlapWidth"}, {4, "fontId", ""}, {5, "numLines", "NumLines"}} {
		named, fallback := false, false
		bad := ""
		for _, dl := range c.deepLeaves(fn, args[b.idx], 2) {
			t := dl.term
			in, isInstr := dl.inFn, dl.inFn != nil
			if isInstr {
				for _, l := range c.mustLits(fn, in.Block()) {
					for _, nm := range []string{"fontId", "maxLineLength", "numLines", "cursorOverlapWidth"} {
						if strings.HasPrefix(l, "+(") && strings.HasSuffix(l, `.Literal == "`+nm+`")`) {
							if nm == b.name {
								named = true
							} else {
								bad = fmt.Sprintf("the value parsed for named parameter %q reaches FormatText's %s parameter", nm, b.name)
							}
						}
					}
				}
			}
			if b.name == "fontId" && strings.HasSuffix(t, ".DefaultFontID") && isInstr {
				// the config's default font is the last resort: only when the command line named none
				okPrec := false
				isEmptyLit := func(l string) bool {
					return l == `+($0.defaultFontID == "")` || l == `-(0 < builtin:len($0.defaultFontID))` || l == `-($0.defaultFontID != "")`
				}
				for _, l := range c.mustLits(fn, in.Block()) {
					if isEmptyLit(l) {
						okPrec = true
					}
				}
				// ... or read first and overridden whenever the command line names a font: every way
				// on which this value is the one that reaches FormatText has the emptiness test
				if !okPrec {
					all, any := true, false
					for _, alt := range c.resultAlts(fn, args[b.idx]) {
						if !strings.HasSuffix(alt.term, ".DefaultFontID") {
							continue
						}
						any = true
						has := false
						for _, l := range alt.must {
							if isEmptyLit(l) {
								has = true
							}
						}
						all = all && has
					}
					okPrec = any && all
				}
				if !okPrec {
					bad = "the font config's default font is used without testing that no default font was given on the command line (-f takes precedence); guards: " + fmt.Sprint(prettyAll(c.mustLits(fn, in.Block())))
				}
			}
			if strings.Contains(t, ".Fonts[") {
				// fallback from the font config
				okKey := strings.HasPrefix(t, "$0.fonts.Fonts["+fontT+"].") || strings.Contains(t, ".Fonts["+fontT+"]")
				okField := strings.HasSuffix(t, "."+b.field)
				// taken exactly when no positive value was given: the guard is "<= 0" (1 is a value
				// an author can ask for — one line, one pixel — and must not be overridden)
				if isInstr && !dl.fromCallee && okKey && okField {
					guard := ""
					for _, l := range c.mustLits(fn, in.Block()) {
						if strings.HasPrefix(l, "-(") && strings.Contains(l, " < ") && strings.Contains(l, b.name) && !strings.Contains(l, ".Fonts[") {
							guard = l
						}
					}
					if guard != "" && !strings.HasPrefix(guard, "-(0 < ") {
						bad = "the font-config fallback for " + b.name + " is taken under " + pretty(guard) + ", expected exactly when the parameter is not positive (-(0 < " + b.name + ")): an explicit positive value would be overridden by the font's"
					}
					// ... and whenever: relative to the place where the decision is made there is no
					// further condition (a fallback taken only for boxes of more than one line leaves
					// the other boxes without the font's cursor room)
					if guard != "" {
						var ref *ssa.BasicBlock
						for _, bb := range fn.Blocks {
							if len(bb.Preds) == 1 && (bb == in.Block() || bb.Dominates(in.Block())) && normLit(c.PC(fn).edgeLit(bb.Preds[0], bb)) == normLit(guard) {
								ref = bb.Preds[0]
							}
						}
						if ref != nil {
							base := map[string]bool{}
							for _, l := range c.mustLits(fn, ref) {
								base[l] = true
							}
							for _, l := range c.mustLits(fn, in.Block()) {
								if !base[l] && l != guard && normLit(l) != normLit(guard) {
									bad = "the font-config fallback for " + b.name + " is taken only under the further condition " + pretty(l) + ": in the other cases a missing value is not replaced by the font's"
								}
							}
						}
					}
					if guard == "" {
						bad = "the font-config fallback for " + b.name + " is not guarded by a test that no positive value was given"
					}
				}
				if okKey && okField {
					fallback = true
				} else {
					bad = "font-config fallback for " + b.name + " is " + pretty(t) + ", expected fonts.Fonts[<font id passed to FormatText>]." + b.field
				}
			} else if strings.Contains(t, "ontDefaults") || (b.field != "" && strings.HasSuffix(t, "."+b.field) && !strings.Contains(t, ".Fonts[")) {
				bad = "font-config fallback for " + b.name + " is " + pretty(t) + ", which is not a lookup under the font id passed to FormatText"
			}
		}
		// order of precedence: what format() says beats the command line, which beats the font
		// config, which beats the built-in default. (i) a value read from the parser's own
		// fields (-l, -f) is the starting value: its read comes before every place where a
		// parameter is parsed (read again at the end it would override what format() says);
		// (ii) a built-in constant is the last resort: taken only after the font config's value
		// was found not positive
		{
			leaves := c.deepLeaves(fn, args[b.idx], 2)
			for _, dl := range leaves {
				if dl.inFn == nil {
					continue
				}
				if regexpMust(`^\$0\.[A-Za-z]+$`).MatchString(dl.term) {
					for _, other := range leaves {
						if other.inFn == nil || other.inFn == dl.inFn || strings.Contains(other.term, ".Fonts[") || strings.HasSuffix(other.term, ".DefaultFontID") {
							continue
						}
						if canReach(other.inFn, dl.inFn) && bad == "" {
							bad = "the command-line value " + pretty(dl.term) + " is read at " + c.W.Pos(dl.inFn.Pos()) + ", which is not before the parameters of format() are parsed (" + c.W.Pos(other.inFn.Pos()) + "): it could override a value written in format()"
						}
					}
				}
			}
			if b.field != "" {
				for _, alt := range c.resultAlts(fn, args[b.idx]) {
					k, isNum := alt.term, regexpMust(`^-?\d+$`).MatchString(alt.term)
					if !isNum || k == "-1" || k == "0" {
						continue
					}
					guarded := false
					for _, l := range alt.must {
						if strings.HasPrefix(l, "-(0 < ") && strings.Contains(l, "."+b.field) {
							guarded = true
						}
					}
					if !guarded && bad == "" {
						bad = "the built-in default " + k + " for " + b.name + " is used under " + fmt.Sprint(prettyAll(alt.must)) + ": expected only when the font config's " + b.field + " is not positive (-(0 < ..." + b.field + "))"
					}
				}
			}
		}
		key := "binding/" + b.name
		pos := c.W.Pos(call.Pos())
		if bad != "" {
			c.Bad(key, pos, bad)
			continue
		}
		c.Check(named, key+"/named", pos, "named parameter "+b.name+" reaches the matching FormatText parameter", "no value parsed under the named parameter "+b.name+" reaches FormatText's corresponding parameter")
		if b.field != "" {
			c.Check(fallback, key+"/fallback", pos, "fallback reads "+b.field+" of the selected font", "no font-config fallback fonts.Fonts[fontID]."+b.field+" for "+b.name)
		}
	}
	// duplicates rejected: check-before-insert on specifiedParams for named parameters
	okDup := false
	instrs(fn, func(in ssa.Instruction) {
		mu, ok := in.(*ssa.MapUpdate)
		if !ok {
			return
		}
		k := c.term(fn, mu.Key)
		if strings.HasSuffix(k, ".Literal") {
			for _, l := range c.mustLits(fn, mu.Block()) {
				if strings.HasPrefix(l, "-") && strings.HasSuffix(l, "["+k+"]#1") {
					okDup = true
				}
			}
		}
	})
	c.Check(okDup, "named/duplicate-rejected", c.W.FuncPos(fn), "a named parameter is recorded only after the duplicate test on the same name", "named parameters are recorded without a check-before-insert on the same name")
	// unnamed: INT -> maxLineLength, STRING -> fontId
	okInt := false
	for _, dl := range c.deepLeaves(fn, args[2], 2) {
		if in := dl.inFn; in != nil && strings.Contains(dl.term, "strconv.ParseInt(") {
			must := c.mustLits(fn, in.Block())
			if !containsSub(must, `.Literal == "`) {
				okInt = true
			}
		}
	}
	c.Check(okInt, "unnamed/int-is-max-line-length", c.W.Pos(call.Pos()), "an unnamed integer is the maximum line length", "no unnamed integer parameter reaches FormatText's maxWidth")
	// the number that is parsed is the number that was written: every ParseInt of the format()
	// parser reads the literal of the token at hand (the INT that was just accepted), not of a
	// token further on
	nPI := 0
	for _, m := range c.unitOf(fn) {
		for _, ci := range callsIn(m.fn) {
			if calleeName(ci) != "strconv.ParseInt" || len(ci.Common().Args) == 0 {
				continue
			}
			nPI++
			// the operand is a load of <receiver>.curToken.Literal at the place of the call
			isCurLiteral := func(v ssa.Value) bool {
				ld, isLd := v.(*ssa.UnOp)
				if !isLd || ld.Op != token.MUL {
					return false
				}
				tokAddr, _, f, okF := fieldAddrOf(ld.X)
				if !okF || f != "Literal" {
					return false
				}
				_, t, f2, okT := fieldAddrOf(tokAddr)
				return okT && f2 == "curToken" && typeIs(t, "parser", "Parser")
			}
			t := pretty(c.term(m.fn, ci.Common().Args[0]))
			ok := isCurLiteral(ci.Common().Args[0])
			if par, isPar := ci.Common().Args[0].(*ssa.Parameter); isPar {
				// a helper that is handed the literal: judged at its callers
				ok = true
				idx := paramIndex(m.fn, par)
				for _, cs := range c.W.callsTo(m.fn) {
					if isTestFunc(c.W, cs.Parent()) || idx < 0 || idx >= len(cs.Common().Args) {
						continue
					}
					if !isCurLiteral(cs.Common().Args[idx]) {
						ok, t = false, pretty(c.term(cs.Parent(), cs.Common().Args[idx]))
					}
				}
			}
			c.Check(ok, fmt.Sprintf("number-parsed-is-the-number-written/%s@%d", m.fn.Name(), c.T(m.fn).callOrd[ci]), c.W.Pos(ci.Pos()), "ParseInt reads the literal of the current token", "the format() parser converts "+t+" to a number, which is not a read of the current token's literal (the token it has just accepted): the value written for the parameter is ignored")
		}
	}
	c.Check(nPI >= 1, "number-parsed/sites", c.W.FuncPos(fn), fmt.Sprintf("%d conversions of parameter values", nPI), fmt.Sprintf("only %d ParseInt calls found in the format() parser", nPI))
}

// c07d: (i) FormatText and everything it calls write no heap state (Effects): a width or a
// word boundary cannot depend on an earlier format() of the same run; (ii) in the word
// scanner (and every other scanning loop of package parser) a nesting-depth counter that is
// compared with zero is only decremented where it is known to be positive: a stray closing
// brace must not push the depth below zero, where "depth == 0" (spaces break words, escapes
// are break codes) would never hold again.
// c07dWordFound: the word scanner says "no more words" exactly when it has seen nothing but
// blanks — the flag that lets a blank end a word (something other than a blank was seen) is the
// flag whose absence makes the final return hand back the empty word. A break code that stands
// alone at the end of the text has set that flag and is a word.
func c07dWordFound(c *Ctx) {
	fn := c.Fn("parser.FontConfig.getNextWord")
	if fn == nil {
		return
	}
	var spaceFlags []string
	var empties []*ssa.Return
	for _, r := range returnsOf(fn) {
		if len(r.Results) != 2 {
			continue
		}
		must := c.mustLits(fn, r.Block())
		if k, isC := strConst(r.Results[1]); isC && k == "" {
			empties = append(empties, r)
			continue
		}
		inSpace := false
		for _, l := range must {
			if strings.HasSuffix(l, " == 32)") && strings.HasPrefix(l, "+(") {
				inSpace = true
			}
		}
		if inSpace {
			for _, l := range must {
				if strings.HasPrefix(l, "+phi(") {
					spaceFlags = append(spaceFlags, flagName(l[1:]))
				}
			}
		}
	}
	if len(empties) == 0 || len(spaceFlags) == 0 {
		c.Bad("getNextWord/empty-word-return", c.W.FuncPos(fn), "cannot find the return of the empty word and the flag under which a blank ends a word")
		return
	}
	for i, r := range empties {
		ok := false
		var got []string
		for _, l := range c.mustLits(fn, r.Block()) {
			if strings.HasPrefix(l, "-phi(") || strings.HasPrefix(l, "+phi(") {
				got = append(got, l[:1]+flagName(l[1:]))
				for _, f := range spaceFlags {
					if l[0] == '-' && flagName(l[1:]) == f {
						ok = true
					}
				}
			}
		}
		c.Check(ok, fmt.Sprintf("getNextWord/empty-word-return#%d", i), c.W.Pos(r.Pos()), "the empty word is returned exactly when nothing but blanks was seen (the flag that lets a blank end a word)", fmt.Sprintf("the empty word is returned under %v, expected under the absence of the flag that lets a blank end a word (%v): a break code standing alone at the end of the text would be dropped", got, spaceFlags))
	}
}

// flagName: the variable a phi term stands for (`phi(b3:foundNonSpace)#0` -> foundNonSpace).
func flagName(t string) string {
	if i := strings.Index(t, ":"); i >= 0 {
		t = t[i+1:]
	}
	if j := strings.IndexAny(t, ")#!"); j >= 0 {
		t = t[:j]
	}
	return t
}

// c07dScannerCounters: two more loop variables of the word scanner are part of its meaning.
// The nesting depth of brace groups moves by one ('{' up, '}' down) — a depth that is set instead
// of counted forgets the outer group. The start of the word is fixed where the first character
// of the word is met: in the ordinary-character arm while nothing but blanks was seen, in the
// backslash arm while no ordinary character was seen (a backslash that is not a break code is
// part of the word it starts).
func c07dScannerCounters(c *Ctx) {
	fn := c.Fn("parser.FontConfig.getNextWord")
	if fn == nil {
		return
	}
	var head *ssa.BasicBlock
	for _, b := range fn.Blocks {
		if isLoopHeader(b) && head == nil {
			head = b
		}
	}
	if head == nil {
		c.Bad("getNextWord/counters", c.W.FuncPos(fn), "the scanning loop was not found")
		return
	}
	nDepth, nStart := 0, 0
	for _, in := range head.Instrs {
		ph, ok := in.(*ssa.Phi)
		if !ok {
			continue
		}
		bt, isB := ph.Type().Underlying().(*types.Basic)
		if isB && bt.Kind() == types.Bool {
			// no flag is up before the first character was looked at
			for i, e := range ph.Edges {
				if head.Dominates(head.Preds[i]) {
					continue
				}
				k, isC := e.(*ssa.Const)
				nm := flagName(c.term(fn, ph))
				c.Check(isC && k.Value != nil && !constant.BoolVal(k.Value), "getNextWord/starts-from-zero/"+nm, c.W.Pos(ph.Pos()), "the scanner's flags start down", "the scanner's flag "+nm+" is already up before the first character is looked at (a text that starts with l, n, p or N would be cut after that letter)")
			}
		}
		if !isB || bt.Kind() != types.Int || strings.Contains(ph.Comment, "rangeindex") {
			continue
		}
		name := flagName(c.term(fn, ph))
		// the scanner starts from nothing: depth 0, positions 0
		for i, e := range ph.Edges {
			if head.Dominates(head.Preds[i]) {
				continue
			}
			k, isC := intConst(e)
			c.Check(isC && k == 0, "getNextWord/starts-from-zero/"+name, c.W.Pos(ph.Pos()), "the scanner's counters and positions start at 0", "the scanner's "+name+" starts at "+pretty(c.term(fn, e))+" instead of 0")
		}
		// what can come round the loop in this variable
		var leaves []ssa.Value
		seen := map[ssa.Value]bool{ph: true}
		var gather func(v ssa.Value)
		gather = func(v ssa.Value) {
			if seen[v] {
				return
			}
			seen[v] = true
			if q, isPhi := v.(*ssa.Phi); isPhi && loopBody(head)[q.Block()] {
				for _, e := range q.Edges {
					gather(e)
				}
				return
			}
			leaves = append(leaves, v)
		}
		for i, e := range ph.Edges {
			if head.Dominates(head.Preds[i]) {
				gather(e)
			}
		}
		isDepth, isPos := false, false
		for _, lf := range leaves {
			if bo, isBo := lf.(*ssa.BinOp); isBo && bo.X == ssa.Value(ph) {
				isDepth = true
			}
			if ex, isEx := lf.(*ssa.Extract); isEx {
				if _, isNext := ex.Tuple.(*ssa.Next); isNext {
					isPos = true
				}
			}
		}
		if isDepth {
			nDepth++
			for i, lf := range leaves {
				okStep := false
				if bo, isBo := lf.(*ssa.BinOp); isBo && bo.X == ssa.Value(ph) && (bo.Op == token.ADD || bo.Op == token.SUB) {
					if k, isC := intConst(bo.Y); isC && k == 1 {
						okStep = true
					}
				}
				c.Check(okStep, fmt.Sprintf("getNextWord/depth-moves-by-one/%s#%d", name, i), c.W.Pos(ph.Pos()), "the brace depth goes up or down by one", "the brace depth "+name+" is set to "+pretty(c.term(fn, lf))+" instead of being counted up or down by one: inside nested groups a blank would end the word")
			}
		}
		isLow := false
		for _, b := range fn.Blocks {
			for _, in2 := range b.Instrs {
				if sl, isSl := in2.(*ssa.Slice); isSl && sl.Low != nil && seen[sl.Low] {
					isLow = true
				}
			}
		}
		if isPos && !isDepth && isLow {
			// position variables set to the current offset: startPos (and endPos)
			for _, b := range fn.Blocks {
				if !loopBody(head)[b] {
					continue
				}
				for _, in3 := range b.Instrs {
					q, isPhi := in3.(*ssa.Phi)
					if !isPhi {
						continue
					}
					for i, e := range q.Edges {
						ex, isEx := e.(*ssa.Extract)
						if !isEx {
							continue
						}
						if _, isNext := ex.Tuple.(*ssa.Next); !isNext || ex.Index != 1 {
							continue
						}
						// is q (transitively) an incoming value of ph?
						if !seen[q] {
							continue
						}
						must := c.edgeMust(fn, q.Block().Preds[i], q.Block())
						var flags []string
						backslash := false
						for _, l := range must {
							if strings.HasPrefix(l, "-phi(") || strings.HasPrefix(l, "+phi(") {
								flags = append(flags, l[:1]+flagName(l[1:]))
							}
							if strings.HasPrefix(l, "+(") && strings.HasSuffix(l, " == 92)") {
								backslash = true
							}
						}
						if len(flags) == 0 {
							continue // set unconditionally (endPos)
						}
						nStart++
						// which flag: the one the empty-word return tests in the ordinary arm, the other one in the backslash arm
						want := startFlag(c, fn, backslash)
						okFlag := want != "" && len(flags) >= 1
						if okFlag {
							has := false
							for _, f := range flags {
								if f == "-"+want {
									has = true
								}
							}
							okFlag = has
						}
						c.Check(okFlag, fmt.Sprintf("getNextWord/word-start/%s#%d", name, nStart), c.W.Pos(q.Pos()), "the start of the word is set while the right 'nothing seen yet' flag is still down", fmt.Sprintf("%s is set to the current offset under %v, expected under -%s: the word would start too late (its first character — a backslash that is no break code — is lost) or too early", name, flags, want))
					}
				}
			}
		}
	}
	c.Check(nDepth == 1 && nStart >= 2, "getNextWord/counters", c.W.FuncPos(fn), fmt.Sprintf("%d depth counter, %d settings of the word start", nDepth, nStart), fmt.Sprintf("found %d depth counters and %d settings of the word start in getNextWord, expected 1 and 2", nDepth, nStart))
}

// startFlag: the flag under whose absence the word start is set in the ordinary arm is the flag
// the empty-word return tests ("nothing but blanks seen"); in the backslash arm it is the other
// boolean found-flag of the scanner ("no ordinary character seen").
func startFlag(c *Ctx, fn *ssa.Function, backslash bool) string {
	empty := ""
	for _, r := range returnsOf(fn) {
		if len(r.Results) == 2 {
			if k, isC := strConst(r.Results[1]); isC && k == "" {
				for _, l := range c.mustLits(fn, r.Block()) {
					if strings.HasPrefix(l, "-phi(") {
						empty = flagName(l[1:])
					}
				}
			}
		}
	}
	if !backslash {
		return empty
	}
	// the other found-flag: a boolean loop variable that is set to true together with `empty`
	// in the ordinary arm and is not the escape / end-on-next flag
	other := ""
	for _, b := range fn.Blocks {
		if !isLoopHeader(b) {
			continue
		}
		for _, in := range b.Instrs {
			ph, ok := in.(*ssa.Phi)
			if !ok {
				continue
			}
			if bt, isB := ph.Type().Underlying().(*types.Basic); !isB || bt.Kind() != types.Bool {
				continue
			}
			n := flagName(c.term(fn, ph))
			if n != empty && strings.HasPrefix(strings.ToLower(n), "found") {
				other = n
			}
		}
	}
	return other
}

func c07d(c *Ctx) {
	c07dWordFound(c)
	c07dScannerCounters(c)
	ft := c.Fn("parser.FontConfig.FormatText")
	if ft == nil {
		return
	}
	// functions reachable from FormatText and from every FontConfig method
	reach := map[*ssa.Function]bool{}
	var visit func(f *ssa.Function)
	visit = func(f *ssa.Function) {
		if f == nil || reach[f] || !c.W.InRepo(f) || len(f.Blocks) == 0 {
			return
		}
		reach[f] = true
		for _, ci := range callsIn(f) {
			for _, g := range c.Eff().targets(ci) {
				visit(g)
			}
		}
	}
	visit(ft)
	nMeth := 0
	for _, fn := range c.W.FuncsOf("parser") {
		recv := fn.Signature.Recv()
		if recv == nil || !typeIs(recv.Type(), "parser", "FontConfig") || isTestFunc(c.W, fn) {
			continue
		}
		nMeth++
		visit(fn)
	}
	freshRoot := func(v ssa.Value) bool {
		switch rootValue(v).(type) {
		case *ssa.Alloc, *ssa.MakeSlice, *ssa.MakeMap:
			return true
		}
		return false
	}
	nFn := 0
	for fn := range reach {
		nFn++
		fk := c.W.FuncKey(fn)
		instrs(fn, func(in ssa.Instruction) {
			switch x := in.(type) {
			case *ssa.Store:
				if !freshRoot(x.Addr) {
					c.Bad(fk+"/writes["+storeClass(x.Addr)+"]", c.W.Pos(x.Pos()), "the formatter writes "+storeClass(x.Addr)+", which outlives the call: the result of a later format() could depend on this one")
				}
			case *ssa.MapUpdate:
				if !freshRoot(x.Map) {
					c.Bad(fk+"/updates-map["+shortType(x.Map.Type())+"]", c.W.Pos(x.Pos()), "the formatter updates a map that outlives the call ("+pretty(c.term(fn, x.Map))+"): widths or results looked up later could depend on earlier calls")
				}
			}
		})
	}
	c.OK("formatter/writes-nothing", c.W.FuncPos(ft), fmt.Sprintf("%d functions reachable from FormatText and the FontConfig methods write only objects they create themselves", nFn))
	c.Check(nMeth >= 5, "FontConfig/methods", "-", fmt.Sprintf("%d FontConfig methods", nMeth), "FontConfig methods not found")
	// (ii) depth counters
	nCounters := 0
	for _, fn := range c.W.FuncsOf("parser") {
		if isTestFunc(c.W, fn) {
			continue
		}
		instrs(fn, func(in ssa.Instruction) {
			p, ok := in.(*ssa.Phi)
			if !ok || !isLoopHeader(p.Block()) {
				return
			}
			if b, ok := p.Type().Underlying().(*types.Basic); !ok || b.Kind() != types.Int {
				return
			}
			pt := c.term(fn, p)
			// compared with zero somewhere?
			zeroTested := false
			for _, r := range *p.Referrers() {
				if bo, ok := r.(*ssa.BinOp); ok && (bo.Op == token.EQL || bo.Op == token.NEQ || bo.Op == token.GTR || bo.Op == token.LSS) {
					if k, isC := intConst(bo.Y); isC && k == 0 {
						zeroTested = true
					}
					if k, isC := intConst(bo.X); isC && k == 0 {
						zeroTested = true
					}
				}
			}
			if !zeroTested {
				return
			}
			for _, r := range *p.Referrers() {
				bo, ok := r.(*ssa.BinOp)
				if !ok || bo.Op != token.SUB || bo.X != ssa.Value(p) {
					continue
				}
				if k, isC := intConst(bo.Y); !isC || k != 1 {
					continue
				}
				nCounters++
				must := c.mustLits(fn, bo.Block())
				okG := hasLit(must, "+(0 < "+pt+")") || hasLit(must, "-("+pt+" == 0)")
				c.Check(okG, fmt.Sprintf("%s/depth-counter[%s]", c.W.FuncKey(fn), pretty(pt)), c.W.Pos(bo.Pos()), "the depth counter is decremented only where it is positive", "the nesting depth "+pretty(pt)+" is decremented without a test that it is positive: an unbalanced closing delimiter makes it negative and the 'depth == 0' tests never hold again")
			}
		})
	}
	// (iii) the escape flag of the word scanner: set by an unescaped backslash, kept only while the
	// escaped character is being judged, cleared by every other character (a flag that survives an
	// ordinary character turns a later 'n' or 'p' into a line break)
	if gn := c.Fn("parser.FontConfig.getNextWord"); gn != nil {
		nFlag := 0
		for _, h := range gn.Blocks {
			if !isLoopHeader(h) {
				continue
			}
			for _, in := range h.Instrs {
				ph, isPhi := in.(*ssa.Phi)
				if !isPhi {
					break
				}
				if b, ok := ph.Type().Underlying().(*types.Basic); !ok || b.Kind() != types.Bool {
					continue
				}
				type lf struct {
					v    ssa.Value
					must []string
				}
				var leaves []lf
				for i, e := range ph.Edges {
					if h.Dominates(h.Preds[i]) {
						for _, g := range c.guardedLeaves(gn, e, c.edgeMust(gn, h.Preds[i], h)) {
							leaves = append(leaves, lf{g.v, g.must})
						}
					}
				}
				isBackslash := func(must []string) bool {
					for _, l := range must {
						if strings.HasPrefix(l, "+(") && strings.HasSuffix(l, " == 92)") {
							return true
						}
					}
					return false
				}
				isEscape := false
				for _, l := range leaves {
					if k, ok := l.v.(*ssa.Const); ok && k.Value != nil && k.Value.String() == "true" && isBackslash(l.must) {
						isEscape = true
					}
				}
				// ... and cleared somewhere (the 'found' flags of the scanner are only ever set)
				cleared := false
				for _, l := range leaves {
					if k, ok := l.v.(*ssa.Const); ok && k.Value != nil && k.Value.String() == "false" {
						cleared = true
					}
				}
				if !isEscape || !cleared {
					continue
				}
				nFlag++
				pt := c.term(gn, ph)
				bad := ""
				// where each value on a back edge comes from: (value, block it flows out of)
				type origin struct {
					v ssa.Value
					b *ssa.BasicBlock
				}
				body := loopBody(h)
				var originsOf func(p *ssa.Phi, top bool, seen map[*ssa.Phi]bool) []origin
				originsOf = func(p *ssa.Phi, top bool, seen map[*ssa.Phi]bool) []origin {
					if seen[p] {
						return nil
					}
					seen[p] = true
					var out []origin
					for i, e := range p.Edges {
						pred := p.Block().Preds[i]
						if top && !h.Dominates(pred) {
							continue
						}
						if q, isPhi := e.(*ssa.Phi); isPhi && q != ph && body[q.Block()] && q.Block() != h {
							out = append(out, originsOf(q, false, seen)...)
							continue
						}
						out = append(out, origin{e, pred})
					}
					return out
				}
				// the flag may survive an iteration only in the iteration that ends the scan: where
				// another flag of the scanner, on which the loop returns at its next turn, is set
				var endsScan []*ssa.BasicBlock
				for _, in2 := range h.Instrs {
					q, isPhi := in2.(*ssa.Phi)
					if !isPhi || q == ph {
						continue
					}
					if bt, ok := q.Type().Underlying().(*types.Basic); !ok || bt.Kind() != types.Bool {
						continue
					}
					// q makes the loop return when set: an If on q inside the body whose true branch returns
					returns := false
					if q.Referrers() != nil {
						for _, r := range *q.Referrers() {
							if ifi, isIf := r.(*ssa.If); isIf {
								tb := ifi.Block().Succs[0]
								if len(tb.Instrs) > 0 {
									if _, isRet := tb.Instrs[len(tb.Instrs)-1].(*ssa.Return); isRet {
										returns = true
									}
								}
							}
						}
					}
					if !returns {
						continue
					}
					for _, o := range originsOf(q, true, map[*ssa.Phi]bool{}) {
						if k, ok := o.v.(*ssa.Const); ok && k.Value != nil && k.Value.String() == "true" {
							endsScan = append(endsScan, o.b)
						}
					}
				}
				pcg := c.PC(gn)
				for _, o := range originsOf(ph, true, map[*ssa.Phi]bool{}) {
					if o.v != ssa.Value(ph) {
						continue
					}
					okKeep := false
					for _, eb := range endsScan {
						if dnfImplies(pcg.canonOf(pcg.At(o.b)), pcg.canonOf(pcg.At(eb))) {
							okKeep = true
						}
					}
					if !okKeep {
						bad = "the escape flag survives an iteration (through " + c.nearPos(o.b.Instrs[len(o.b.Instrs)-1]) + ") that does not end the scan: an earlier backslash would still escape a later letter, and the rest of the text could be lost"
					}
				}
				for _, l := range leaves {
					switch x := l.v.(type) {
					case *ssa.Const:
						if x.Value != nil && x.Value.String() == "true" && !isBackslash(l.must) {
							bad = "the escape flag is set although the character is not a backslash (under " + fmt.Sprint(prettyAll(l.must)) + ")"
						}
						// ... outside a brace group only: inside `{…}` a backslash is part of the
						// control code, and a break code there must not end the word (or the line)
						if x.Value != nil && x.Value.String() == "true" && isBackslash(l.must) {
							outside := false
							for _, ml := range l.must {
								if regexpMust(`^\+\(phi\([^)]*\)(#\d+)? == 0\)$`).MatchString(ml) {
									outside = true
								}
							}
							if !outside {
								bad = "the escape flag is set by a backslash also inside a brace group (no test of the group depth under " + fmt.Sprint(prettyAll(l.must)) + "): a break code inside `{…}` would split the group"
							}
						}
					default:
						if l.v == ssa.Value(ph) {
							if !hasLit(l.must, "+"+pt) {
								bad = "the escape flag keeps its value past a character that is neither a backslash nor the character being escaped (under " + fmt.Sprint(prettyAll(l.must)) + "): an earlier backslash would still escape a later letter"
							}
						} else {
							bad = "the escape flag takes the computed value " + pretty(c.term(gn, l.v))
						}
					}
				}
				c.Check(bad == "", "getNextWord/escape-flag", c.W.Pos(ph.Pos()), "the escape flag is set by a backslash, kept only while the escaped character is judged, cleared otherwise", bad)
			}
		}
		// the scanner's vocabulary is closed: the character it looks at is only ever compared with
		// constants (space, backslash, braces, the break letters) — never handed to a predicate
		// (unicode.IsSpace would make tabs and ideographic spaces break points and drop them)
		{
			nCmp, bad := 0, ""
			var judgeUses func(f *ssa.Function, v ssa.Value, depth int)
			judgeUses = func(f *ssa.Function, v ssa.Value, depth int) {
				if v.Referrers() == nil {
					return
				}
				ex := v
				for _, r := range *v.Referrers() {
					// a predicate of the package that itself only compares the character with the
					// vocabulary (`isLineBreakLetter(char)`) is part of the scanner
					if ci, isCall := r.(ssa.CallInstruction); isCall && depth < 2 {
						if g := callee(ci); g != nil && c.W.InRepo(g) && len(g.Blocks) > 0 && c.T(gn).purity(g) >= purReadOnly {
							idx := -1
							for i, a := range ci.Common().Args {
								if a == v {
									idx = i
								}
							}
							if idx >= 0 && idx < len(g.Params) {
								judgeUses(g, g.Params[idx], depth+1)
								continue
							}
						}
					}
					switch y := r.(type) {
					case *ssa.BinOp:
						nCmp++
						other := y.X
						if other == ssa.Value(ex) {
							other = y.Y
						}
						k, isC := intConst(other)
						if !isC {
							bad = "the character is compared with " + pretty(c.term(f, other))
						} else if !strings.ContainsRune(" \\{}lnpN", rune(k)) {
							bad = fmt.Sprintf("the character is compared with %q, which is not part of the scanner's vocabulary (space, backslash, braces, l n p N)", rune(k))
						}
					case *ssa.DebugRef:
					default:
						bad = fmt.Sprintf("the character is used by %T (%s): only comparisons with the scanner's own constants decide where a word ends", r, pretty(c.term(f, ex)))
						if ci, isCall := r.(ssa.CallInstruction); isCall {
							bad = "the character is handed to " + calleeName(ci) + ": only comparisons with the scanner's own constants decide where a word ends"
						}
					}
				}
			}
			instrs(gn, func(in ssa.Instruction) {
				ex, ok := in.(*ssa.Extract)
				if !ok || ex.Index != 2 {
					return
				}
				if _, isNext := ex.Tuple.(*ssa.Next); !isNext {
					return
				}
				judgeUses(gn, ex, 0)
			})
			c.Check(bad == "" && nCmp >= 6, "getNextWord/vocabulary", c.W.FuncPos(gn), fmt.Sprintf("the scanner compares the character with its %d constants only", nCmp), bad)
		}
		c.Check(nFlag == 1, "getNextWord/escape-flag/site", c.W.FuncPos(gn), "the word scanner has one escape flag", fmt.Sprintf("found %d boolean loop variables set by a backslash in getNextWord, expected 1", nFlag))
	}
	c.Check(nCounters >= 3, "depth-counters", "-", fmt.Sprintf("%d guarded decrements of zero-tested loop counters in package parser", nCounters), "fewer depth counters than confirmed by hand")
}

// c07e: (i) getWidth: a glyph or control code the table lists with width 0 is a zero-width
// glyph, not a missing one: every table value that is returned is read with the comma-ok form
// and returned exactly when its ok bit is set; the "default" entry is consulted only when the
// glyph is absent, the fallback only when both are. (ii) FormatText adds the cursor overlap to
// the projected width exactly when a next word exists and the line is the last of the box or
// the next word starts a new paragraph — for every kind of next word, break codes included.
func c07e(c *Ctx) {
	if fn := c.Fn("parser.FontConfig.getWidth"); fn != nil {
		n := 0
		for _, r := range c.flatReturns(fn) {
			t := r.terms[0]
			pos := c.W.Pos(r.ret.Pos())
			if !strings.Contains(t, ".Widths[") {
				continue
			}
			n++
			key := fmt.Sprintf("getWidth/table-value#%d", n)
			// the table is the table of the font that was asked for: the entry is read out of
			// fc.Fonts[<the fontID parameter>].Widths (the default of another font is not a default
			// for this one)
			c.Check(strings.Contains(t, ".Fonts[$2]") && strings.Count(t, ".Fonts[") == 1, key+"/of-the-font-asked-for", pos, "the width is read from the table of the font that was asked for", "the width "+pretty(t)+" is not read from fc.Fonts[fontID] of the font id getWidth was given: glyphs would be measured with another font's table")
			if !strings.HasSuffix(t, "#0") {
				c.Bad(key, pos, "the width "+pretty(t)+" is read from the table without its presence bit: an entry listed with width 0 is indistinguishable from a missing one")
				continue
			}
			okBit := strings.TrimSuffix(t, "#0") + "#1"
			all := len(r.cond.cs) > 0
			for _, cj := range r.cond.cs {
				if !hasLit(cj, "+"+okBit) {
					all = false
				}
			}
			c.Check(all, key, pos, "a table width is returned exactly when the table lists the entry", "the table width "+pretty(t)+" is returned on a path where its presence bit was not tested (["+r.cond.String()+"])")
			if strings.Contains(t, `["default"]`) {
				// only when the glyph itself is absent
				absent := len(r.cond.cs) > 0
				for _, cj := range r.cond.cs {
					has := false
					for _, l := range cj {
						if strings.HasPrefix(l, "-") && strings.Contains(l, ".Widths[$1]#1") {
							has = true
						}
					}
					if !has {
						absent = false
					}
				}
				c.Check(absent, key+"/default-only-when-absent", pos, "the default width is used only for glyphs the table does not list", "the font's default width can be returned for a glyph whose own entry was not tested absent by its presence bit")
			}
		}
		c.Check(n >= 2, "getWidth/table-values", c.W.FuncPos(fn), "glyph width and default width are read from the font table", fmt.Sprintf("found %d returns of a table width in getWidth, expected the glyph's and the default", n))
	}
	// (i') the chain from a word to the table: the word is measured character by character (its
	// runes, not its bytes), every character and every control code is looked up under its own
	// spelling, with the font that was asked for
	if gw := c.Fn("parser.FontConfig.getWidth"); gw != nil {
		if fn := c.Fn("parser.FontConfig.getRunePixelWidth"); fn != nil {
			calls := callsToIn(fn, gw)
			ok := len(calls) >= 1
			for _, ci := range calls {
				cv, isConv := ci.Common().Args[1].(*ssa.Convert)
				ok = ok && isConv && cv.X == ssa.Value(fn.Params[1]) && ci.Common().Args[2] == ssa.Value(fn.Params[2])
			}
			c.Check(ok, "width-chain/rune-lookup", c.W.FuncPos(fn), "a character is looked up as string(r) in the font asked for", "getRunePixelWidth does not look up string(r) with its own fontID")
			c07eReturnsLookup(c, fn, gw, "width-chain/rune-width-is-the-table-value")
		}
		if fn := c.Fn("parser.FontConfig.getControlCodePixelWidth"); fn != nil {
			calls := callsToIn(fn, gw)
			ok := len(calls) >= 1
			for _, ci := range calls {
				ok = ok && ci.Common().Args[1] == ssa.Value(fn.Params[1]) && ci.Common().Args[2] == ssa.Value(fn.Params[2])
			}
			c.Check(ok, "width-chain/control-code-lookup", c.W.FuncPos(fn), "a control code is looked up under its own spelling (braces included, as the table lists it)", "getControlCodePixelWidth does not look up the code as it is written, in the font asked for: a code the table lists would get the default width")
			c07eReturnsLookup(c, fn, gw, "width-chain/control-code-width-is-the-table-value")
		}
	}
	if fn := c.Fn("parser.FontConfig.getWordPixelWidth"); fn != nil {
		if gr := c.Fn("parser.FontConfig.getRunePixelWidth"); gr != nil {
			calls := callsToIn(fn, gr)
			ok := len(calls) >= 1
			why := "getWordPixelWidth does not measure characters"
			for _, ci := range calls {
				// the rune comes from ranging over a string
				ex, isEx := ci.Common().Args[1].(*ssa.Extract)
				fromRange := false
				if isEx && ex.Index == 2 {
					if nx, isNext := ex.Tuple.(*ssa.Next); isNext && nx.IsString {
						fromRange = true
					}
				}
				if !fromRange {
					ok = false
					why = "the character handed to getRunePixelWidth is " + pretty(c.term(fn, ci.Common().Args[1])) + ", not a rune of a range over the word: a multi-byte character would be measured as several one-byte characters the table does not list"
				}
				if ci.Common().Args[2] != ssa.Value(fn.Params[2]) {
					ok = false
					why = "characters are measured in another font than the one asked for"
				}
				if _, skip := loopSkip(fn, ci.(ssa.Instruction)); skip {
					ok = false
					why = "some characters of the word are not measured"
				}
			}
			c.Check(ok, "width-chain/word-by-runes", c.W.FuncPos(fn), "a word is measured rune by rune in the font asked for", why)
			// ... the runes are those of the word without its control codes, and the sum starts at the
			// width of the control codes (each code counted once, each ordinary character once)
			if pcc := c.Fn("parser.FontConfig.processControlCodes"); pcc != nil {
				okSplit, whySplit := false, "getWordPixelWidth does not split the word with processControlCodes"
				for _, pc := range callsToIn(fn, pcc) {
					okSplit, whySplit = true, ""
					if pc.Common().Args[1] != ssa.Value(fn.Params[1]) || pc.Common().Args[2] != ssa.Value(fn.Params[2]) {
						okSplit, whySplit = false, "processControlCodes is not given the word and the font that were asked for"
					}
					for _, ci := range calls {
						ex, _ := ci.Common().Args[1].(*ssa.Extract)
						if ex == nil {
							continue
						}
						nx, _ := ex.Tuple.(*ssa.Next)
						if nx == nil {
							continue
						}
						rg, _ := nx.Iter.(*ssa.Range)
						if rg == nil {
							continue
						}
						src, isEx := rg.X.(*ssa.Extract)
						if !isEx || src.Tuple != pc.(ssa.Value) || src.Index != 0 {
							okSplit, whySplit = false, "the characters measured are those of "+pretty(c.term(fn, rg.X))+", not of the word with its control codes removed (a code's braces and letters would be measured as text on top of the code's own width)"
						}
					}
				}
				c.Check(okSplit, "width-chain/codes-apart", c.W.FuncPos(fn), "control codes are measured apart from the ordinary characters", whySplit)
				// processControlCodes itself: every match of the code pattern is measured once, and the
				// text handed back is the word with exactly those matches removed
				okPcc, whyPcc := true, ""
				var find, repl *ssa.Call
				for _, ci := range callsIn(pcc) {
					if cl, ok := ci.(*ssa.Call); ok {
						switch calleeName(cl) {
						case "(*regexp.Regexp).FindAllStringIndex", "(*regexp.Regexp).FindAllString":
							find = cl
						case "(*regexp.Regexp).ReplaceAllString":
							repl = cl
						}
					}
				}
				if find == nil || repl == nil {
					okPcc, whyPcc = false, "cannot find the pattern search and the pattern removal in processControlCodes"
				} else {
					// the pattern is the documented shape of a control code: an opening brace, anything
					// but a closing brace, a closing brace
					if g := globalOrigin(find.Call.Args[0]); g != nil {
						pat := ""
						if initFn := g.Pkg.Func("init"); initFn != nil {
							instrs(initFn, func(in ssa.Instruction) {
								if st, ok := in.(*ssa.Store); ok && st.Addr == ssa.Value(g) {
									if call, ok := st.Val.(*ssa.Call); ok && calleeName(call) == "regexp.MustCompile" {
										pat, _ = strConst(call.Call.Args[0])
									}
								}
							})
						}
						if pat != "{[^}]*}" && pat != `\{[^}]*\}` && pat != `\{[^}]*}` {
							okPcc, whyPcc = false, "the control-code pattern is "+pretty(pat)+", expected {[^}]*} (everything between a brace and the next closing brace): codes it does not match are measured character by character"
						}
					}
					if c.term(pcc, find.Call.Args[0]) != c.term(pcc, repl.Call.Args[0]) {
						okPcc, whyPcc = false, "the codes that are measured and the codes that are removed are found with different patterns"
					}
					if find.Call.Args[1] != ssa.Value(pcc.Params[1]) || repl.Call.Args[1] != ssa.Value(pcc.Params[1]) {
						okPcc, whyPcc = false, "the pattern is not applied to the word itself"
					}
					if k, isC := intConst(find.Call.Args[2]); !isC || k >= 0 {
						okPcc, whyPcc = false, "not all matches are searched for"
					}
					if e, isC := strConst(repl.Call.Args[2]); !isC || e != "" {
						okPcc, whyPcc = false, "the codes are replaced by something instead of being removed"
					}
					if gcc := c.Fn("parser.FontConfig.getControlCodePixelWidth"); gcc != nil {
						mcalls := callsToIn(pcc, gcc)
						if len(mcalls) != 1 {
							okPcc, whyPcc = false, fmt.Sprintf("found %d calls that measure a control code, expected 1 (in the loop over the matches)", len(mcalls))
						} else {
							if _, skip := loopSkip(pcc, mcalls[0].(ssa.Instruction)); skip || loopHeaders(pcc)[mcalls[0].Block()] == nil {
								okPcc, whyPcc = false, "not every match of the code pattern is measured"
							}
							if mcalls[0].Common().Args[2] != ssa.Value(pcc.Params[2]) {
								okPcc, whyPcc = false, "control codes are measured in another font than the one asked for"
							}
							// what is measured is the match as it stands in the word: a slice of the
							// word at the match's own bounds (or the matched string itself), with no
							// call applied to it (upper-casing, trimming) and no arithmetic on the bounds
							ca := mcalls[0].Common().Args[1]
							okCode := false
							switch x := ca.(type) {
							case *ssa.Slice:
								okCode = x.X == ssa.Value(pcc.Params[1])
								for _, b := range []ssa.Value{x.Low, x.High} {
									if b == nil {
										okCode = false
										continue
									}
									if _, isBin := b.(*ssa.BinOp); isBin {
										okCode = false
									}
								}
								// from the start of the match to its end: the two numbers of one pair
								if okCode {
									lo, hi := c.term(pcc, x.Low), c.term(pcc, x.High)
									if !(strings.HasSuffix(lo, "[0]") && strings.HasSuffix(hi, "[1]") && strings.TrimSuffix(lo, "[0]") == strings.TrimSuffix(hi, "[1]")) {
										okCode = false
									}
								}
							case *ssa.UnOp, *ssa.Extract, *ssa.Index, *ssa.Phi:
								okCode = true // an element of the list of matched strings
							}
							if !okCode {
								okPcc, whyPcc = false, "the control code is looked up as "+pretty(c.term(pcc, ca))+", not as it is written in the word (the table lists codes under their own spelling)"
							}
						}
					}
				}
				// the widths add up: in the two summing loops (the codes of a word, the characters of
				// a word) what goes round is the sum so far plus the width just looked up
				for _, sf := range []*ssa.Function{pcc, fn} {
					if sf == nil {
						continue
					}
					for _, b := range sf.Blocks {
						if !isLoopHeader(b) {
							continue
						}
						for _, in := range b.Instrs {
							ph, isPhi := in.(*ssa.Phi)
							if !isPhi {
								continue
							}
							if bt, isB := ph.Type().Underlying().(*types.Basic); !isB || bt.Kind() != types.Int || strings.Contains(ph.Comment, "rangeindex") {
								continue
							}
							// the sum starts from nothing (the codes) or from the width of the codes (the
							// characters), and the sum is what the function hands back
							for i, e := range ph.Edges {
								if b.Dominates(b.Preds[i]) {
									continue
								}
								okStart := false
								if k, isC := intConst(e); isC && k == 0 {
									okStart = true
								}
								if ex, isEx := e.(*ssa.Extract); isEx && ex.Index == 1 {
									if call, isCall := ex.Tuple.(*ssa.Call); isCall && callee(call) == pcc {
										okStart = true
									}
								}
								c.Check(okStart, fmt.Sprintf("width-chain/sum-starts-right/%s/%s", sf.Name(), flagName(c.term(sf, ph))), c.W.Pos(ph.Pos()), "the sum starts at 0 or at the width of the word's control codes", sf.Name()+" starts its sum at "+pretty(c.term(sf, e))+": expected 0, or the width processControlCodes found")
							}
							for k, r := range returnsOf(sf) {
								var res ssa.Value
								for _, x := range r.Results {
									if bt, isB := x.Type().Underlying().(*types.Basic); isB && bt.Kind() == types.Int {
										res = x
									}
								}
								c.Check(res == ssa.Value(ph), fmt.Sprintf("width-chain/sum-is-returned/%s#%d", sf.Name(), k), c.W.Pos(r.Pos()), "the width handed back is the sum", sf.Name()+" hands back "+pretty(c.term(sf, res))+" instead of the sum of the widths it has added up")
							}
							for i, e := range ph.Edges {
								if !b.Dominates(b.Preds[i]) {
									continue
								}
								okSum := false
								if bo, isBo := e.(*ssa.BinOp); isBo && bo.Op == token.ADD && (bo.X == ssa.Value(ph) || bo.Y == ssa.Value(ph)) {
									okSum = true
								}
								if e == ssa.Value(ph) {
									okSum = true
								}
								c.Check(okSum, fmt.Sprintf("width-chain/widths-add-up/%s/%s#%d", sf.Name(), flagName(c.term(sf, ph)), i), c.W.Pos(ph.Pos()), "the loop carries the sum so far plus the width just found", sf.Name()+" carries "+pretty(c.term(sf, e))+" round its loop instead of adding to the width so far: only the last code or character of a word would count")
							}
						}
					}
				}
				c.Check(okPcc, "width-chain/control-codes-found-and-removed", c.W.FuncPos(pcc), "every control code of the word is measured once and removed from the text that is measured by characters", whyPcc)
			}
		}
	}
	// (ii) cursor room
	if fn := c.Fn("parser.FontConfig.FormatText"); fn != nil {
		n := 0
		instrs(fn, func(in ssa.Instruction) {
			bo, ok := in.(*ssa.BinOp)
			if !ok || bo.Op != token.ADD {
				return
			}
			if c.term(fn, bo.Y) != "$3" && c.term(fn, bo.X) != "$3" {
				return // not "+ cursorOverlapWidth"
			}
			n++
			d := c.PC(fn).canonOf(c.PC(fn).At(bo.Block()))
			// keep only what is said about the next word and the line number
			var nextWord, lineNum string
			for _, a := range dnfAtoms(d) {
				if strings.HasPrefix(a, "(0 < builtin:len(") && strings.Contains(a, "getNextWord") {
					nextWord = strings.TrimSuffix(strings.TrimPrefix(a, "(0 < builtin:len("), "))")
				}
				if strings.HasSuffix(a, "+1 < $5)") {
					lineNum = strings.TrimSuffix(strings.TrimPrefix(a, "("), "+1 < $5)")
				}
			}
			pos := c.W.Pos(bo.Pos())
			if nextWord == "" || lineNum == "" {
				c.Bad("cursor-room/condition", pos, "the cursor overlap is added under ["+pretty(d.String())+"], which does not test that a next word exists and whether the line is the last of the box")
				return
			}
			rel := dropAtoms(d, func(a string) bool {
				return !strings.Contains(a, nextWord) && a != "("+lineNum+"+1 < $5)"
			})
			has := "+(0 < builtin:len(" + nextWord + "))"
			last := "-(" + lineNum + "+1 < $5)"
			para := "+(*parser.FontConfig).isParagraphBreak($0," + nextWord + ")"
			want := mkDNF([]string{has, last}, []string{has, para})
			// ... and nothing else: relative to where the word's width is measured (the same arm of
			// the loop), the addition happens under exactly that condition — no further conjunct
			// over other variables (numLines > 1, a width threshold)
			if gw := c.Fn("parser.FontConfig.getWordPixelWidth"); gw != nil {
				for _, call := range callsToIn(fn, gw) {
					if !instrDominates(call.(ssa.Instruction), bo) {
						continue
					}
					base := c.PC(fn).canonOf(c.PC(fn).At(call.Block()))
					if !dnfEquiv(d, dnfAnd(base, want)) {
						c.Bad("cursor-room/no-further-condition", pos, "the cursor overlap is added under ["+pretty(d.String())+"], which is not (the word is measured) && (next word exists) && (last line of the box || next word is \\p): a further condition decides whether room for the prompt is reserved")
					} else {
						c.OK("cursor-room/no-further-condition", pos, "no further condition on the cursor room")
					}
				}
			}
			c.Check(dnfEquiv(rel, want), "cursor-room/condition", pos, "cursor room is reserved exactly when a next word exists and (the line is the last of the box or the next word is a paragraph break)", "the cursor overlap is added under ["+pretty(rel.String())+"], expected exactly (next word exists) && (last line of the box || next word is \\p): a line that shows the prompt could exceed the width, or a word could wrap although it fits")
		})
		c.Check(n == 1, "cursor-room/site", c.W.FuncPos(fn), "one place adds the cursor overlap to the projected width", fmt.Sprintf("found %d additions of cursorOverlapWidth, expected 1", n))
	}
}

// c07f: the layout rules (C07.a, C07.b, C07.e) are stated in terms of isLineBreak /
// isParagraphBreak / isAutoLineBreak / shouldUseLineFeed, which the path conditions keep as
// opaque vocabulary. Their definitions are checked here, as sets: a word is a break code iff
// it is one of \n \l \p \N; the paragraph break is \p; the automatic break is \N; the line
// feed is used from the last line of the box on (line number >= numLines-1).
func c07f(c *Ctx) {
	sets := []struct {
		fn   string
		want []string
		what string
	}{
		{"parser.FontConfig.isLineBreak", []string{`\N`, `\l`, `\n`, `\p`}, `a word is a break code iff it is \n, \l, \p or \N`},
		{"parser.FontConfig.isParagraphBreak", []string{`\p`}, `the paragraph break is \p`},
		{"parser.FontConfig.isAutoLineBreak", []string{`\N`}, `the automatic break is \N`},
	}
	for _, s := range sets {
		fn := c.Fn(s.fn)
		if fn == nil {
			continue
		}
		sum := c.PC(fn).boolSummaryAny(fn)
		pos := c.W.FuncPos(fn)
		if sum == nil {
			c.Unk(fn.Name()+"/definition", pos, "cannot summarise "+fn.Name())
			continue
		}
		var wantCs [][]string
		for _, w := range s.want {
			wantCs = append(wantCs, []string{fmt.Sprintf("+($1 == %q)", w)})
		}
		want := mkDNF(wantCs...)
		got := dnf{cs: sum.pos}
		gotNeg := dnf{cs: sum.neg}
		// the words that matter: every constant the definition or the expectation mentions, and one other word
		vals := map[string]bool{"@other": true}
		for _, at := range dnfAtoms(got, want) {
			if strings.HasPrefix(at, `($1 == "`) && strings.HasSuffix(at, `")`) {
				vals[strings.TrimSuffix(strings.TrimPrefix(at, `($1 == "`), `")`)] = true
			}
		}
		var dom []string
		for v := range vals {
			dom = append(dom, v)
		}
		sort.Strings(dom)
		domains := map[string][]string{"$1": dom}
		ok := dnfEquivDomain(got, want, domains) && dnfEquivDomain(orDNF(got, gotNeg), mkDNF([]string{}), domains) && dnfEquivDomain(andDNF(got, gotNeg), dnf{}, domains)
		c.Check(ok, fn.Name()+"/definition", pos, s.what, fmt.Sprintf("%s is true under %s, expected exactly for the words %q", fn.Name(), got.String(), s.want))
	}
	// (when the predicate was written out in place there is nothing to check here: C07.b reads the test itself)
	if fn := c.W.Method("parser", "FontConfig", "shouldUseLineFeed"); fn != nil && len(fn.Blocks) > 0 {
		sum := c.PC(fn).boolSummaryAny(fn)
		ok := sum != nil && len(sum.pos) == 1 && len(sum.pos[0]) == 1 && len(sum.neg) == 1 && len(sum.neg[0]) == 1
		if ok {
			// curLineNum >= numLines-1, in either spelling
			p0, n0 := sum.pos[0][0], sum.neg[0][0]
			ok = (p0 == "+($2-1 <= $1)" && n0 == "-($2-1 <= $1)") || (p0 == "-"+ltTerm("$1", "$2-1") && n0 == "+"+ltTerm("$1", "$2-1"))
		}
		got := ""
		if sum != nil {
			got = fmt.Sprint(sum.pos)
		}
		c.Check(ok, "shouldUseLineFeed/definition", c.W.FuncPos(fn), `\l is used from the last line of the box on: line number >= numLines-1`, "shouldUseLineFeed is true under "+got+", expected exactly curLineNum >= numLines-1")
	}
}

// c07eReturnsLookup: a width helper hands back what getWidth found, as it is (a constant for the
// built-in test font): no clamping, rounding or scaling of a table value — a glyph listed with
// width 0 has width 0.
func c07eReturnsLookup(c *Ctx, fn, gw *ssa.Function, key string) {
	ok, why := true, ""
	n := 0
	for _, r := range returnsOf(fn) {
		var leaves []ssa.Value
		phiLeaves(r.Results[0], map[ssa.Value]bool{}, &leaves)
		for _, lf := range leaves {
			n++
			if call, isCall := lf.(*ssa.Call); isCall && callee(call) == gw {
				continue
			}
			if k, isC := lf.(*ssa.Const); isC && k.Value != nil {
				// a constant only for the built-in test font
				okConst := true
				for _, alt := range c.resultAlts(fn, r.Results[0]) {
					if alt.term != k.Value.String() {
						continue
					}
					must := append(append([]string{}, alt.must...), c.mustLits(fn, r.Block())...)
					test := false
					for _, l := range must {
						if strings.HasPrefix(l, "+($2 == ") {
							test = true
						}
					}
					okConst = okConst && test
				}
				if okConst {
					continue
				}
				ok, why = false, fn.Name()+" can return the constant "+k.Value.String()+" for a font other than the built-in test font: table values (0 included) must come back unchanged"
				continue
			}
			ok, why = false, fn.Name()+" returns "+pretty(c.term(fn, lf))+", not the width getWidth found: table values (0 included) must come back unchanged"
		}
	}
	c.Check(ok && n > 0, key, c.W.FuncPos(fn), "the helper returns the table's width unchanged", why)
}
