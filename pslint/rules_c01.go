package main

// C01 — structured control flow is lowered to gotos without changing behaviour.
// Decided: conformance of the lowering code to the chunk scheme (DESIGN §4 C01.a–g).

import (
	"fmt"
	"go/token"
	"go/types"
	"regexp"
	"sort"
	"strconv"
	"strings"

	"golang.org/x/tools/go/ssa"
)

func init() {
	register(&Rule{ID: "C01.a", Doc: "every statement type the parser can put into a block is dispatched by the emitter work list", Floor: 8, Run: c01a})
	register(&Rule{ID: "C01.b", Doc: "every finalised chunk accounts for all statements of the chunk it was cut from", Floor: 9, Run: c01b})
	register(&Rule{ID: "C01.c", Doc: "every chunk gets a fresh id from its own counter increment (or copies the id of the chunk it finalises)", Floor: 20, Run: c01c})
	register(&Rule{ID: "C01.d", Doc: "every newly created chunk is enqueued exactly once on every non-error path; every dequeued chunk is finalised", Floor: 26, Run: c01d})
	register(&Rule{ID: "C01.e", Doc: "return-point threading of if / while / do-while / break / continue / split (value-origin templates)", Floor: 42, Run: c01e})
	register(&Rule{ID: "C01.f", Doc: "branch protocol: goto iff dest is neither next nor 'leave', terminator iff 'leave', fall through iff dest is next", Floor: 18, Run: c01f})
	register(&Rule{ID: "C01.h", Doc: "parsers keep what they parse: every AST piece returned by a parse call is stored, appended, handed on or returned on every successful path", Floor: 30, Run: c01h})
	register(&Rule{ID: "C01.g", Doc: "end/return early exit only as last statement; terminator kind follows the command name", Floor: 3, Run: c01g})
}

// ---- helpers shared by the emitter rules ---------------------------------------------

var emitterCtors = []string{
	"emitter.createIfStatementChunks", "emitter.createWhileStatementChunks", "emitter.createDoWhileStatementChunks",
	"emitter.createSwitchStatementChunks", "emitter.splitBooleanExpressionChunks",
}

// chunkInfo describes one &chunk{...} allocation.
// valInstr: an SSA value that is also an instruction (an allocation or a call).
type valInstr interface {
	ssa.Value
	ssa.Instruction
}

type chunkInfo struct {
	fn      *ssa.Function
	a       valInstr      // where the chunk is made in fn: the composite literal, or the call of a constructor helper
	ctor    *ssa.Function // non-nil: made by this constructor helper (fields rewritten into fn's terms)
	ctorIdx int           // which result of the helper
	idx     int
	id      string // canonical terms at the point where the chunk is complete
	retID   string
	stmts   string
	idLoad  *ssa.UnOp       // load of the counter that feeds the id (nil otherwise)
	idDef   ssa.Instruction // reaching definition of that load
}

func (c *Ctx) chunkAllocs(fn *ssa.Function) []chunkInfo {
	var out []chunkInfo
	t := c.T(fn)
	for i, a := range allocsOf(fn, "emitter", "chunk") {
		use := lastUse(a)
		ci := chunkInfo{fn: fn, a: a, idx: i}
		ci.id = c.fieldAtUse(fn, a, "id", use)
		ci.retID = c.fieldAtUse(fn, a, "returnID", use)
		ci.stmts = c.fieldAtUse(fn, a, "statements", use)
		for _, ref := range *a.Referrers() {
			if fa, ok := ref.(*ssa.FieldAddr); ok && fieldName(fa.X.Type(), fa.Field) == "id" {
				for _, r2 := range *fa.Referrers() {
					if st, ok := r2.(*ssa.Store); ok && st.Addr == ssa.Value(fa) {
						if ld, ok := st.Val.(*ssa.UnOp); ok {
							ci.idLoad = ld
							ci.idDef = t.loadDef[ld]
						}
					}
				}
			}
		}
		out = append(out, ci)
	}
	// chunks made by a constructor helper: `newBodyChunk(counter, returnID, statements)` is a
	// chunk literal written once; its fields are the helper's, rewritten through the call
	for _, cx := range callsIn(fn) {
		call, ok := cx.(*ssa.Call)
		if !ok {
			continue
		}
		g := callee(call)
		if g == nil || g == fn || !c.W.InRepo(g) || len(g.Blocks) == 0 || chunkCtorBusy[g] {
			continue
		}
		res := g.Signature.Results()
		allChunks := res.Len() >= 1
		for k := 0; k < res.Len(); k++ {
			if !typeIs(res.At(k).Type(), "emitter", "chunk") {
				allChunks = false
			}
		}
		if !allChunks {
			continue
		}
		chunkCtorBusy[g] = true
		inner := c.chunkAllocs(g)
		delete(chunkCtorBusy, g)
		if len(inner) != res.Len() {
			continue
		}
		// result k is the same literal at every return
		byRes := make([]*chunkInfo, res.Len())
		okRes := true
		for _, r := range returnsOf(g) {
			for k, rv := range r.Results {
				var hit *chunkInfo
				for i := range inner {
					if inner[i].ctor == nil && rv == ssa.Value(inner[i].a) {
						hit = &inner[i]
					}
				}
				if hit == nil || (byRes[k] != nil && byRes[k] != hit) {
					okRes = false
				} else {
					byRes[k] = hit
				}
			}
		}
		if !okRes {
			continue
		}
		// the value each result has in fn
		resVal := make([]valInstr, res.Len())
		if res.Len() == 1 {
			resVal[0] = call
		} else if call.Referrers() != nil {
			for _, r := range *call.Referrers() {
				if ex, ok := r.(*ssa.Extract); ok && ex.Index < len(resVal) {
					resVal[ex.Index] = ex
				}
			}
		}
		rewrite := func(t string) string {
			// ids of sibling chunks made by the same call are spelled as fn sees them
			for k, in := range byRes {
				if in != nil && resVal[k] != nil && in.id != "" && in.idLoad != nil && counterIncrement(in.idDef) {
					t = strings.ReplaceAll(t, in.id, "\x00"+strconv.Itoa(k)+"\x00")
				}
			}
			t = c.substParams(fn, call, t)
			for k := range byRes {
				if resVal[k] != nil {
					t = strings.ReplaceAll(t, "\x00"+strconv.Itoa(k)+"\x00", c.term(fn, resVal[k])+".id")
				}
			}
			return t
		}
		for k, in := range byRes {
			if in == nil || resVal[k] == nil {
				continue
			}
			ci := chunkInfo{fn: fn, a: resVal[k], ctor: g, ctorIdx: k}
			ci.id = c.term(fn, resVal[k]) + ".id"
			if !(in.idLoad != nil && counterIncrement(in.idDef)) && strings.HasPrefix(in.id, "$") && strings.HasSuffix(in.id, ".id") {
				// the helper copies an id it was given (a finalisation copy), it does not allocate one
				ci.id = rewrite(in.id)
			}
			ci.retID = rewrite(in.retID)
			ci.stmts = rewrite(in.stmts)
			out = append(out, ci)
		}
	}
	sort.SliceStable(out, func(i, j int) bool { return out[i].a.Pos() < out[j].a.Pos() })
	for i := range out {
		out[i].idx = i
	}
	return out
}

var chunkCtorBusy = map[*ssa.Function]bool{}

// chunkLastUse: a point at which the chunk's fields have their final values.
func chunkLastUse(ci chunkInfo) ssa.Instruction {
	if a, ok := ci.a.(*ssa.Alloc); ok {
		return lastUse(a)
	}
	return ci.a
}

// chunkRole gives a stable, position-free name to a chunk allocation: by what its
// statements field holds.
func chunkRole(ci chunkInfo) string {
	s := ci.stmts
	switch {
	case s == "zero" || s == "nil":
		return "chunk[no statements]"
	case strings.HasPrefix(s, "new#") && strings.Contains(s, "[0]ast.Statement"):
		return "chunk[empty]"
	}
	s = regexp.MustCompile(`phi\(b\d+:([A-Za-z0-9_]+)\)#\d+`).ReplaceAllString(s, "φ$1")
	return "chunk[" + s + "]"
}

var phiRe = regexp.MustCompile(`phi\(b\d+:([A-Za-z0-9_]+)\)#\d+`)

// pretty removes block numbers from phi names (for messages and keys).
func pretty(s string) string { return phiRe.ReplaceAllString(s, "φ$1") }

// ---- C01.a -----------------------------------------------------------------------------

func c01a(c *Ctx) {
	root := c.Fn("parser.Parser.parseStatement")
	emit := c.Fn("emitter.Emitter.emitScriptStatement")
	if root == nil || emit == nil {
		return
	}
	stmtIface := c.W.Named("ast", "Statement")
	if stmtIface == nil {
		c.Unk("anchor:ast.Statement", "-", "ast.Statement not found")
		return
	}
	// P: concrete types converted to ast.Statement in functions reachable from parseStatement
	reach := map[*ssa.Function]bool{}
	var walk func(f *ssa.Function)
	walk = func(f *ssa.Function) {
		if f == nil || reach[f] || !c.W.InRepo(f) {
			return
		}
		reach[f] = true
		for _, ci := range callsIn(f) {
			for _, g := range c.Eff().targets(ci) {
				walk(g)
			}
		}
		for _, anon := range f.AnonFuncs {
			walk(anon)
		}
	}
	walk(root)
	produced := map[string]string{}
	for f := range reach {
		if c.W.PkgShort(f) != "parser" {
			continue
		}
		instrs(f, func(in ssa.Instruction) {
			mi, ok := in.(*ssa.MakeInterface)
			if !ok || !types.Identical(mi.Type(), stmtIface) {
				return
			}
			n := namedOf(mi.X.Type())
			if n == nil {
				return
			}
			if _, seen := produced[n.Obj().Name()]; !seen {
				produced[n.Obj().Name()] = c.W.Pos(mi.Pos())
			}
		})
	}
	// statements put into blocks come only from parseStatement's result; restrict P to the
	// types converted inside parseStatement / tryParseLabelStatement / parsePoryswitch* (block producers)
	handled := map[string]bool{}
	instrs(emit, func(in ssa.Instruction) {
		ta, ok := in.(*ssa.TypeAssert)
		if !ok || !ta.CommaOk {
			return
		}
		if n := namedOf(ta.AssertedType); n != nil {
			handled[n.Obj().Name()] = true
		}
	})
	var names []string
	for n := range produced {
		names = append(names, n)
	}
	sort.Strings(names)
	for _, n := range names {
		if n == "BlockStatement" || n == "ScriptStatement" {
			continue
		}
		c.Check(handled[n], "stmt-type:"+n, produced[n], "ast."+n+" is dispatched by the work list of emitScriptStatement", "ast."+n+" can be placed in a block by the parser but emitScriptStatement has no arm for it (it would be silently dropped)")
	}
}

// ---- C01.c -----------------------------------------------------------------------------

func counterIncrement(st ssa.Instruction) bool {
	s, ok := st.(*ssa.Store)
	if !ok {
		return false
	}
	bo, ok := s.Val.(*ssa.BinOp)
	if !ok || bo.Op.String() != "+" {
		return false
	}
	k, ok := intConst(bo.Y)
	if !ok || k != 1 {
		return false
	}
	ld, ok := bo.X.(*ssa.UnOp)
	return ok && ld.X == s.Addr
}

// c01cOneCounter: all the ids of a script come from one counter. The chunk makers take the counter
// as a *int; what they are handed is the counter their caller was handed, or — where the chain
// starts — the address of a local int that is set to a constant and otherwise only incremented.
// Through a counter pointer nothing but `*p++` is ever written.
func c01cOneCounter(c *Ctx) {
	isIntPtr := func(t types.Type) bool {
		p, ok := t.Underlying().(*types.Pointer)
		if !ok {
			return false
		}
		b, ok := p.Elem().Underlying().(*types.Basic)
		return ok && b.Kind() == types.Int
	}
	nHand, nRoots, nWrites := 0, 0, 0
	for _, fn := range c.W.FuncsOf("emitter") {
		if isTestFunc(c.W, fn) || len(fn.Blocks) == 0 {
			continue
		}
		var own *ssa.Parameter
		for _, p := range fn.Params {
			if isIntPtr(p.Type()) {
				own = p
			}
		}
		// writes through the counter
		if own != nil && own.Referrers() != nil {
			for _, r := range *own.Referrers() {
				if st, ok := r.(*ssa.Store); ok && st.Addr == ssa.Value(own) {
					nWrites++
					c.Check(counterIncrement(st), fmt.Sprintf("one-counter/%s/only-incremented#%d", c.W.FuncKey(fn), nWrites), c.W.Pos(st.Pos()), "the counter is incremented by one", c.W.FuncKey(fn)+" writes "+pretty(c.term(fn, st.Val))+" through the chunk counter: the counter only ever goes up by one, else two chunks could get the same id")
				}
			}
		}
		var roots []*ssa.Alloc
		for _, ci := range callsIn(fn) {
			g := callee(ci)
			if g == nil || !c.W.InRepo(g) || c.W.PkgShort(g) != "emitter" {
				continue
			}
			for _, a := range ci.Common().Args {
				if !isIntPtr(a.Type()) {
					continue
				}
				nHand++
				key := fmt.Sprintf("one-counter/%s->%s@%d", fn.Name(), g.Name(), c.T(fn).callOrd[ci])
				if own != nil {
					c.Check(a == ssa.Value(own), key, c.W.Pos(ci.Pos()), "the counter that was handed in is handed on", fn.Name()+" hands "+pretty(c.term(fn, a))+" to "+g.Name()+" as the chunk counter instead of the counter it was given: ids would be drawn from two sources and could collide")
					continue
				}
				al, isA := a.(*ssa.Alloc)
				c.Check(isA, key, c.W.Pos(ci.Pos()), "the counter is a local of the function that lowers the script", fn.Name()+" hands "+pretty(c.term(fn, a))+" to "+g.Name()+" as the chunk counter: expected the address of its local counter")
				if isA {
					seen := false
					for _, r := range roots {
						if r == al {
							seen = true
						}
					}
					if !seen {
						roots = append(roots, al)
					}
				}
			}
		}
		if own == nil && len(roots) > 0 {
			nRoots++
			c.Check(len(roots) == 1, "one-counter/"+c.W.FuncKey(fn)+"/single", c.W.FuncPos(fn), "one counter per script", fmt.Sprintf("%s hands %d different local counters to the chunk makers", fn.Name(), len(roots)))
			for _, r := range *roots[0].Referrers() {
				st, ok := r.(*ssa.Store)
				if !ok || st.Addr != ssa.Value(roots[0]) {
					continue
				}
				_, isC := st.Val.(*ssa.Const)
				nWrites++
				c.Check(isC || counterIncrement(st), fmt.Sprintf("one-counter/%s/only-incremented#%d", c.W.FuncKey(fn), nWrites), c.W.Pos(st.Pos()), "the counter starts at a constant and is only incremented", fn.Name()+" sets its chunk counter to "+pretty(c.term(fn, st.Val)))
			}
		}
	}
	c.Check(nHand >= 15 && nRoots >= 1 && nWrites >= 10, "one-counter/census", "-", fmt.Sprintf("%d hand-overs of the counter from %d script lowerer(s), %d writes through it", nHand, nRoots, nWrites), fmt.Sprintf("only %d hand-overs of the counter, %d starting points, %d writes found", nHand, nRoots, nWrites))
}

func c01c(c *Ctx) {
	c01cOneCounter(c)
	for _, fn := range c.W.FuncsOf("emitter") {
		infos := c.chunkAllocs(fn)
		if len(infos) == 0 {
			continue
		}
		loops := loopHeaders(fn)
		byDef := map[ssa.Instruction][]chunkInfo{}
		for _, ci := range infos {
			key := fmt.Sprintf("%s/%s#%d.id", c.W.FuncKey(fn), chunkRole(ci), ci.idx)
			pos := c.W.Pos(ci.a.Pos())
			switch {
			case ci.ctor != nil && strings.HasPrefix(ci.id, c.term(fn, ci.a)):
				// made by a constructor helper: the helper's own literal is checked when the loop
				// reaches the helper; here: it takes its id from a counter increment of its own
				okC := false
				for _, in := range c.chunkAllocs(ci.ctor) {
					if in.ctor != nil {
						continue
					}
					if in.idLoad != nil && counterIncrement(in.idDef) {
						okC = true
					}
					// the id is a parameter of the helper: the caller must pass a counter value it
					// incremented just before
					if k := paramIndexOfTerm(in.id); k >= 0 {
						if call, isCall := ci.a.(*ssa.Call); isCall && k < len(call.Call.Args) {
							if ld, isLoad := call.Call.Args[k].(*ssa.UnOp); isLoad {
								def := c.T(fn).loadDef[ld]
								if counterIncrement(def) && instrDominates(def, call) && loops[def.Block()] == loops[call.Block()] {
									okC = true
								}
							}
						}
					}
				}
				c.Check(okC, key, pos, "made by "+ci.ctor.Name()+", which takes a fresh id from the counter for every chunk it makes", "the constructor helper "+ci.ctor.Name()+" does not give the chunk a freshly incremented counter value as id")
			case ci.id == "0":
				c.OK(key, pos, "initial chunk id 0")
			case strings.HasSuffix(ci.id, ".id") && !strings.Contains(ci.id, "new#"):
				// finalisation copy: must be the id of the chunk whose statements are copied
				base := strings.TrimSuffix(ci.id, ".id")
				c.Check(strings.HasPrefix(ci.stmts, base+".statements"), key, pos, "finalisation copy keeps the id of the chunk it is cut from ("+pretty(ci.id)+")", "chunk copies id "+pretty(ci.id)+" but its statements come from "+pretty(ci.stmts))
			case ci.ctor == nil && paramIndexOfTerm(ci.id) >= 0:
				// parameter: callers must pass a freshly incremented counter value
				ok := true
				why := ""
				n := 0
				pk := paramIndexOfTerm(ci.id)
				for _, call := range c.W.callsTo(fn) {
					n++
					if pk >= len(call.Common().Args) {
						ok = false
						continue
					}
					arg := call.Common().Args[pk]
					ld, isLoad := arg.(*ssa.UnOp)
					caller := call.Parent()
					ct := c.T(caller)
					if !isLoad || !counterIncrement(ct.loadDef[ld]) || !instrDominates(ct.loadDef[ld], call) {
						ok = false
						why = "caller " + c.W.FuncKey(caller) + " passes id " + ct.Term(arg) + " which is not a counter value incremented just before the call"
					}
				}
				c.Check(ok && n > 0, key, pos, fmt.Sprintf("id parameter: all %d callers pass a freshly incremented counter", n), why)
			case ci.idLoad != nil && counterIncrement(ci.idDef):
				st := ci.idDef.(*ssa.Store)
				if loops[st.Block()] != loops[ci.a.Block()] {
					c.Bad(key, pos, "the counter increment feeding this id is not executed once per allocation (different loop nesting)")
				} else {
					byDef[ci.idDef] = append(byDef[ci.idDef], ci)
					c.OK(key, pos, "id = counter value after its own increment ("+pretty(ci.id)+")")
				}
			default:
				c.Bad(key, pos, "chunk id "+pretty(ci.id)+" is neither a freshly incremented counter value, the id of the chunk being finalised, nor the entry id 0")
			}
		}
		for def, cs := range byDef {
			if len(cs) > 1 {
				var roles []string
				for _, ci := range cs {
					roles = append(roles, fmt.Sprintf("%s#%d at %s", chunkRole(ci), ci.idx, c.W.Pos(ci.a.Pos())))
				}
				c.Bad(fmt.Sprintf("%s/shared-increment", c.W.FuncKey(fn)), c.W.Pos(def.Pos()), "one counter increment feeds the ids of several chunks (duplicate chunk id): "+strings.Join(roles, "; "))
			}
		}
	}
}

// ---- C01.d -----------------------------------------------------------------------------

// appendOf: the builtin append call(s) whose variadic slice holds v.
func appendsHolding(v ssa.Value) []*ssa.Call {
	var out []*ssa.Call
	for _, ref := range *v.Referrers() {
		st, ok := ref.(*ssa.Store)
		if !ok || st.Val != v {
			continue
		}
		ia, ok := st.Addr.(*ssa.IndexAddr)
		if !ok {
			continue
		}
		arr, ok := ia.X.(*ssa.Alloc)
		if !ok {
			continue
		}
		for _, r2 := range *arr.Referrers() {
			sl, ok := r2.(*ssa.Slice)
			if !ok {
				continue
			}
			for _, r3 := range *sl.Referrers() {
				if call, ok := r3.(*ssa.Call); ok && calleeName(call) == "builtin:append" {
					out = append(out, call)
				}
			}
		}
	}
	return out
}

func c01d(c *Ctx) {
	chunkT := c.W.Named("emitter", "chunk")
	if chunkT == nil {
		c.Unk("anchor:emitter.chunk", "-", "type emitter.chunk not found")
		return
	}
	isChunkSlice := func(t types.Type) bool {
		sl, ok := t.Underlying().(*types.Slice)
		return ok && typeIs(sl.Elem(), "emitter", "chunk")
	}
	// lists that are walked in step stay in step: a chunk made per element of an AST list (one body
	// chunk per elif) is made for every element — the conditions are later paired with the bodies
	// by position, so a skipped element shifts every later pair
	for _, name := range emitterCtors[:3] {
		fn := c.Fn(name)
		if fn == nil {
			continue
		}
		for i, a := range allocsOf(fn, "emitter", "chunk") {
			if loopHeaders(fn)[a.Block()] == nil {
				continue
			}
			w, skip := loopSkip(fn, a)
			c.Check(!skip, fmt.Sprintf("%s/chunk#%d/every-element", fn.Name(), i), c.W.Pos(a.Pos()), "the per-element chunk is made in every iteration", "the chunk made per list element is not made in every iteration (an iteration can reach "+c.nearPos(w)+" without it): bodies and conditions, which are paired by position afterwards, get out of step")
		}
	}
	fns := append([]string{}, emitterCtors...)
	fns = append(fns, "emitter.chunk.splitChunkForBranch")
	for _, name := range fns {
		fn := c.Fn(name)
		if fn == nil {
			continue
		}
		var news []ssa.Value
		for _, ci := range c.chunkAllocs(fn) {
			news = append(news, ci.a)
		}
		if cp := c.W.Method("emitter", "chunk", "createPostLogicChunk"); cp != nil {
			for _, call := range callsToIn(fn, cp) {
				news = append(news, call.(ssa.Value))
			}
		}
		infos := c.chunkAllocs(fn)
		for i, v := range news {
			role := "createPostLogicChunk result"
			if i < len(infos) {
				role = chunkRole(infos[i]) + fmt.Sprintf("#%d", infos[i].idx)
			}
			key := name + "/" + role + "/enqueued"
			pos := c.W.Pos(v.Pos())
			var apps []*ssa.Call
			for _, ap := range appendsHolding(v) {
				if isChunkSlice(ap.Type()) {
					// only the work list (first arg flows from the remainingChunks parameter / results), not helper slices
					apps = append(apps, ap)
				}
			}
			// work-list appends: those whose result reaches a return value or a work-list phi
			var wl []*ssa.Call
			for _, ap := range apps {
				if reachesReturn(ap, 0) {
					wl = append(wl, ap)
				}
			}
			if len(wl) == 0 {
				c.Bad(key, pos, "new chunk is never appended to the work list that the function returns")
				continue
			}
			if len(wl) > 1 {
				c.Bad(key, pos, fmt.Sprintf("new chunk is appended to the work list at %d places", len(wl)))
				continue
			}
			// must-pass-through: no path from the allocation to a return avoids the append
			inst := v.(ssa.Instruction)
			_, escapes := existsPath(pathQuery{from: after(inst), avoid: func(in ssa.Instruction) bool { return in == ssa.Instruction(wl[0]) }, exitIs: true})
			c.Check(!escapes, key, pos, "appended exactly once on every path to return", "a path from the allocation to a return does not append the chunk to the work list")
		}
		// the returned work list must derive from the incoming one
		for _, ret := range returnsOf(fn) {
			if len(ret.Results) > 0 && isChunkSlice(ret.Results[0].Type()) {
				ok := derivesFromParamSlice(ret.Results[0], fn, map[ssa.Value]bool{})
				c.Check(ok, name+"/returned-worklist", c.W.Pos(ret.Pos()), "returned work list extends the incoming one", "returned work list does not derive from the incoming work list on every path (enqueued chunks lost)")
			}
		}
	}
	// work-list threading: a call that is handed the work list and hands back the extended one
	// (constructors, splitChunkForBranch) defines *the* work list from then on: no merge after
	// the call may bring the list back to a value that does not contain the call's result
	// (`tmp, _ := split(...); if cond { remainingChunks = tmp }` drops the new chunk, whose id
	// was already taken from the counter, on the other path)
	if fn := c.Fn("emitter.Emitter.emitScriptStatement"); fn != nil {
		nCalls := 0
		for _, ci := range callsIn(fn) {
			call, ok := ci.(*ssa.Call)
			if !ok || callee(call) == nil || !c.W.InRepo(callee(call)) {
				continue
			}
			takes := false
			for _, a := range call.Call.Args {
				if isChunkSlice(a.Type()) {
					takes = true
				}
			}
			res := call.Call.Signature().Results()
			if !takes || res.Len() == 0 || !isChunkSlice(res.At(0).Type()) {
				continue
			}
			nCalls++
			var result ssa.Value = call
			if res.Len() > 1 {
				result = nil
				for _, r := range *call.Referrers() {
					if ex, ok := r.(*ssa.Extract); ok && ex.Index == 0 {
						result = ex
					}
				}
			}
			key := fmt.Sprintf("emitScriptStatement/worklist-after[%s#%d]", callee(call).Name(), nCalls)
			pos := c.W.Pos(call.Pos())
			if result == nil {
				c.Bad(key, pos, "the work list returned by "+callee(call).Name()+" is discarded")
				continue
			}
			// blocks reachable after the call without going round the work-list loop
			head := loopHeaders(fn)[call.Block()]
			reach := map[*ssa.BasicBlock]bool{}
			var walk func(b *ssa.BasicBlock)
			walk = func(b *ssa.BasicBlock) {
				for _, s := range b.Succs {
					if s == head || reach[s] {
						continue
					}
					reach[s] = true
					walk(s)
				}
			}
			walk(call.Block())
			memo := map[ssa.Value]bool{}
			var derives func(v ssa.Value, depth int) bool
			derives = func(v ssa.Value, depth int) bool {
				if v == result {
					return true
				}
				if d, ok := memo[v]; ok {
					return d
				}
				memo[v] = false
				if depth > 12 {
					return false
				}
				out := false
				switch x := v.(type) {
				case *ssa.Phi:
					out = true
					for i, e := range x.Edges {
						pred := x.Block().Preds[i]
						if pred != call.Block() && !reach[pred] {
							continue // edge not taken after the call
						}
						if !derives(e, depth+1) {
							out = false
						}
					}
				case *ssa.Call:
					if calleeName(x) == "builtin:append" {
						out = derives(x.Call.Args[0], depth+1)
					} else {
						for _, a := range x.Call.Args {
							if isChunkSlice(a.Type()) && derives(a, depth+1) {
								out = true
							}
						}
					}
				case *ssa.Extract:
					out = x.Index == 0 && derives(x.Tuple, depth+1)
				case *ssa.Slice:
					out = derives(x.X, depth+1)
				}
				memo[v] = out
				return out
			}
			okAll := true
			why := ""
			for b := range reach {
				for _, in := range b.Instrs {
					ph, ok := in.(*ssa.Phi)
					if !ok || !isChunkSlice(ph.Type()) {
						continue
					}
					for i, e := range ph.Edges {
						pred := b.Preds[i]
						if pred != call.Block() && !reach[pred] {
							continue
						}
						if pred == call.Block() && !instrDominates(call, pred.Instrs[len(pred.Instrs)-1]) {
							continue
						}
						if !derives(e, 0) {
							okAll = false
							why = "at " + c.W.Pos(ph.Pos()) + " the work list can become " + pretty(c.term(fn, e)) + ", which does not contain the list returned by " + callee(call).Name()
						}
					}
				}
			}
			// and the back edge of the work-list loop carries a list that derives from it
			if head != nil {
				for _, in := range head.Instrs {
					ph, ok := in.(*ssa.Phi)
					if !ok || !isChunkSlice(ph.Type()) {
						continue
					}
					for i, e := range ph.Edges {
						pred := head.Preds[i]
						if !reach[pred] && pred != call.Block() {
							continue
						}
						if !derives(e, 0) {
							okAll = false
							why = "the next iteration of the work-list loop can start with " + pretty(c.term(fn, e)) + ", which does not contain the list returned by " + callee(call).Name()
						}
					}
				}
			}
			c.Check(okAll, key, pos, "the list handed back is the work list from then on", "the work list returned by "+callee(call).Name()+" is dropped on some path: "+why+" (a chunk whose id was already allocated would never be emitted)")
		}
		c.Check(nCalls >= 6, "emitScriptStatement/worklist-calls", c.W.FuncPos(fn), fmt.Sprintf("%d calls thread the work list", nCalls), fmt.Sprintf("only %d calls that take and return the work list found", nCalls))
	}
	// work-list loop: every dequeued chunk is finalised on every non-error path of the iteration
	if fn := c.Fn("emitter.Emitter.emitScriptStatement"); fn != nil {
		var updates []*ssa.MapUpdate
		instrs(fn, func(in ssa.Instruction) {
			if mu, ok := in.(*ssa.MapUpdate); ok {
				if m, ok := mu.Map.Type().Underlying().(*types.Map); ok && typeIs(m.Elem(), "emitter", "chunk") {
					updates = append(updates, mu)
				}
			}
		})
		// loop header: the block testing len(remainingChunks) > 0
		var head *ssa.BasicBlock
		var dequeue ssa.Instruction
		instrs(fn, func(in ssa.Instruction) {
			if sl, ok := in.(*ssa.Slice); ok && isChunkSlice(sl.Type()) && sl.Low != nil && sl.High == nil {
				if k, ok := intConst(sl.Low); ok && k == 1 {
					dequeue = in
				}
			}
		})
		if dequeue == nil {
			c.Unk("emitScriptStatement/dequeue", c.W.FuncPos(fn), "cannot find the work-list dequeue (remainingChunks[1:])")
		} else {
			loops := loopHeaders(fn)
			head = loops[dequeue.Block()]
			isFinal := func(in ssa.Instruction) bool {
				for _, u := range updates {
					if in == ssa.Instruction(u) {
						return true
					}
				}
				return false
			}
			// a path from the dequeue back to the loop head (or to the function exit through the
			// loop exit) that performs no finalisation loses the chunk
			w, found := existsPath(pathQuery{from: after(dequeue), avoid: isFinal, edgeOK: notErrorEdge,
				target: func(in ssa.Instruction) bool { return head != nil && in.Block() == head && idxInBlock(in) == 0 },
				stopAt: func(in ssa.Instruction) bool { _, isRet := in.(*ssa.Return); return isRet }})
			_ = w
			c.Check(!found, "emitScriptStatement/finalise-every-chunk", c.W.Pos(dequeue.Pos()), fmt.Sprintf("every iteration finalises the dequeued chunk (%d finalisation sites)", len(updates)), "an iteration of the work-list loop can complete without storing the dequeued chunk into finalChunks")
			// finalisation key must be the id of the stored chunk
			for i, u := range updates {
				keyT := c.term(fn, u.Key)
				valT := c.term(fn, u.Value)
				idT := ""
				if a, ok := u.Value.(*ssa.Alloc); ok {
					idT = c.fieldAtUse(fn, a, "id", u)
				} else {
					idT = valT + ".id"
					for _, ci := range c.chunkAllocs(fn) {
						if ssa.Value(ci.a) == u.Value {
							idT = ci.id
						}
					}
				}
				c.Check(keyT == idT, fmt.Sprintf("emitScriptStatement/finalChunks-key#%d", i), c.W.Pos(u.Pos()), "finalChunks key is the stored chunk's id", "finalChunks["+pretty(keyT)+"] stores a chunk whose id is "+pretty(idT))
			}
		}
	}
}

// reachesReturn: value v flows (through phis, extracts and further appends) into result i
// of some return.
func reachesReturn(v ssa.Value, idx int) bool {
	seen := map[ssa.Value]bool{}
	var walk func(x ssa.Value) bool
	walk = func(x ssa.Value) bool {
		if seen[x] {
			return false
		}
		seen[x] = true
		refs := x.Referrers()
		if refs == nil {
			return false
		}
		for _, r := range *refs {
			switch y := r.(type) {
			case *ssa.Return:
				if idx < len(y.Results) && y.Results[idx] == x {
					return true
				}
			case *ssa.Phi:
				if walk(y) {
					return true
				}
			case *ssa.Call:
				if calleeName(y) == "builtin:append" && y.Call.Args[0] == x {
					if walk(y) {
						return true
					}
				} else if len(y.Call.Args) > 0 {
					// passed to a callee that returns the extended list as result 0
					for _, a := range y.Call.Args {
						if a == x {
							for _, rr := range *y.Referrers() {
								if ex, ok := rr.(*ssa.Extract); ok && ex.Index == 0 && types.Identical(ex.Type(), x.Type()) {
									if walk(ex) {
										return true
									}
								}
							}
						}
					}
				}
			}
		}
		return false
	}
	return walk(v)
}

// derivesFromParamSlice: v is the slice parameter, or an append / phi / callee result built from it.
func derivesFromParamSlice(v ssa.Value, fn *ssa.Function, seen map[ssa.Value]bool) bool {
	if seen[v] {
		return true
	}
	seen[v] = true
	switch x := v.(type) {
	case *ssa.Parameter:
		return true
	case *ssa.Phi:
		for _, e := range x.Edges {
			if !derivesFromParamSlice(e, fn, seen) {
				return false
			}
		}
		return true
	case *ssa.Call:
		if calleeName(x) == "builtin:append" {
			return derivesFromParamSlice(x.Call.Args[0], fn, seen)
		}
		return false
	case *ssa.Extract:
		call, ok := x.Tuple.(*ssa.Call)
		if !ok || x.Index != 0 {
			return false
		}
		for _, a := range call.Call.Args {
			if types.Identical(a.Type(), v.Type()) {
				return derivesFromParamSlice(a, fn, seen)
			}
		}
		return false
	}
	return false
}

// ---- C01.b -----------------------------------------------------------------------------

// "index is the last statement of the chunk", as it appears in reaching conditions (the
// isLastStatement predicate is expanded into its definition, see pathcond.go)
const isLastLit = "($1 == builtin:len($0.statements)-1)"

func c01b(c *Ctx) {
	c01bScan(c)
	fn := c.Fn("emitter.Emitter.emitScriptStatement")
	split := c.Fn("emitter.chunk.splitChunkForBranch")
	if fn == nil || split == nil {
		return
	}
	// lemma 0: the work list starts with one chunk that holds the whole body of the script
	{
		n := 0
		for _, ci := range c.chunkAllocs(fn) {
			if isInLoopRegion(ci.a.Block()) {
				continue
			}
			n++
			whole := ci.stmts == "$1.Body.Statements[:]" || ci.stmts == "$1.Body.Statements"
			c.Check(whole, "entry-chunk/whole-body", c.W.Pos(ci.a.Pos()), "the entry chunk holds all statements of the script body", "the entry chunk is built with statements="+pretty(ci.stmts)+", expected the script's Body.Statements: statements of the body would never be rendered")
		}
		c.Check(n == 1, "entry-chunk/site", c.W.FuncPos(fn), "one entry chunk is made before the work loop", fmt.Sprintf("expected one chunk made before the work loop, found %d", n))
	}
	// lemma 1 (when the predicate is a function of its own): isLastStatement(c, i) == (i == len(c.statements)-1)
	if last := c.W.Method("emitter", "chunk", "isLastStatement"); last != nil && len(last.Blocks) > 0 {
		rets := returnsOf(last)
		ok := len(rets) == 1 && c.term(last, rets[0].Results[0]) == eqTerm("$1", "builtin:len($0.statements)-1")
		got := ""
		if len(rets) == 1 {
			got = c.term(last, rets[0].Results[0])
		}
		c.Check(ok, "isLastStatement/definition", c.W.FuncPos(last), "isLastStatement(i) is i == len(statements)-1", "isLastStatement returns "+got+", expected index == len(statements)-1")
	}
	// lemmas 2 and 3: splitChunkForBranch makes — in place or through a constructor helper —
	// exactly one post-logic chunk, holding statements[i+1:] and inheriting the return id,
	// exactly when i is not the last statement
	{
		type made struct {
			at           ssa.Instruction // creation point in split
			stmts, retID string
		}
		var ms []made
		for _, ci := range c.chunkAllocs(split) {
			ms = append(ms, made{ci.a, ci.stmts, ci.retID})
		}
		ok := len(ms) == 1
		why := fmt.Sprintf("expected one post-logic chunk to be made in splitChunkForBranch, found %d", len(ms))
		if ok {
			m := ms[0]
			ok = m.stmts == "$0.statements[$1+1:]" && m.retID == "$0.returnID"
			why = "post-logic chunk built with statements=" + pretty(m.stmts) + " returnID=" + pretty(m.retID) + ", expected statements[index+1:] and the receiver's returnID"
			c.Check(ok, "createPostLogicChunk/suffix", c.W.Pos(m.at.Pos()), "post-logic chunk holds statements[i+1:] and inherits the return id", why)
			d := c.PC(split).canonOf(c.PC(split).At(m.at.Block()))
			ok = dnfEquiv(d, mkDNF([]string{"-" + isLastLit}))
			why = "post-logic chunk created under " + d.String() + ", expected exactly when the index is not the last statement"
		}
		c.Check(ok, "splitChunkForBranch/splits-unless-last", c.W.FuncPos(split), "a post-logic chunk with the remaining statements is created unless the index is last", why)
	}
	// each constructor splits its own (curChunk, i) unconditionally
	splitting := map[*ssa.Function]bool{split: true}
	for _, name := range emitterCtors[:4] {
		ctor := c.Fn(name)
		if ctor == nil {
			continue
		}
		ok := false
		why := "no call of curChunk.splitChunkForBranch(i, ...) that dominates every return"
		for _, call := range callsToIn(ctor, split) {
			args := call.Common().Args
			// receiver = chunk param, index = int param
			recvP, okR := args[0].(*ssa.Parameter)
			idxP, okI := args[1].(*ssa.Parameter)
			dom := true
			for _, r := range returnsOf(ctor) {
				if !instrDominates(call, r) {
					dom = false
				}
			}
			if okR && okI && dom {
				ok = true
				_ = recvP
				_ = idxP
			}
		}
		c.Check(ok, name+"/splits-first", c.W.FuncPos(ctor), "constructor splits the current chunk at the statement index on every path", why)
		if ok {
			splitting[ctor] = true
		}
	}
	// finalisation sites
	t := c.T(fn)
	for _, ci := range c.chunkAllocs(fn) {
		if !strings.Contains(ci.stmts, ".statements[:") {
			continue
		}
		m := regexp.MustCompile(`^(.*)\.statements\[:(.*)\]$`).FindStringSubmatch(ci.stmts)
		if m == nil {
			c.Unk(fmt.Sprintf("emitScriptStatement/final#%d", ci.idx), c.W.Pos(ci.a.Pos()), "unrecognised statements expression "+ci.stmts)
			continue
		}
		cur, idx := m[1], m[2]
		key := "emitScriptStatement/finalisation/" + finalRole(c, fn, ci)
		pos := c.W.Pos(ci.a.Pos())
		must := c.mustLits(fn, ci.a.Block())
		// (i) end/return arm: i == len-1
		lastLit := "+" + eqTerm(idx, "builtin:len("+cur+".statements)-1")
		if hasLit(must, lastLit) {
			c.OK(key, pos, "prefix [:i] finalised under i == len-1 (the dropped statement is the terminator command)")
			continue
		}
		// (iii) dead arm: every handled type assertion failed
		neg := 0
		for _, l := range must {
			if strings.HasPrefix(l, "-assert<") {
				neg++
			}
		}
		if neg >= 6 {
			c.OK(key, pos, "arm reached only when no handled statement type matches (dead by C01.a)")
			continue
		}
		// (ii) a split of (cur, i) dominates
		found := false
		for _, call := range callsIn(fn) {
			f := callee(call)
			if f == nil || !splitting[f] || !instrDominates(call, ci.a) {
				continue
			}
			var hasCur, hasIdx bool
			for _, a := range call.Common().Args {
				at := t.Canon(t.Term(a))
				if at == cur {
					hasCur = true
				}
				if at == idx {
					hasIdx = true
				}
			}
			if hasCur && hasIdx {
				found = true
			}
		}
		c.Check(found, key, pos, "prefix [:i] finalised after the chunk was split at i (statements after i live on in the post-logic chunk)", "chunk finalised with statements[:"+pretty(idx)+"] but the statements after index "+pretty(idx)+" are not kept: no splitChunkForBranch / constructor call on ("+pretty(cur)+", "+pretty(idx)+") dominates it")
	}
	// whole-chunk finalisation only when i == len
	instrs(fn, func(in ssa.Instruction) {
		mu, ok := in.(*ssa.MapUpdate)
		if !ok {
			return
		}
		if _, isAlloc := mu.Value.(*ssa.Alloc); isAlloc {
			return
		}
		for _, ci := range c.chunkAllocs(fn) {
			if ssa.Value(ci.a) == mu.Value {
				return // a chunk made here through a constructor helper: judged with the literals above
			}
		}
		if m, ok := mu.Map.Type().Underlying().(*types.Map); !ok || !typeIs(m.Elem(), "emitter", "chunk") {
			return
		}
		v := c.term(fn, mu.Value)
		must := c.mustLits(fn, mu.Block())
		ok2 := false
		for _, l := range must {
			if strings.HasPrefix(l, "+(") && strings.Contains(l, " == ") && strings.Contains(l, "builtin:len("+v+".statements)") && !strings.Contains(l, ")-1") {
				ok2 = true
			}
		}
		c.Check(ok2, "emitScriptStatement/finalisation/whole-chunk", c.W.Pos(mu.Pos()), "chunk finalised unchanged only when the scan reached the end of its statements", "chunk "+pretty(v)+" finalised unchanged on a path where the scan index may not be at the end")
	})
}

// finalRole names a finalisation site by the statement type handled in its arm.
func finalRole(c *Ctx, fn *ssa.Function, ci chunkInfo) string {
	must := c.PC(fn).Must(ci.a.Block())
	role := "other"
	for _, l := range must {
		if strings.HasPrefix(l, "+assert<*ast.") {
			role = strings.TrimPrefix(l, "+assert<*ast.")
			if i := strings.Index(role, ">"); i > 0 {
				role = role[:i]
			}
		}
	}
	return role
}

// ---- C01.g -----------------------------------------------------------------------------

func c01g(c *Ctx) {
	fn := c.Fn("emitter.Emitter.emitScriptStatement")
	if fn == nil {
		return
	}
	n := 0
	for _, ci := range c.chunkAllocs(fn) {
		if ci.retID != "-1" || !strings.Contains(ci.stmts, ".statements[:") {
			continue
		}
		n++
		pos := c.W.Pos(ci.a.Pos())
		use := chunkLastUse(ci)
		term := c.fieldAtUse(fn, ci.a, "useEndTerminator", use)
		c.Check(strings.HasSuffix(term, `.Name.Value == "end")`), "early-exit/terminator-kind", pos, "useEndTerminator = (command name == \"end\")", "useEndTerminator is "+pretty(term)+", expected (command name == \"end\")")
		d := c.PC(fn).At(ci.a.Block())
		// every way to get here tests name == "end" or name == "return"
		ok := !d.unknown && len(d.cs) > 0
		for _, cj := range d.cs {
			has := false
			for _, l := range cj {
				if strings.HasPrefix(l, "+") && (strings.HasSuffix(l, `.Name.Value == "end")`) || strings.HasSuffix(l, `.Name.Value == "return")`)) {
					has = true
				}
			}
			if !has {
				ok = false
			}
		}
		c.Check(ok, "early-exit/command-names", pos, "early exit only for the commands end / return", "early-exit chunk reachable for commands other than end/return: "+pretty(d.String()))
	}
	if n == 0 {
		c.Bad("early-exit/site", c.W.FuncPos(fn), "no early-exit finalisation (returnID -1 with a statement prefix) found")
	}
	if gt := c.Fn("emitter.chunk.getTerminatorCommand"); gt != nil {
		okEnd, okRet := false, false
		for _, r := range returnsOf(gt) {
			v, _ := strConst(r.Results[0])
			must := c.mustLits(gt, r.Block())
			if v == "end" && hasLit(must, "+$0.useEndTerminator") {
				okEnd = true
			}
			if v == "return" && hasLit(must, "-$0.useEndTerminator") {
				okRet = true
			}
		}
		c.Check(okEnd && okRet, "getTerminatorCommand/table", c.W.FuncPos(gt), "useEndTerminator -> end, otherwise return", "getTerminatorCommand does not map useEndTerminator to end and its absence to return")
	}
}

// c01h: what the control-flow parsers parse ends up in the node they return. Every AST piece
// returned by a parse call (a condition with its body, a block) is stored into a node, appended
// to a list, handed to another function or returned — on every successful way to the next
// iteration or to the return. A branch that is parsed and then left out (because it looks empty,
// say) takes its condition with it: later branches would no longer be guarded by it.
func c01h(c *Ctx) {
	var fns []*ssa.Function
	for _, f := range c.W.FuncsOf("parser") {
		if !isTestFunc(c.W, f) && len(f.Blocks) > 0 {
			fns = append(fns, f)
		}
	}
	for _, fn := range fns {
		n := 0
		for _, ci := range callsIn(fn) {
			g := callee(ci)
			call, isCall := ci.(*ssa.Call)
			if g == nil || !isCall || !c.W.InRepo(g) || c.W.PkgShort(g) != "parser" || c.T(fn).purity(g) >= purReadOnly {
				continue // (a function that changes nothing parses nothing)
			}
			res := g.Signature.Results()
			if res.Len() == 0 || !isASTType(res.At(0).Type()) {
				continue
			}
			var v ssa.Value = call
			if res.Len() > 1 {
				v = nil
				for _, r := range *call.Referrers() {
					if ex, ok := r.(*ssa.Extract); ok && ex.Index == 0 {
						v = ex
					}
				}
			}
			n++
			key := fmt.Sprintf("%s/kept[%s#%d]", fn.Name(), g.Name(), n)
			pos := c.W.Pos(call.Pos())
			if v == nil {
				c.Bad(key, pos, "the piece parsed by "+g.Name()+" is discarded")
				continue
			}
			uses := map[ssa.Instruction]bool{}
			var mark func(x ssa.Value, depth int)
			mark = func(x ssa.Value, depth int) {
				if x.Referrers() == nil || depth > 3 {
					return
				}
				for _, r := range *x.Referrers() {
					switch y := r.(type) {
					case *ssa.Store:
						if y.Val == x {
							uses[y] = true
						}
					case *ssa.Return:
						uses[y] = true
					case *ssa.MapUpdate:
						if y.Value == x {
							uses[y] = true
						}
					case *ssa.MakeInterface, *ssa.ChangeType, *ssa.ChangeInterface, *ssa.Phi, *ssa.Extract:
						mark(y.(ssa.Value), depth+1)
					case ssa.CallInstruction:
						// handing the piece to a function that only looks at it is no use; one that
						// builds something around it (a constructor) passes it on in its result
						if h := callee(y); h != nil && c.W.InRepo(h) && c.T(fn).purity(h) >= purReadOnly {
							passes := false
							for _, a := range y.Common().Args {
								passes = passes || a == x
							}
							if yv, isV := r.(ssa.Value); isV && passes {
								res := h.Signature.Results()
								for i := 0; i < res.Len(); i++ {
									if _, basic := res.At(i).Type().Underlying().(*types.Basic); !basic {
										mark(yv, depth+1)
										break
									}
								}
							}
							continue
						}
						for _, a := range y.Common().Args {
							if a == x {
								uses[r] = true
							}
						}
					}
				}
			}
			mark(v, 0)
			// the varargs slice of an append: the element is stored into the backing array first
			for st := range uses {
				if s, ok := st.(*ssa.Store); ok {
					if ia, ok := s.Addr.(*ssa.IndexAddr); ok {
						if a, ok := ia.X.(*ssa.Alloc); ok && a.Referrers() != nil {
							delete(uses, st)
							for _, r := range *a.Referrers() {
								if sl, ok := r.(*ssa.Slice); ok && sl.Referrers() != nil {
									for _, r2 := range *sl.Referrers() {
										if ap, ok := r2.(*ssa.Call); ok && calleeName(ap) == "builtin:append" {
											uses[ap] = true
										}
									}
								}
							}
						}
					}
				}
			}
			isUse := func(in ssa.Instruction) bool { return uses[in] }
			head := loopHeaders(fn)[call.Block()]
			// a piece that is nil is nothing to keep: the side of `piece != nil` on which it is nil is not followed
			alias := map[ssa.Value]bool{}
			var addAlias func(x ssa.Value, depth int)
			addAlias = func(x ssa.Value, depth int) {
				if alias[x] || depth > 3 {
					return
				}
				alias[x] = true
				if x.Referrers() == nil {
					return
				}
				for _, r := range *x.Referrers() {
					switch y := r.(type) {
					case *ssa.MakeInterface, *ssa.ChangeType, *ssa.ChangeInterface, *ssa.Phi:
						addAlias(y.(ssa.Value), depth+1)
					}
				}
			}
			addAlias(v, 0)
			edgeOK := func(b *ssa.BasicBlock, succ int) bool {
				if !notErrorEdge(b, succ) {
					return false
				}
				if ifi, ok := b.Instrs[len(b.Instrs)-1].(*ssa.If); ok {
					if bo, ok := ifi.Cond.(*ssa.BinOp); ok && (bo.Op == token.NEQ || bo.Op == token.EQL) {
						x, y := bo.X, bo.Y
						if isNilConst(x) {
							x, y = y, x
						}
						if isNilConst(y) && alias[x] {
							nilSide := 1 // `!= nil`: false branch
							if bo.Op == token.EQL {
								nilSide = 0
							}
							return succ != nilSide
						}
					}
				}
				return true
			}
			_, skip := existsPath(pathQuery{from: after(call), avoid: isUse, edgeOK: edgeOK, target: func(in ssa.Instruction) bool {
				if uses[in] {
					return false
				}
				if r, ok := in.(*ssa.Return); ok {
					return isSuccessReturn(r)
				}
				return head != nil && in.Block() == head && in == head.Instrs[0]
			}})
			c.Check(!skip, key, pos, "the parsed piece is stored, appended, handed on or returned on every successful path", "what "+g.Name()+" parsed can be dropped: a successful return or the next iteration is reachable without the piece being stored into the statement (a dropped branch takes its condition with it)")
		}
	}
}

// isASTType: a (pointer to / slice of) type of package ast.
func isASTType(t types.Type) bool {
	switch x := t.(type) {
	case *types.Pointer:
		return isASTType(x.Elem())
	case *types.Slice:
		return isASTType(x.Elem())
	case *types.Named:
		return x.Obj().Pkg() != nil && strings.HasSuffix(x.Obj().Pkg().Path(), "/ast")
	}
	return false
}

// c01bScan: the index at which the work list looks for a control statement is "the first
// statement that is neither a label nor a command". The scan that computes it leaves its loop in
// the middle for two reasons only: the statement at hand is neither (the command assertion
// failed), or it is the final end / return (the early exit). Any other way out — after a global
// label, say — leaves a label or command at the index, which no arm of the dispatch handles: the
// rest of the chunk is dropped.
func c01bScan(c *Ctx) {
	fn := c.Fn("emitter.Emitter.emitScriptStatement")
	if fn == nil {
		return
	}
	n := 0
	instrs(fn, func(in ssa.Instruction) {
		ta, ok := in.(*ssa.TypeAssert)
		if !ok || !ta.CommaOk || !typeIs(ta.AssertedType, "ast", "LabelStatement") {
			return
		}
		h := loopHeaders(fn)[ta.Block()]
		if h == nil {
			return
		}
		body := loopBody(h)
		n++
		k := 0
		for _, b := range fn.Blocks {
			if b == h || !body[b] {
				continue
			}
			for si, sc := range b.Succs {
				if body[sc] {
					continue
				}
				k++
				must := c.edgeMust(fn, b, sc)
				_ = si
				okExit := false
				for _, l := range must {
					if strings.HasPrefix(l, "-assert<*ast.CommandStatement>(") && strings.HasSuffix(l, "#1") {
						okExit = true // neither a label nor a command
					}
					if strings.Contains(l, `.Name.Value == "end")`) || strings.Contains(l, `.Name.Value == "return")`) {
						okExit = true // the early exit (judged by C01.g)
					}
				}
				c.Check(okExit, fmt.Sprintf("emitScriptStatement/scan-exit#%d", k), c.W.Pos(b.Instrs[len(b.Instrs)-1].Pos()), "the scan stops at a statement that is neither a label nor a command (or at the final end / return)", "the scan over labels and commands is left under "+fmt.Sprint(prettyAll(must))+": the statement at the index it leaves behind may be a label or a command, which the dispatch that follows does not handle — the rest of the chunk would be dropped")
			}
		}
	})
	c.Check(n == 1, "emitScriptStatement/scan-loop", c.W.FuncPos(fn), "the scan over labels and commands was found", fmt.Sprintf("found %d loops asserting label statements in emitScriptStatement, expected 1", n))
}
