package main

// Positive controls (DESIGN §7) — implemented in controls_run.go once rules exist.

func runControls(w *World, verifDir, prop string, extra map[string]interface{}) {
	runControlsImpl(w, verifDir, prop, extra)
}
