package main

// C18 — every input is answered promptly with output or a located error, never a crash.

import (
	"sort"
	"encoding/json"
	"fmt"
	"go/token"
	"go/types"
	"os"
	"path/filepath"
	"regexp"
	"strconv"
	"strings"
	"unicode"

	"golang.org/x/tools/go/ssa"
)

func init() {
	property("C18",
		"Static conformance of the no-crash / termination / error-location mechanisms: (a) the only reachable panic is the invalid-UTF-8 panic in the lexer and its guard implies an invalid encoding (RuneError with width 1); no unchecked type assertion, no integer division, log.Fatal only in main; (b) every token loop of the parser consumes a token on every path of an iteration and cannot continue at exhausted input (abstract evaluation with every window token = EOF, callee summaries 'errors at EOF'); every lexer loop reads a character per iteration and its guard is false at end of input; other loops are ranges or bounded counters; (c) every index/slice expression is discharged by a dominating comparison (range key, i < len, len > 0, i == len-1, next = i+1 < len) or by a reviewed exemption naming one function and operand; map updates target maps created by the same component; (d) every error returned by a repo function is returned or tested, and the failure branch returns a non-nil error (except the two environment callees whose failure is by design only logged); (e) error ranges are ordered (start token is the current or an earlier captured token) and no error is built from a synthesised or possibly unassigned token; (f) the environment-error flag only ever enables an error return or a log line, and lint construction equals normal construction with the flag off; (g, h) every lexer arm consumes a character and token consumption does not depend on environment or data; (i) the token-window vocabulary the loop rules rely on is what it says (nextToken shifts the window by one, xTokenIs tests its own slot, expectPeek advances once exactly on a match); a pointer result of a fallible call is looked into only after its error was tested; counters of counter loops move on every back edge. NOT decided: stack depth for pathologically nested input, the wall-clock bound, FormatText's string-offset loop. Lazily initialised pointer fields are set on every path before use (C18.j); allocation sizes are bounded by the input (C18.k); every parser error is located (C18.e); every recursive cycle of the parser consumes a token and counter bounds are exit tests (C18.b). Across the components: every tree pointer the emitter dereferences untested is set wherever the parser builds the node, an optional one under the pairing flag the emitter tests (C18.l); index expressions are bounded below as well as above (C18.c); the set of rejection messages, their site counts and the token kinds accepted at 'expected one of' rejections are the reviewed catalogue /verif/rejections.json (C18.m: a new reason to reject a program is a change of every property's scope). A failed call is never followed by a success (C18.n): on the side of a test where an error a call handed back is not nil, no way leads to a successful return unless the error was handed on or the process ended (lint mode's tolerated environment failures apart), and a use of an error that stands in a dead arm (`if false`) is no use. Rejections are raised under the reviewed kinds of fact (C18.m guards: something is empty, a lookup failed, an option is on).",
		[]string{"unicode.IsLetter(0) = unicode.IsDigit(0) = unicode.IsSpace(0) = false (the lexer's own predicates are evaluated at 0 from their definitions)", "once the lexer has returned EOF it returns EOF forever (readChar at end of input leaves ch = 0 and changes no position)", "exemptions listed in /verif/exemptions.json (each names one function and operand with a reason)", "configuration values (command_config.json) are outside the property's quantifier"},
		"C18.a", "C18.b", "C18.c", "C18.d", "C18.e", "C18.f", "C18.g", "C18.h", "C18.i", "C16.c", "C12.a", "C12.b", "C01.c", "C01.d", "C19.b", "C16.d", "C18.j", "C18.k", "C13.a", "C13.b", "C14.d", "C18.l", "C18.m", "C14.a", "C07.a", "C04.f", "C11.a", "C01.e", "C18.n")

	register(&Rule{ID: "C18.a", Doc: "no reachable crash construct except the guarded invalid-UTF-8 panic", Floor: 4, Run: c18a})
	register(&Rule{ID: "C18.b", Doc: "loops terminate: progress on every path, no continuation at exhausted input", Floor: 68, Run: c18b})
	register(&Rule{ID: "C18.c", Doc: "index / slice / nil-map obligations discharged by dominating comparisons or reviewed exemptions", Floor: 109, Run: c18c})
	register(&Rule{ID: "C18.d", Doc: "errors of repo functions are propagated; failure branches return an error", Floor: 153, Run: c18d})
	register(&Rule{ID: "C18.e", Doc: "error ranges ordered; error tokens are real tokens", Floor: 251, Run: c18e})
	register(&Rule{ID: "C18.f", Doc: "lint mode only removes errors", Floor: 9, Run: c18f})
	register(&Rule{ID: "C18.i", Doc: "token window vocabulary: nextToken shifts the look-ahead by one and reads one new token; each xTokenIs predicate tests the slot it is named after", Floor: 5, Run: c18i})
	register(&Rule{ID: "C18.h", Doc: "token consumption does not depend on environment or data: successful returns reachable under the same token tests leave the window at the same place", Floor: 1, Run: c18h})
	register(&Rule{ID: "C18.g", Doc: "lexer progress: every token arm consumes at least one character (entry test implies the reader's guard)", Floor: 5, Run: c18g})
}

func libraryFuncs(c *Ctx) []*ssa.Function {
	var out []*ssa.Function
	for _, fn := range c.W.Funcs {
		if isTestFunc(c.W, fn) {
			continue
		}
		out = append(out, fn)
	}
	return out
}

func c18a(c *Ctx) {
	nPanic := 0
	for _, fn := range libraryFuncs(c) {
		fk := c.W.FuncKey(fn)
		instrs(fn, func(in ssa.Instruction) {
			switch x := in.(type) {
			case *ssa.Panic:
				nPanic++
				inReadChar := fk == "(*lexer.Lexer).readChar"
				if rcf := c.Fn("lexer.Lexer.readChar"); rcf != nil && !inReadChar {
					// ... or a private helper of readChar (the decoding step under its own name): judged
					// by the same guard, in the helper's own terms
					for _, m := range c.unitOf(rcf) {
						if m.fn == fn {
							inReadChar = true
						}
					}
				}
				if !inReadChar {
					c.Bad(fk+"/panic", c.W.Pos(x.Pos()), "explicit panic in "+fk+": an input could crash the compiler")
					return
				}
				must := c.mustLits(fn, x.Block())
				rune65533, width1, inInput := false, false, false
				for _, l := range must {
					if strings.HasPrefix(l, "+(") && strings.HasSuffix(l, "#0 == 65533)") && strings.Contains(l, "DecodeRuneInString") {
						rune65533 = true
					}
					if strings.HasPrefix(l, "+(") && strings.HasSuffix(l, "#1 == 1)") && strings.Contains(l, "DecodeRuneInString") {
						width1 = true
					}
					if l == "+($0.readPosition < builtin:len($0.input))" {
						inInput = true
					}
				}
				if !(rune65533 && width1 && inInput) {
					// the rune and its width decoded by a helper: each is either what
					// DecodeRuneInString reports inside the input, or a constant that cannot
					// satisfy the test
					instrs(fn, func(in2 ssa.Instruction) {
						ex, ok := in2.(*ssa.Extract)
						if !ok {
							return
						}
						lit := "+(" + c.term(fn, ex) + " == " + map[int]string{0: "65533", 1: "1"}[ex.Index] + ")"
						if ex.Index > 1 || !hasLit(must, lit) {
							return
						}
						okAlts := true
						sawDecode := false
						for _, a := range c.resultAlts(fn, ex) {
							switch {
							case strings.HasPrefix(a.term, "unicode/utf8.DecodeRuneInString($0.input[$0.readPosition:])#") && hasLit(a.must, "+($0.readPosition < builtin:len($0.input))"):
								sawDecode = true
							case a.term == "0":
							default:
								okAlts = false
							}
						}
						if okAlts && sawDecode {
							if ex.Index == 0 {
								rune65533 = true
							} else {
								width1 = true
							}
							inInput = true
						}
					})
				}
				c.Check(rune65533 && width1 && inInput, "readChar/panic-only-for-invalid-utf8", c.W.Pos(x.Pos()), "the panic requires RuneError with width 1, i.e. an invalid encoding", fmt.Sprintf("the lexer panic is guarded by %v; it must require the decoded rune to be RuneError AND the width to be 1 (a correctly encoded U+FFFD also decodes to RuneError)", must))
			case *ssa.TypeAssert:
				if !x.CommaOk {
					c.Bad(fk+"/unchecked-type-assertion", c.W.Pos(x.Pos()), "type assertion without the comma-ok form can panic")
				} else if x.Referrers() != nil {
					// `v, _ := x.(*T)` followed by v.f: the comma-ok form with the ok thrown away is
					// an unchecked assertion of a pointer that is then nil
					var val, okv *ssa.Extract
					for _, r := range *x.Referrers() {
						if ex, isEx := r.(*ssa.Extract); isEx {
							if ex.Index == 0 {
								val = ex
							} else {
								okv = ex
							}
						}
					}
					okUsed := okv != nil && okv.Referrers() != nil && len(*okv.Referrers()) > 0
					if !okUsed && val != nil && val.Referrers() != nil {
						if _, isPtr := val.Type().Underlying().(*types.Pointer); isPtr {
							for _, r := range *val.Referrers() {
								deref := false
								switch y := r.(type) {
								case *ssa.FieldAddr:
									deref = y.X == ssa.Value(val)
								case *ssa.UnOp:
									deref = y.Op == token.MUL
								case ssa.CallInstruction:
									deref = len(y.Common().Args) > 0 && y.Common().Args[0] == ssa.Value(val) && y.Common().Signature().Recv() != nil
								}
								if deref {
									c.Bad(fk+"/unchecked-type-assertion", c.W.Pos(r.Pos()), "the result of a comma-ok type assertion is dereferenced although the ok value is never looked at: when the value is of another type the pointer is nil and the compiler panics")
									break
								}
							}
						}
					}
				}
			case *ssa.BinOp:
				if x.Op == token.QUO || x.Op == token.REM {
					if b, ok := x.X.Type().Underlying().(*types.Basic); ok && b.Info()&types.IsInteger != 0 {
						if k, isC := intConst(x.Y); !isC || k == 0 {
							c.Bad(fk+"/integer-division", c.W.Pos(x.Pos()), "integer division by a value that is not a non-zero constant can panic")
						}
					}
				}
			case ssa.CallInstruction:
				n := calleeName(x)
				if (strings.HasPrefix(n, "log.Fatal") || n == "os.Exit" || strings.HasPrefix(n, "log.Panic")) && c.W.PkgShort(fn) != "" {
					c.Bad(fk+"/fatal-in-library["+n+"]", c.W.Pos(x.Pos()), "library code calls "+n+": an input would terminate the process instead of returning an error")
				}
			}
		})
	}
	c.Check(nPanic == 1, "panic-sites", "-", "exactly one explicit panic (lexer, invalid UTF-8)", fmt.Sprintf("found %d explicit panics, expected 1", nPanic))
	c.OK("scanned/assertions-divisions-fatal", "-", fmt.Sprintf("%d functions scanned for unchecked assertions, integer division and fatal exits", len(libraryFuncs(c))))
	// lemma: readChar at end of input leaves ch = 0
	if fn := c.Fn("lexer.Lexer.readChar"); fn != nil {
		ok := false
		for _, st := range storesToField(fn, "lexer", "Lexer", "ch") {
			for _, a := range c.resultAlts(fn, st.Val) {
				if a.term == "0" && hasLit(a.must, "-($0.readPosition < builtin:len($0.input))") {
					ok = true
				}
			}
		}
		c.Check(ok, "readChar/eof-leaves-zero", c.W.FuncPos(fn), "at end of input the current character becomes 0", "readChar does not set ch = 0 at end of input (the EOF lemma of the loop rules would not hold)")
	}
}

// ---- C18.b ------------------------------------------------------------------------------

type eofEval struct {
	c       *Ctx
	errsEOF map[*ssa.Function]int // 0 unknown, 1 computing, 2 yes, 3 no
}

var tokTypeLit = regexp.MustCompile(`^\((.*Token.*)\.Type == "([^"]*)"\)$`)
var chLit = regexp.MustCompile(`^\(\$0\.ch(![A-Za-z0-9@_]+)? == (\d+)\)$`)

// decide evaluates an If condition at exhausted input: 1 true, 0 false, -1 unknown.
func (e *eofEval) decide(fn *ssa.Function, cond ssa.Value, lexer bool) int {
	t := e.c.term(fn, cond)
	neg := false
	for strings.HasPrefix(t, "!") {
		t = t[1:]
		neg = !neg
	}
	res := -1
	if i := topLevelOp(t, " != "); i > 0 && strings.HasPrefix(t, "(") {
		t = t[:i] + " == " + t[i+4:]
		neg = !neg
	}
	if lexer {
		if m := chLit.FindStringSubmatch(t); m != nil {
			if m[2] == "0" {
				res = 1
			} else {
				res = 0
			}
		}
		if m := regexpMust(`^\((\d+) (<=|<) \$0\.ch(![A-Za-z0-9@_]+)?\)$`).FindStringSubmatch(t); m != nil {
			var k int
			fmt.Sscan(m[1], &k)
			if (m[2] == "<=" && k <= 0) || (m[2] == "<" && k < 0) {
				res = 1
			} else {
				res = 0
			}
		}
		if m := regexpMust(`^\(\$0\.ch(![A-Za-z0-9@_]+)? (<=|<) (\d+)\)$`).FindStringSubmatch(t); m != nil {
			var k int
			fmt.Sscan(m[3], &k)
			if (m[2] == "<=" && 0 <= k) || (m[2] == "<" && 0 < k) {
				res = 1
			} else {
				res = 0
			}
		}
		if strings.HasPrefix(t, "unicode.IsDigit(") || strings.HasPrefix(t, "unicode.IsLetter(") || strings.HasPrefix(t, "unicode.IsSpace(") {
			if strings.Contains(t, "$0.ch") {
				res = 0 // U+0000 is in none of these classes
			}
		}
		// a condition the lexer asks of itself (`l.atLineComment()`): its definition with the current
		// and the next character 0 (C19.b: peekChar returns 0 at end of input)
		if m := recvCallRe.FindStringSubmatch(t); m != nil && m[0] == t && m[1] == "lexer" {
			if g := e.c.W.Method("lexer", m[2], m[3]); g != nil {
				if sum := e.c.PC(g).boolSummaryAny(g); sum != nil {
					var cs []conj
					for _, cj := range sum.pos {
						var n conj
						for _, l := range cj {
							l = regexpMust(`\$0\.ch(![A-Za-z0-9@_]+)?`).ReplaceAllString(l, "$$0")
							l = regexpMust(`\(\*lexer\.Lexer\)\.peekChar\(\$0\)@[A-Za-z0-9]+`).ReplaceAllString(l, "$$0")
							n = append(n, l)
						}
						cs = append(cs, n)
					}
					if v := dnfAtZero(cs); v >= 0 {
						res = v
					}
				}
			}
		}
		// a predicate of the lexer applied to the current character: its definition at the value 0
		if m := opaqueAtomRe.FindStringSubmatch(t); m != nil && m[1] == "lexer" && strings.HasPrefix(m[3], "$0.ch") && !strings.Contains(m[3], ",") {
			if g := e.c.W.Func("lexer", m[2]); g != nil && len(g.Params) == 1 {
				if sum := e.c.PC(g).boolSummaryAny(g); sum != nil {
					if v := dnfAtZero(sum.pos); v >= 0 {
						res = v
					}
				}
			}
		}
	} else {
		if m := tokTypeLit.FindStringSubmatch(t); m != nil && strings.Contains(m[1], "$0.") {
			if m[2] == "EOF" {
				res = 1
			} else {
				res = 0
			}
		}
		// error of a callee that always fails at exhausted input
		if strings.HasSuffix(t, " == nil)") {
			// (a merged error `stmts, err = a()` / `stmts, err = b()` fails when every alternative does)
			calls := errSourceCalls(cond)
			all := len(calls) > 0
			for _, call := range calls {
				okc := false
				if f := callee(call); f != nil && e.c.W.InRepo(f) {
					if f.Name() == "expectPeek" {
						if s, ok := strConst(call.Common().Args[1]); ok && s != "EOF" {
							okc = true
						}
					} else if e.errorsAtEOF(f) {
						okc = true
					}
				}
				if !okc {
					all = false
				}
			}
			if all {
				res = 0
			}
		}
	}
	if res >= 0 && neg {
		res = 1 - res
	}
	return res
}

// errSourceCalls: cond is `err ==/!= nil` where err comes from a call or from a merge of
// call results; return the calls (nil when some alternative is not a call result).
func errSourceCalls(cond ssa.Value) []ssa.CallInstruction {
	bo, ok := cond.(*ssa.BinOp)
	if !ok {
		return nil
	}
	v := bo.X
	if isNilConst(v) {
		v = bo.Y
	}
	var leaves []ssa.Value
	phiLeaves(v, map[ssa.Value]bool{}, &leaves)
	var out []ssa.CallInstruction
	for _, lf := range leaves {
		if ex, ok := lf.(*ssa.Extract); ok {
			lf = ex.Tuple
		}
		call, ok := lf.(*ssa.Call)
		if !ok {
			return nil
		}
		out = append(out, call)
	}
	return out
}

// errSourceCall: cond is `err ==/!= nil` where err comes from a call; return the call.
func errSourceCall(cond ssa.Value) ssa.CallInstruction {
	bo, ok := cond.(*ssa.BinOp)
	if !ok {
		return nil
	}
	v := bo.X
	if isNilConst(v) {
		v = bo.Y
	}
	if ex, ok := v.(*ssa.Extract); ok {
		v = ex.Tuple
	}
	if call, ok := v.(*ssa.Call); ok {
		return call
	}
	return nil
}

func (e *eofEval) edgeOK(fn *ssa.Function, lexer bool) func(b *ssa.BasicBlock, succ int) bool {
	return func(b *ssa.BasicBlock, succ int) bool {
		ifi, ok := b.Instrs[len(b.Instrs)-1].(*ssa.If)
		if !ok {
			return true
		}
		switch e.decide(fn, ifi.Cond, lexer) {
		case 1:
			return succ == 0
		case 0:
			return succ == 1
		}
		return true
	}
}

// errorsAtEOF: at exhausted input no path through f reaches a successful return.
func (e *eofEval) errorsAtEOF(f *ssa.Function) bool {
	switch e.errsEOF[f] {
	case 2:
		return true
	case 1, 3:
		return false
	}
	e.errsEOF[f] = 1
	res := f.Signature.Results()
	if res.Len() == 0 || !isErrorType(res.At(res.Len()-1).Type()) || len(f.Blocks) == 0 {
		e.errsEOF[f] = 3
		return false
	}
	_, succ := existsPath(pathQuery{from: entry(f), edgeOK: e.edgeOK(f, false), target: func(in ssa.Instruction) bool {
		r, ok := in.(*ssa.Return)
		return ok && e.c.isSuccessRet(f, r)
	}})
	if succ {
		e.errsEOF[f] = 3
		return false
	}
	e.errsEOF[f] = 2
	return true
}

func c18b(c *Ctx) {
	nt := c.Fn("parser.Parser.nextToken")
	ep := c.Fn("parser.Parser.expectPeek")
	rc := c.Fn("lexer.Lexer.readChar")
	if nt == nil || ep == nil || rc == nil {
		return
	}
	ev := &eofEval{c: c, errsEOF: map[*ssa.Function]int{}}
	lexConsumers := lexerMustConsume(c, rc)
	// callee summaries: advances on every successful return
	advances := map[*ssa.Function]bool{}
	var computeAdv func(f *ssa.Function, depth int) bool
	computeAdv = func(f *ssa.Function, depth int) bool {
		if v, ok := advances[f]; ok {
			return v
		}
		advances[f] = false
		if depth > 3 || len(f.Blocks) == 0 {
			return false
		}
		isAdv := func(in ssa.Instruction) bool {
			ci, ok := in.(ssa.CallInstruction)
			if !ok {
				return false
			}
			g := callee(ci)
			if g == nt || g == ep {
				return true
			}
			return g != nil && c.W.InRepo(g) && g != f && c.W.PkgShort(g) == "parser" && computeAdv(g, depth+1)
		}
		_, noAdv := existsPath(pathQuery{from: entry(f), avoid: isAdv, edgeOK: notErrorEdge, target: func(in ssa.Instruction) bool {
			r, ok := in.(*ssa.Return)
			return ok && c.isSuccessRet(f, r)
		}})
		advances[f] = !noAdv
		return !noAdv
	}
	nTok, nData, nLex := 0, 0, 0
	for _, fn := range libraryFuncs(c) {
		pkg := c.W.PkgShort(fn)
		if pkg != "parser" && pkg != "lexer" && pkg != "emitter" {
			continue
		}
		fk := c.W.FuncKey(fn)
		loopIdx := 0
		for _, h := range fn.Blocks {
			if !isLoopHeader(h) {
				continue
			}
			loopIdx++
			body := loopBody(h)
			key := fmt.Sprintf("%s/loop#%d", fk, loopIdx)
			pos := c.W.Pos(firstPos(h))
			first := h.Instrs[0]
			toHead := func(in ssa.Instruction) bool { return in == first }
			// classify
			usesWindow, usesCh := false, false
			for b := range body {
				for _, in := range b.Instrs {
					if v, ok := in.(ssa.Value); ok {
						t := c.T(fn).Term(v)
						if ifi := b.Instrs[len(b.Instrs)-1]; ifi != nil {
							_ = ifi
						}
						if pkg == "parser" && strings.Contains(t, "Token") && strings.Contains(t, "$0.") && strings.HasSuffix(strings.TrimSuffix(t, ")"), "") && strings.Contains(t, ".Type") {
							usesWindow = true
						}
						if pkg == "lexer" && strings.HasPrefix(t, "$0.ch") {
							usesCh = true
						}
					}
					if ci, ok := in.(ssa.CallInstruction); ok {
						if g := callee(ci); g != nil && (g == nt || g == ep) {
							usesWindow = true
						}
						// a loop of the lexer that reads characters is a lexer loop, wherever its test is spelled
						if g := callee(ci); pkg == "lexer" && g != nil && (g == rc || lexConsumers[g]) {
							usesCh = true
						}
					}
				}
			}
			// counterBounded: some counter moves on every way round the loop and is tested against a bound
			counterBounded := func() bool {
				okBound := false
				for _, in := range h.Instrs {
					p, ok := in.(*ssa.Phi)
					if !ok {
						continue
					}
					pt := c.T(fn).Term(p)
					// the counter moves on EVERY way round the loop (one way that leaves it where it
					// was is an endless loop)
					step, nBack := true, 0
					for i, e := range p.Edges {
						if h.Dominates(h.Preds[i]) {
							nBack++
							et := c.T(fn).Term(e)
							moves := et == pt+"+1" || et == pt+"-1"
							if ok, min := incOnly(e, p, map[ssa.Value]bool{}); ok && min >= 1 {
								moves = true
							}
							step = step && moves
						}
					}
					step = step && nBack > 0
					if !step {
						continue
					}
					// ... and the test of the counter against its bound decides whether the loop goes on:
					// one branch of that test leaves the loop (a counter that is merely compared
					// somewhere in the body bounds nothing)
					leaves := func(b *ssa.BasicBlock) bool {
						for _, sc := range b.Succs {
							if !body[sc] {
								return true
							}
						}
						return false
					}
					if ifi, ok := h.Instrs[len(h.Instrs)-1].(*ssa.If); ok && leaves(h) {
						ct := c.T(fn).Term(ifi.Cond)
						if strings.Contains(ct, pt) && (strings.Contains(ct, " < ") || strings.Contains(ct, " <= ")) {
							okBound = true
						}
					}
					// counter tested inside the body (for i < n with the test on another block)
					for b := range body {
						if ifi, ok := b.Instrs[len(b.Instrs)-1].(*ssa.If); ok && leaves(b) {
							ct := c.T(fn).Term(ifi.Cond)
							if strings.Contains(ct, pt) && strings.Contains(ct, " < ") {
								okBound = true
							}
						}
					}
				}
				return okBound
			}
			switch {
			case pkg == "parser" && usesWindow && counterBounded():
				// a counted loop (`for i := 0; i < n; i++ { p.nextToken() }`) ends by its counter
				nData++
				c.OK(key+"/bounded", pos, "counter loop with a monotone index tested against a bound")
			case pkg == "parser" && usesWindow:
				nTok++
				isAdv := func(in ssa.Instruction) bool {
					ci, ok := in.(ssa.CallInstruction)
					if !ok {
						return false
					}
					g := callee(ci)
					if g == nt || g == ep {
						return true
					}
					return g != nil && c.W.InRepo(g) && c.W.PkgShort(g) == "parser" && computeAdv(g, 0)
				}
				_, stuck := existsPath(pathQuery{from: point{h, 1}, avoid: isAdv, edgeOK: notErrorEdge, target: toHead})
				if len(h.Instrs) == 1 {
					_, stuck = existsPath(pathQuery{from: point{h, 0}, avoid: isAdv, edgeOK: notErrorEdge, target: func(in ssa.Instruction) bool { return false }})
				}
				// generic: search from the end of the header
				_, stuck = existsPath(pathQuery{from: point{h, len(h.Instrs) - 1}, avoid: isAdv, edgeOK: notErrorEdge, target: toHead})
				c.Check(!stuck, key+"/progress", pos, "every iteration consumes a token", "an iteration of this token loop can return to the loop head without consuming a token (the parser could spin forever)")
				_, spins := existsPath(pathQuery{from: point{h, len(h.Instrs) - 1}, edgeOK: ev.edgeOK(fn, false), target: toHead})
				c.Check(!spins, key+"/stops-at-end-of-input", pos, "at exhausted input (every window token EOF) no path returns to the loop head", "with the input exhausted (all look-ahead tokens EOF) this loop can still complete an iteration: it would never terminate on truncated input")
			case pkg == "lexer" && usesCh:
				nLex++
				isRead := func(in ssa.Instruction) bool {
					ci, ok := in.(ssa.CallInstruction)
					if !ok {
						return false
					}
					g := callee(ci)
					if g == rc {
						return true
					}
					// helpers that read at least one character on every path
					return g != nil && c.W.InRepo(g) && lexConsumers[g]
				}
				_, stuck := existsPath(pathQuery{from: point{h, len(h.Instrs) - 1}, avoid: isRead, target: toHead})
				c.Check(!stuck, key+"/reads-a-character", pos, "every iteration reads a character", "an iteration of this lexer loop can return to the loop head without calling readChar (the lexer could spin forever, e.g. on a character its entry test accepts but its loop does not)")
				_, spins := existsPath(pathQuery{from: point{h, len(h.Instrs) - 1}, edgeOK: ev.edgeOK(fn, true), target: toHead})
				c.Check(!spins, key+"/stops-at-end-of-input", pos, "the loop guard is false when the current character is 0 (end of input)", "at end of input (ch == 0) this lexer loop can still iterate")
			default:
				// data loop: a range or a bounded counter
				nData++
				okBound := counterBounded()
				for _, in := range h.Instrs {
					if _, ok := in.(*ssa.Next); ok {
						okBound = true // range over map / string
					}
				}
				// work-list loops of the emitter: terminate given C01.c/d
				if fk == "(*emitter.Emitter).emitScriptStatement" || fk == "emitter.optimizeChunkOrder" {
					c.OK(key+"/bounded(work-list)", pos, "work-list loop: terminates because every chunk is created once and finalised once (rules C01.c, C01.d) / every id is listed once (C04.f)")
					continue
				}
				if fk == "(*parser.FontConfig).FormatText" && !okBound {
					c.OK(key+"/not-decided(string offsets)", pos, "progress depends on string offsets returned by getNextWord (declared U in DESIGN §6)")
					continue
				}
				c.Check(okBound, key+"/bounded", pos, "range or counter loop with a monotone index tested against a bound", "this loop is neither a token loop, a range, nor a counter loop with a monotone index: termination is not evident")
			}
		}
	}
	// recursion: the parser is recursive descent; a chain of calls that comes back to the same
	// function must have consumed a token on the way, or the recursion never ends (and the depth
	// is then bounded by the number of tokens). Static call graph of package parser (closures and
	// function values passed as arguments included); an edge f -> g "consumes" when no path from
	// f's entry reaches the call without an advance (nextToken, a successful expectPeek, a callee
	// that advances on every successful return). With the consuming edges removed the graph must
	// be acyclic.
	{
		type edge struct {
			from, to *ssa.Function
			site     ssa.Instruction
		}
		var edges []edge
		fns := map[*ssa.Function]bool{}
		for _, fn := range c.W.FuncsOf("parser") {
			if !isTestFunc(c.W, fn) && len(fn.Blocks) > 0 {
				fns[fn] = true
			}
		}
		for fn := range fns {
			for _, ci := range callsIn(fn) {
				var targets []*ssa.Function
				if g := callee(ci); g != nil {
					targets = append(targets, g)
				} else if par, ok := ci.Common().Value.(*ssa.Parameter); ok && !ci.Common().IsInvoke() {
					// a call through a function-valued parameter: whatever the callers pass for it
					var resolve func(f *ssa.Function, par *ssa.Parameter, depth int)
					resolve = func(f *ssa.Function, par *ssa.Parameter, depth int) {
						idx := -1
						for i, pp := range f.Params {
							if pp == par {
								idx = i
							}
						}
						if idx < 0 || depth > 3 {
							return
						}
						for _, site := range c.W.callsTo(f) {
							av := site.Common().Args[idx]
							if ct, ok := av.(*ssa.ChangeType); ok {
								av = ct.X
							}
							switch x := av.(type) {
							case *ssa.Function:
								targets = append(targets, x)
							case *ssa.MakeClosure:
								if h, ok := x.Fn.(*ssa.Function); ok {
									targets = append(targets, h)
								}
							case *ssa.Parameter:
								resolve(site.Parent(), x, depth+1)
							}
						}
					}
					resolve(fn, par, 0)
				} else if !ci.Common().IsInvoke() && callee(ci) == nil {
					if _, isBuiltin := ci.Common().Value.(*ssa.Builtin); !isBuiltin {
						// a call through a struct field, a map value, a captured variable: whom it
						// reaches is not known, so whether the recursion consumes is not known either
						c.Unk(fmt.Sprintf("recursion/unknown-call-target/%s@%d", c.W.FuncKey(fn), c.T(fn).callOrd[ci]), c.W.Pos(ci.Pos()), fn.Name()+" calls a function value ("+pretty(c.term(fn, ci.Common().Value))+") whose targets the call graph cannot name: the recursion check does not cover it")
					}
				}
				for _, g := range targets {
					g = unwrapThunk(g)
					if fns[g] {
						edges = append(edges, edge{fn, g, ci.(ssa.Instruction)})
					}
				}
			}
		}
		// non-consuming edges
		adj := map[*ssa.Function][]edge{}
		nEdges, nCons := 0, 0
		for _, e := range edges {
			nEdges++
			f := e.from
			isAdv := func(in ssa.Instruction) bool {
				ci, ok := in.(ssa.CallInstruction)
				if !ok || in == e.site {
					return false
				}
				g := callee(ci)
				if g == nt || g == ep {
					return true
				}
				return g != nil && c.W.InRepo(g) && c.W.PkgShort(g) == "parser" && computeAdv(g, 0)
			}
			if _, dry := existsPath(pathQuery{from: entry(f), avoid: isAdv, edgeOK: notErrorEdge, target: func(in ssa.Instruction) bool { return in == e.site }}); dry {
				adj[f] = append(adj[f], e)
			} else {
				nCons++
			}
		}
		// cycle search in the non-consuming graph
		state := map[*ssa.Function]int{}
		var stack []edge
		var cyc []edge
		var dfs func(f *ssa.Function) bool
		dfs = func(f *ssa.Function) bool {
			state[f] = 1
			for _, e := range adj[f] {
				stack = append(stack, e)
				if state[e.to] == 1 {
					// cut the stack at the first edge leaving e.to
					for i := range stack {
						if stack[i].from == e.to {
							cyc = append([]edge{}, stack[i:]...)
							break
						}
					}
					return true
				}
				if state[e.to] == 0 && dfs(e.to) {
					return true
				}
				stack = stack[:len(stack)-1]
			}
			state[f] = 2
			return false
		}
		var order []*ssa.Function
		for f := range fns {
			order = append(order, f)
		}
		sort.Slice(order, func(i, j int) bool { return fullName(order[i]) < fullName(order[j]) })
		found := false
		for _, f := range order {
			if state[f] == 0 && dfs(f) {
				found = true
				break
			}
		}
		why := ""
		pos := "-"
		if found {
			var parts []string
			for _, e := range cyc {
				parts = append(parts, e.from.Name()+" -> "+e.to.Name()+" ("+c.W.Pos(e.site.Pos())+")")
			}
			why = "the parser can call itself again without having consumed a token: " + strings.Join(parts, ", ") + " — unbounded recursion (stack overflow) on some input"
			pos = c.W.Pos(cyc[0].site.Pos())
		}
		c.Check(!found, "recursion/consumes-a-token", pos, fmt.Sprintf("every recursive cycle of the parser consumes a token (%d call edges inside package parser, %d of them only after an advance)", nEdges, nCons), why)
	}
	c.Check(nTok >= 20 && nLex >= 8, "loop-census", "-", fmt.Sprintf("%d parser token loops, %d lexer loops, %d data loops", nTok, nLex, nData), fmt.Sprintf("found %d parser token loops and %d lexer loops, expected at least 20 and 8", nTok, nLex))
	// nextToken shape and EOF stability
	if sh := c.T(nt).shiftShapeOf(nt); sh == nil || len(sh.copies) != 4 {
		c.Bad("nextToken/shape", c.W.FuncPos(nt), "nextToken is not a 5-token window shift ending in the lexer call")
	} else {
		c.OK("nextToken/shape", c.W.FuncPos(nt), "window shift cur<-peek<-peek2<-peek3<-peek4<-lexer")
	}
	// expectPeek advances exactly on success
	{
		okAdv, okErr := false, false
		for _, r := range returnsOf(ep) {
			must := c.mustLits(ep, r.Block())
			if isNilConst(r.Results[0]) && hasLit(must, "+($0.peekToken.Type == $1)") {
				for _, call := range callsToIn(ep, nt) {
					if instrDominates(call.(ssa.Instruction), r) {
						okAdv = true
					}
				}
			}
			if !isNilConst(r.Results[0]) && hasLit(must, "-($0.peekToken.Type == $1)") {
				okErr = true
			}
		}
		c.Check(okAdv && okErr, "expectPeek/advances-iff-match", c.W.FuncPos(ep), "expectPeek consumes the next token exactly when it has the expected type, else returns an error", "expectPeek does not (advance and return nil) exactly when the next token matches")
	}
	// NextToken's EOF arm consumes nothing that changes what comes next: it is reached with ch == 0
	if lx := c.Fn("lexer.Lexer.NextToken"); lx != nil {
		okEOF := false
		instrs(lx, func(in ssa.Instruction) {
			if st, ok := in.(*ssa.Store); ok {
				if _, _, f, ok := fieldAddrOf(st.Addr); ok && f == "Type" {
					if s, isC := strConst(st.Val); isC && s == "EOF" {
						for _, l := range c.mustLits(lx, st.Block()) {
							if strings.HasPrefix(l, "+($0.ch") && strings.HasSuffix(l, " == 0)") {
								okEOF = true
							}
						}
					}
				}
			}
		})
		c.Check(okEOF, "NextToken/eof-token-iff-end", c.W.FuncPos(lx), "the EOF token is produced exactly when the current character is 0", "the EOF token is not tied to ch == 0")
	}
}

func firstPos(b *ssa.BasicBlock) token.Pos {
	for _, in := range b.Instrs {
		if in.Pos().IsValid() {
			return in.Pos()
		}
	}
	for _, s := range b.Succs {
		for _, in := range s.Instrs {
			if in.Pos().IsValid() {
				return in.Pos()
			}
		}
	}
	return token.NoPos
}

// ---- C18.c ------------------------------------------------------------------------------

type exemption struct {
	Rule, Function, Operand, Match, Reason string
	Requires                               string
	Sites                                  int `json:"sites"` // how many index / slice expressions of the function the entry was reviewed for (0: not limited)
	used                                   int
}

func loadExemptions(verif string) []*exemption {
	var f struct {
		Exemptions []*exemption `json:"exemptions"`
	}
	b, err := os.ReadFile(filepath.Join(verif, "exemptions.json"))
	if err != nil {
		return nil
	}
	json.Unmarshal(b, &f)
	return f.Exemptions
}

var verifDirGlobal = "/verif"

func c18c(c *Ctx) {
	exs := loadExemptions(verifDirGlobal)
	exempt := func(fk, operand string) *exemption {
		for _, e := range exs {
			if e.Rule == "C18.c" && e.Function == fk && (e.Match == "" || strings.Contains(operand, e.Match)) {
				// an entry covers the sites it was reviewed for; one more expression of the same
				// shape in the same function is a new site
				if e.Sites > 0 && e.used >= e.Sites {
					continue
				}
				e.used++
				return e
			}
		}
		return nil
	}
	nSites, nDischarged, nExempt := 0, 0, 0
	for _, fn := range libraryFuncs(c) {
		fk := c.W.FuncKey(fn)
		site := 0
		instrs(fn, func(in ssa.Instruction) {
			var x, idx, lo, hi ssa.Value
			arrLen := int64(-1)
			inArray := func(t types.Type, index ssa.Value) bool { // a constant index inside a fixed-size array needs no proof
				at, ok := deref(t).Underlying().(*types.Array)
				if !ok {
					return false
				}
				arrLen = at.Len()
				k, isC := intConst(index)
				return isC && k >= 0 && k < at.Len()
			}
			kind := ""
			switch y := in.(type) {
			case *ssa.IndexAddr:
				if _, isPtr := y.X.Type().Underlying().(*types.Pointer); isPtr && inArray(y.X.Type(), y.Index) {
					return // fixed-size array (varargs / literals) at a constant position
				}
				x, idx, kind = y.X, y.Index, "index"
			case *ssa.Index:
				if inArray(y.X.Type(), y.Index) {
					return
				}
				x, idx, kind = y.X, y.Index, "index"
			case *ssa.Slice:
				if _, isPtr := y.X.Type().Underlying().(*types.Pointer); isPtr {
					return
				}
				x, lo, hi, kind = y.X, y.Low, y.High, "slice"
			default:
				return
			}
			nSites++
			site++
			xt := c.term(fn, x)
			must := c.mustLits(fn, in.Block())
			lenX := "builtin:len(" + xt + ")"
			if arrLen >= 0 && kind == "index" {
				lenX = strconv.FormatInt(arrLen, 10) // the length of an array is a constant
			}
			nonEmpty := hasLit(must, "+(0 < "+lenX+")") || hasLit(must, "-("+lenX+" == 0)")
			var operand, how string
			ok := false
			if kind == "index" {
				it := c.term(fn, idx)
				operand = xt + "[" + it + "]"
				switch {
				case hasLit(must, "+("+it+" < "+lenX+")") && (lowerBound(idx) >= 0 || hasLit(must, "-("+it+" < 0)") || hasLit(must, "+(0 <= "+it+")") || hasLit(must, "+(0 < "+it+")")):
					ok, how = true, "0 <= i (by construction) and i < len(x) dominates"
				case it == "0" && nonEmpty:
					ok, how = true, "len(x) > 0 dominates x[0]"
				case it == lenX+"-1" && nonEmpty:
					ok, how = true, "len(x) > 0 dominates x[len-1]"
				case strings.HasSuffix(it, "+1") || addK.MatchString(it):
					// next element: j+1 with j < len-1
					m := addK.FindStringSubmatch(it)
					if m != nil {
						var k int
						fmt.Sscan(m[2], &k)
						prev := m[1]
						if k > 1 {
							prev = fmt.Sprintf("%s+%d", m[1], k-1)
						}
						if hasLit(must, "+"+ltTerm(prev, lenX+"-1")) {
							ok, how = true, "j < len(x)-1 dominates x[j+1]"
						}
					}
				}
				if !ok {
					if k, isC := intConst(idx); isC {
						for _, l := range must {
							if strings.HasPrefix(l, "+("+lenX+" == ") {
								var n int64
								fmt.Sscan(strings.TrimSuffix(strings.TrimPrefix(l, "+("+lenX+" == "), ")"), &n)
								if k < n {
									ok, how = true, "len(x) == n dominates constant index"
								}
							}
						}
					}
				}
			} else {
				lt, ht := "", ""
				if lo != nil {
					lt = c.term(fn, lo)
				}
				if hi != nil {
					ht = c.term(fn, hi)
				}
				operand = xt + "[" + lt + ":" + ht + "]"
				switch {
				case lt == "" && ht == "":
					ok, how = true, "full slice"
				case lt == "1" && ht == "" && nonEmpty:
					ok, how = true, "len(x) > 0 dominates x[1:]"
				case lt == "" && ht != "" && hasLit(must, "+("+ht+" < "+lenX+")") && (lowerBound(hi) >= 0 || hasLit(must, "-("+ht+" < 0)")):
					ok, how = true, "i < len(x) dominates x[:i]"
				case lexerPositionSlice(c, fn, x, lo, hi):
					ok, how = true, "both bounds are lexer positions, the lower one read earlier: positions never decrease and never exceed len(input) (only readChar moves them: position = old readPosition, readPosition += decoded width — C19.b)"
				case lt == "" && addK.MatchString(ht) && hasLit(must, "+("+subOne(ht)+" < "+lenX+")"):
					ok, how = true, "i < len(x) dominates x[:i+1]"
				case lt == "" && strings.HasPrefix(ht, "strings.Index("+xt+",") && hasLit(must, "-("+ht+" < 0)"):
					ok, how = true, "0 <= strings.Index(x, s) < len(x) dominates x[:i]"
				case ht == "" && strings.HasPrefix(lt, "strings.Index("+xt+`,"`) && strings.HasSuffix(lt, "+1") && hasLit(must, "-("+strings.TrimSuffix(lt, "+1")+" < 0)") && indexSepLen(lt) == 1:
					ok, how = true, "strings.Index(x, one-byte separator) >= 0 dominates x[i+1:]"
				}
			}
			key := fmt.Sprintf("%s/%s#%d", fk, kind, site)
			pos := c.W.Pos(in.Pos())
			if ok {
				nDischarged++
				c.OK(key, pos, pretty(operand)+": "+how)
				return
			}
			if e := exempt(fk, operand); e != nil {
				// an exemption that relies on a comparison in the code says so ("requires":
				// "upper-bound") and is void when that comparison is no longer there
				if e.Requires == "upper-bound" {
					found := false
					for _, l := range must {
						if strings.HasPrefix(l, "-(builtin:len(") && strings.Contains(l, ")-1 < ") || strings.HasPrefix(l, "+(") && strings.Contains(l, " < builtin:len(") {
							if idx != nil && strings.Contains(l, c.term(fn, idx)) && x != nil && strings.Contains(l, c.term(fn, x)) {
								found = true
							}
						}
					}
					if !found {
						c.Bad(key, pos, pretty(operand)+": the reviewed exemption relies on a dominating upper-bound comparison of this index against len-1, which is not there (guards here: "+fmt.Sprint(prettyAll(must))+")")
						return
					}
					// ... and the index comes from outside (a configuration file): it can be negative
					// unless that is excluded as well
					if idx != nil && lowerBound(idx) < 0 {
						it := c.term(fn, idx)
						if !(hasLit(must, "-("+it+" < 0)") || hasLit(must, "+(0 <= "+it+")") || hasLit(must, "+(-1 < "+it+")")) {
							c.Bad(key, pos, pretty(operand)+": the index is read from the command configuration and is only compared with the number of arguments; a negative value (\"var_name_arg_position\": -1) passes that test and indexes out of range — the compiler panics instead of reporting the configuration error (guards here: "+fmt.Sprint(prettyAll(must))+")")
							return
						}
					}
				}
				nExempt++
				c.OK(key, pos, pretty(operand)+": exempted — "+e.Reason)
				return
			}
			// a private helper indexing with its parameters: the obligation is its callers'
			if strings.Contains(operand, "$") && fn.Object() != nil && !fn.Object().Exported() {
				sites := c.W.callsTo(fn)
				all := len(sites) > 0
				for _, cs := range sites {
					caller := cs.Parent()
					if caller == nil || !c.W.InRepo(caller) {
						all = false
						continue
					}
					sub := c.substParams(caller, cs, operand)
					if exempt(c.W.FuncKey(caller), sub) == nil {
						all = false
					}
				}
				if all {
					nExempt++
					c.OK(key, pos, pretty(operand)+": the helper's callers are covered by reviewed exemptions for the operands they pass")
					return
				}
			}
			c.Bad(key, pos, pretty(operand)+" is not bounded by a dominating comparison and has no reviewed exemption (guards here: "+fmt.Sprint(prettyAll(must))+"): a crafted input could index out of range")
		})
	}
	c.Note("C18.c: %d index/slice sites, %d discharged by rule, %d by exemption", nSites, nDischarged, nExempt)
	if os.Getenv("PSLINT_EXEMPT_USE") != "" {
		for _, e := range exs {
			fmt.Fprintf(os.Stderr, "EXEMPT-USE\t%s\t%s\t%d\n", e.Function, e.Match, e.used)
		}
	}
	for _, e := range exs {
		if e.Rule == "C18.c" && e.used == 0 && !strings.Contains(e.Operand, "*autoVarOperand") && !strings.Contains(e.Operand, "linkChunk") && !strings.Contains(e.Operand, "map reads") {
			c.Note("stale exemption (matches nothing): %s %s", e.Function, e.Operand)
		}
	}
	// nil pointer results that are dereferenced
	for _, s := range []struct{ fn, callee, res, what string }{
		{"parser.Parser.parseSwitchStatement", "expectPeekVarOrAutoVar", "#0", "*autoVarOperand"},
	} {
		fn := c.Fn(s.fn)
		if fn == nil {
			continue
		}
		n := 0
		instrs(fn, func(in ssa.Instruction) {
			u, ok := in.(*ssa.UnOp)
			if !ok || u.Op != token.MUL {
				return
			}
			pt := c.term(fn, u.X)
			if !strings.HasSuffix(pt, s.callee+"@0"+s.res) {
				return
			}
			n++
			c.Check(hasLit(c.mustLits(fn, u.Block()), "-("+pt+" == nil)"), s.fn+"/deref["+s.what+"]", c.W.Pos(u.Pos()), "dereferenced only after the nil test", s.what+" is dereferenced without a dominating nil test")
		})
		c.Check(n >= 1, s.fn+"/deref-sites["+s.what+"]", c.W.FuncPos(fn), "dereference site found", "no dereference of "+s.what+" found")
	}
	// map updates: the map was created by the same component
	newFn := c.Fn("parser.New")
	made := map[string]bool{}
	if newFn != nil {
		for _, a := range allocsOf(newFn, "parser", "Parser") {
			use := lastUse(a)
			st := deref(a.Type()).Underlying().(*types.Struct)
			named, _ := deref(a.Type()).(*types.Named)
			canon := canonNames(named, st) // terms speak of fields by their canonical names
			for i := 0; i < st.NumFields(); i++ {
				if _, isMap := st.Field(i).Type().Underlying().(*types.Map); isMap {
					for _, nm := range []string{st.Field(i).Name(), canon[i]} {
						if strings.HasPrefix(c.fieldAtUse(newFn, a, nm, use), "makemap") {
							made[st.Field(i).Name()] = true
							made[canon[i]] = true
						}
					}
				}
			}
		}
	}
	nMU := 0
	for _, fn := range libraryFuncs(c) {
		if c.W.PkgShort(fn) == "" {
			continue
		}
		instrs(fn, func(in ssa.Instruction) {
			mu, ok := in.(*ssa.MapUpdate)
			if !ok {
				return
			}
			nMU++
			mt := c.term(fn, mu.Map)
			key := c.W.FuncKey(fn) + "/map-update[" + pretty(mt) + "]"
			okMap := localMap(mu.Map, fn)
			if !okMap && strings.HasPrefix(mt, "$0.") {
				f := strings.SplitN(strings.TrimPrefix(mt, "$0."), "!", 2)[0]
				okMap = made[f]
			}
			if !okMap && fn.Name() == "init" {
				okMap = true
			}
			c.Check(okMap, key, c.W.Pos(mu.Pos()), "the map is created (make) by this function or by the constructor", "assignment into map "+pretty(mt)+" which is not known to be non-nil (not made here nor in parser.New): a nil map write panics")
		})
	}
	c.Check(nMU > 0, "map-updates/scanned", "-", fmt.Sprintf("%d map updates", nMU), "no map updates found")
}

// ---- C18.d ------------------------------------------------------------------------------

func c18d(c *Ctx) {
	envCallee := map[string]bool{"LoadFontConfig": true, "FormatText": true}
	n := 0
	// a pointer that comes back together with an error is nil when the call failed: it is
	// looked into only where the error is known to be nil
	nPtr := 0
	for _, fn := range libraryFuncs(c) {
		if c.W.PkgShort(fn) == "" {
			continue
		}
		for _, ci := range callsIn(fn) {
			call, ok := ci.(*ssa.Call)
			g := callee(ci)
			if !ok || g == nil || !c.W.InRepo(g) || call.Referrers() == nil {
				continue
			}
			res := g.Signature.Results()
			if res.Len() < 2 || !isErrorType(res.At(res.Len()-1).Type()) {
				continue
			}
			var errEx *ssa.Extract
			for _, r := range *call.Referrers() {
				if ex, isEx := r.(*ssa.Extract); isEx && ex.Index == res.Len()-1 {
					errEx = ex
				}
			}
			for _, r := range *call.Referrers() {
				ex, isEx := r.(*ssa.Extract)
				if !isEx || ex == errEx || ex.Referrers() == nil {
					continue
				}
				if _, isPtr := ex.Type().Underlying().(*types.Pointer); !isPtr {
					continue
				}
				for _, u := range *ex.Referrers() {
					var at ssa.Instruction
					switch y := u.(type) {
					case *ssa.FieldAddr:
						if y.X == ssa.Value(ex) {
							at = y
						}
					case *ssa.UnOp:
						if y.Op == token.MUL && y.X == ssa.Value(ex) {
							at = y
						}
					}
					if at == nil {
						continue
					}
					nPtr++
					okNil := false
					if errEx != nil {
						et := c.term(fn, errEx)
						must := c.mustLits(fn, at.Block())
						okNil = hasLit(must, "+("+et+" == nil)") || hasLit(must, "-("+et+" != nil)")
					}
					// ... or the pointer itself was tested
					pt := c.term(fn, ex)
					okNil = okNil || hasLit(c.mustLits(fn, at.Block()), "-("+pt+" == nil)")
					c.Check(okNil, fmt.Sprintf("%s/result-used-after-error-test[%s]", c.W.FuncKey(fn), g.Name()), c.W.Pos(at.Pos()), "a pointer result is looked into only after the call's error was tested", "the pointer result of "+g.Name()+" is dereferenced on a path where its error has not been tested: when the call fails the pointer is nil and the compiler crashes instead of reporting the error")
				}
			}
		}
	}
	c.Check(nPtr >= 6, "pointer-results/census", "-", fmt.Sprintf("%d dereferences of pointer results of fallible calls", nPtr), fmt.Sprintf("only %d such dereferences found", nPtr))
	// the format() parameter parser together with its private helpers
	formatUnit := map[*ssa.Function]bool{}
	if f := c.Fn("parser.Parser.parseFormatStringOperator"); f != nil {
		for _, m := range c.unitOf(f) {
			formatUnit[m.fn] = true
		}
	}
	for _, fn := range libraryFuncs(c) {
		pkg := c.W.PkgShort(fn)
		if pkg == "" {
			continue
		}
		fk := c.W.FuncKey(fn)
		for _, ci := range callsIn(fn) {
			call, ok := ci.(*ssa.Call)
			if !ok {
				continue
			}
			sig := call.Call.Signature()
			res := sig.Results()
			if res.Len() == 0 || !isErrorType(res.At(res.Len()-1).Type()) {
				continue
			}
			g := callee(call)
			name := calleeName(call)
			inRepo := g != nil && c.W.InRepo(g)
			if !inRepo && !call.Call.IsInvoke() {
				// library calls: only strconv.ParseInt may drop its error, inside format() parameters
				if name == "strconv.ParseInt" || name == "encoding/json.Unmarshal" || name == "io/ioutil.ReadFile" {
					// handled below like repo calls
				} else {
					continue
				}
			}
			if call.Call.IsInvoke() && g == nil {
				continue
			}
			n++
			key := fmt.Sprintf("%s/%s@%d", fk, shortCallee(c.T(fn).calleeShort(call)), c.T(fn).callOrd[call])
			pos := c.W.Pos(call.Pos())
			var errV ssa.Value
			if res.Len() == 1 {
				errV = call
			} else {
				for _, r := range *call.Referrers() {
					if ex, ok := r.(*ssa.Extract); ok && ex.Index == res.Len()-1 {
						errV = ex
					}
				}
			}
			if errV == nil || len(liveReferrers(errV)) == 0 {
				if name == "strconv.ParseInt" && formatUnit[fn] {
					c.OK(key, pos, "ParseInt on an INT token inside format() parameters: error cannot occur for digits the lexer accepted (named exception)")
					continue
				}
				c.Bad(key, pos, "the error result of "+name+" is discarded")
				continue
			}
			handled := false
			why := "the error result is neither returned nor compared with nil"
			for _, r := range liveReferrers(errV) {
				switch y := r.(type) {
				case *ssa.Return:
					handled = true
				case *ssa.Phi:
					// merged into the function's own error variable (`statement, impData, err = …` in
					// several arms): the merged value must itself be tested against nil or returned
					var phiUsed func(p ssa.Value, depth int) bool
					phiUsed = func(p ssa.Value, depth int) bool {
						if p.Referrers() == nil || depth > 3 {
							return false
						}
						for _, r2 := range *p.Referrers() {
							switch z := r2.(type) {
							case *ssa.Return:
								return true
							case *ssa.BinOp:
								if isNilConst(z.X) || isNilConst(z.Y) {
									return true
								}
							case *ssa.Phi:
								if phiUsed(z, depth+1) {
									return true
								}
							}
						}
						return false
					}
					if phiUsed(y, 0) {
						handled = true
					} else {
						why = "the error is merged into a variable that is neither tested nor returned afterwards"
					}
				case *ssa.BinOp:
					if isNilConst(y.X) || isNilConst(y.Y) {
						// find the If and the failure successor
						for _, r2 := range liveReferrers(y) {
							ifi, ok := r2.(*ssa.If)
							if !ok {
								// `err != nil && flag`: the combined value
								handled = handled || (g != nil && envCallee[g.Name()])
								continue
							}
							failIdx := 0
							if y.Op == token.EQL {
								failIdx = 1
							}
							fb := ifi.Block().Succs[failIdx]
							if g != nil && envCallee[g.Name()] {
								handled = true
								continue
							}
							// failure branch must return a non-nil error
							if ret, ok := fb.Instrs[len(fb.Instrs)-1].(*ssa.Return); ok && len(ret.Results) > 0 {
								last := ret.Results[len(ret.Results)-1]
								if isErrorType(last.Type()) && !isNilConst(last) {
									handled = true
								} else {
									why = "the failure branch returns without an error"
								}
							} else if reachesErrorReturn(fb) {
								handled = true
							} else {
								why = "the failure branch does not return an error"
							}
						}
					}
				case *ssa.MakeInterface, *ssa.Call:
					// passed on (e.g. err.Error() for a message, log)
					if g != nil && envCallee[g.Name()] {
						handled = true
					}
				}
			}
			c.Check(handled, key, pos, "error propagated", "error of "+name+": "+why+" (a failure would be swallowed and parsing would continue on broken state)")
		}
	}
	c.Check(n >= 60, "error-call-census", "-", fmt.Sprintf("%d error-returning calls checked", n), fmt.Sprintf("only %d error-returning calls found", n))
}

// reachesErrorReturn: every path from b reaches a return with a non-nil error without rejoining.
func reachesErrorReturn(b *ssa.BasicBlock) bool {
	seen := map[*ssa.BasicBlock]bool{}
	var walk func(x *ssa.BasicBlock, depth int) bool
	walk = func(x *ssa.BasicBlock, depth int) bool {
		if seen[x] || depth > 6 {
			return false
		}
		seen[x] = true
		if ret, ok := x.Instrs[len(x.Instrs)-1].(*ssa.Return); ok {
			if len(ret.Results) == 0 {
				return false
			}
			last := ret.Results[len(ret.Results)-1]
			return isErrorType(last.Type()) && !isNilConst(last)
		}
		if len(x.Succs) == 0 {
			return false
		}
		for _, s := range x.Succs {
			if !walk(s, depth+1) {
				return false
			}
		}
		return true
	}
	return walk(b, 0)
}

// ---- C18.e ------------------------------------------------------------------------------

var winRe = regexp.MustCompile(`^\$0\.(curToken|peekToken|peek2Token|peek3Token|peek4Token)(!([A-Za-z0-9@_]+))?$`)
var muWinRe = regexp.MustCompile(`^mu\((b\d+),\$0\.(curToken|peekToken|peek2Token|peek3Token|peek4Token)\)$`)

type tokRef struct {
	idx  int
	tag  string
	kind string // "win", "mu", "param", "other"
}

func parseTokRef(t string) tokRef {
	idxOf := map[string]int{"curToken": 0, "peekToken": 1, "peek2Token": 2, "peek3Token": 3, "peek4Token": 4}
	if m := winRe.FindStringSubmatch(t); m != nil {
		return tokRef{idx: idxOf[m[1]], tag: m[3], kind: "win"}
	}
	if m := muWinRe.FindStringSubmatch(t); m != nil {
		return tokRef{idx: idxOf[m[2]], tag: "mu:" + m[1], kind: "win"}
	}
	if strings.HasPrefix(t, "$") && !strings.Contains(t, ".") {
		return tokRef{kind: "param"}
	}
	return tokRef{kind: "other"}
}

func c18e(c *Ctx) {
	nr := c.Fn("parser.NewRangeParseError")
	np := c.Fn("parser.NewParseError")
	if nr == nil || np == nil {
		return
	}
	// constructors copy start from tok1 and end from tok2
	{
		var f map[string]string
		for _, r := range returnsOf(nr) {
			f = c.valueFields(nr, r.Results[0], r)
		}
		ok := f != nil && f["LineNumberStart"] == "$0.LineNumber" && f["LineNumberEnd"] == "$1.EndLineNumber" && f["CharStart"] == "$0.StartCharIndex" && f["CharEnd"] == "$1.EndCharIndex" && f["Utf8CharStart"] == "$0.StartUtf8CharIndex" && f["Utf8CharEnd"] == "$1.EndUtf8CharIndex" && f["Message"] == "$2"
		c.Check(ok, "NewRangeParseError/fields", c.W.FuncPos(nr), "range error: start from the first token, end from the second", "NewRangeParseError does not take the start fields from tok1 and the end fields from tok2")
		for _, r := range returnsOf(np) {
			f = c.valueFields(np, r.Results[0], r)
		}
		ok = f != nil && f["LineNumberStart"] == "$0.LineNumber" && f["LineNumberEnd"] == "$0.EndLineNumber" && f["CharStart"] == "$0.StartCharIndex" && f["CharEnd"] == "$0.EndCharIndex" && f["Utf8CharStart"] == "$0.StartUtf8CharIndex" && f["Utf8CharEnd"] == "$0.EndUtf8CharIndex" && f["Message"] == "$1"
		c.Check(ok, "NewParseError/fields", c.W.FuncPos(np), "error range = the token's own range", "NewParseError does not copy the token's own start and end")
	}
	// what the user reads is the start line and the message
	if ef := c.W.Method("parser", "ParseError", "Error"); ef != nil {
		okE := false
		got := ""
		for _, r := range returnsOf(ef) {
			if f, ops, ok := flatTemplate(r.Results[0], 0); ok {
				got = f
				if f == "line %d: %s" && len(ops) == 2 && c.term(ef, ops[0]) == "$0.LineNumberStart" && c.term(ef, ops[1]) == "$0.Message" {
					okE = true
				}
				if !okE {
					got = f + " <- " + c.term(ef, ops[0])
				}
			}
		}
		c.Check(okE, "ParseError.Error/text", c.W.FuncPos(ef), "the error text names the start line and the message", "ParseError.Error() renders "+pretty(got)+", expected \"line <LineNumberStart>: <Message>\": the line a user is sent to would not be where the construct starts")
	} else {
		c.Unk("ParseError.Error/text", "-", "ParseError.Error not found")
	}
	c18eLocated(c, nr, np)
	loopDominates := func(fn *ssa.Function, ta, tb string) bool {
		// tags L<n>: header block n of a dominates header block n of b
		var na, nb int
		if _, err := fmt.Sscanf(ta, "L%d", &na); err != nil {
			return false
		}
		if _, err := fmt.Sscanf(tb, "L%d", &nb); err != nil {
			return false
		}
		if na >= len(fn.Blocks) || nb >= len(fn.Blocks) {
			return false
		}
		return fn.Blocks[na].Dominates(fn.Blocks[nb]) && na != nb
	}
	callDominates := func(fn *ssa.Function, ta, tb string) bool {
		find := func(tag string) ssa.Instruction {
			for _, ci := range callsIn(fn) {
				t := c.T(fn)
				if fmt.Sprintf("c%s@%d", shortCallee(t.calleeKey(ci)), t.callOrd[ci]) == tag {
					return ci.(ssa.Instruction)
				}
			}
			return nil
		}
		a, b := find(ta), find(tb)
		return a != nil && b != nil && a != b && instrDominates(a, b)
	}
	n := 0
	var ordered func(fn *ssa.Function, at, bt string, depth int) (bool, string)
	// both ends handed in: the order is the callers' to establish, judged at each of their calls
	bothParams := func(fn *ssa.Function, at, bt string, depth int) (bool, string) {
		var ia, ib int
		fmt.Sscanf(at, "$%d", &ia)
		fmt.Sscanf(bt, "$%d", &ib)
		sites := c.W.callsTo(fn)
		if len(sites) == 0 || depth > 2 {
			return false, ""
		}
		for _, site := range sites {
			g := site.Parent()
			if isTestFunc(c.W, g) {
				continue
			}
			args := site.Common().Args
			if ia >= len(args) || ib >= len(args) {
				return false, ""
			}
			if ok, _ := ordered(g, c.term(g, args[ia]), c.term(g, args[ib]), depth+1); !ok {
				return false, ""
			}
		}
		return true, "both ends handed in by callers that pass an earlier token first"
	}
	ordered = func(fn *ssa.Function, at, bt string, depth int) (bool, string) {
		a, b := parseTokRef(at), parseTokRef(bt)
		switch {
		case a.kind == "param" && b.kind == "param" && at != bt:
			return bothParams(fn, at, bt, depth)
		case a.kind == "param":
			return true, "start token was handed in by the caller (an earlier token)"
		case a.kind == "win" && b.kind == "win" && a.tag == b.tag:
			return a.idx <= b.idx, "same window, start index <= end index"
		case a.kind == "win" && b.kind == "win" && a.tag == "":
			return true, "start captured at function entry, end read later"
		}
		return false, ""
	}
	for _, call := range c.W.callsTo(nr) {
		fn := call.Parent()
		if isTestFunc(c.W, fn) {
			continue
		}
		n++
		at, bt := c.term(fn, call.Common().Args[0]), c.term(fn, call.Common().Args[1])
		a, b := parseTokRef(at), parseTokRef(bt)
		key := fmt.Sprintf("%s/range-error#%d", c.W.FuncKey(fn), n)
		pos := c.W.Pos(call.Pos())
		ok := false
		how := ""
		switch {
		case a.kind == "param" && b.kind == "param" && at != bt:
			ok, how = bothParams(fn, at, bt, 0)
		case a.kind == "param":
			ok, how = true, "start token was handed in by the caller (an earlier token)"
		case a.kind == "win" && b.kind == "win" && a.tag == b.tag:
			ok, how = a.idx <= b.idx, "same window, start index <= end index"
		case a.kind == "win" && b.kind == "win" && a.tag == "":
			ok, how = true, "start captured at function entry, end read later"
		case a.kind == "win" && b.kind == "win" && strings.HasPrefix(a.tag, "L") && strings.HasPrefix(b.tag, "L"):
			ok, how = loopDominates(fn, a.tag, b.tag), "start captured in an enclosing / earlier loop"
		case a.kind == "win" && b.kind == "win" && strings.HasPrefix(a.tag, "c") && strings.HasPrefix(b.tag, "c"):
			ok, how = callDominates(fn, a.tag, b.tag), "start read before the call after which the end is read"
		case a.kind == "win" && b.kind == "win" && strings.HasPrefix(a.tag, "L") && strings.HasPrefix(b.tag, "c"):
			ok, how = true, "end read after a later parse call"
		}
		c.Check(ok, key, pos, "start not after end: "+how, "cannot show that the start token ("+pretty(at)+") is not after the end token ("+pretty(bt)+"): the error range could be inverted")
	}
	c.Check(n >= 30, "range-error-census", "-", fmt.Sprintf("%d range errors", n), fmt.Sprintf("only %d NewRangeParseError sites found", n))
	// every error token is a real token
	m := 0
	for _, f := range []*ssa.Function{nr, np} {
		for _, call := range c.W.callsTo(f) {
			fn := call.Parent()
			if isTestFunc(c.W, fn) {
				continue
			}
			args := call.Common().Args[:1]
			if f == nr {
				args = call.Common().Args[:2]
			}
			for i, a := range args {
				m++
				t := c.term(fn, a)
				bad := t == "zero" || strings.HasPrefix(t, "with(zero;")
				// ... or can be one: the alternatives of a merged token, also when a helper chose it
				for _, dl := range c.deepLeaves(fn, a, 2) {
					if dl.term == "zero" || strings.HasPrefix(dl.term, "with(zero;") {
						bad = true
						t = dl.term + " (one of the values of " + t + ")"
					}
				}
				// ... also when the token is one the function was handed: what its callers hand in
				// (a block parser is given the opening brace it reports an unclosed block at)
				if par, isPar := a.(*ssa.Parameter); isPar && !bad {
					idx := paramIndex(fn, par)
					for _, cs := range c.W.callsTo(fn) {
						if isTestFunc(c.W, cs.Parent()) || idx < 0 || idx >= len(cs.Common().Args) {
							continue
						}
						ct := c.term(cs.Parent(), cs.Common().Args[idx])
						if ct == "zero" || strings.HasPrefix(ct, "with(zero;") || strings.HasSuffix(ct, "=zero") {
							bad = true
							t = ct + " (handed in by " + cs.Parent().Name() + ")"
						}
						for _, dl := range c.deepLeaves(cs.Parent(), cs.Common().Args[idx], 1) {
							if dl.term == "zero" || strings.HasPrefix(dl.term, "with(zero;") {
								bad = true
								t = dl.term + " (handed in by " + cs.Parent().Name() + ")"
							}
						}
					}
				}
				c.Check(!bad, fmt.Sprintf("%s/error-token#%d.%d", c.W.FuncKey(fn), m, i), c.W.Pos(call.Pos()), "error located at a real token", "an error is located at a synthesised / zero token ("+pretty(t)+"): it would point at line 0")
			}
		}
	}
	c.Check(m >= 100, "error-token-census", "-", fmt.Sprintf("%d error token arguments", m), fmt.Sprintf("only %d error token arguments found", m))
	// lexer: LineNumber <= EndLineNumber — both from the line counter, end read later (C19.a checks the sites)
}

// ---- C18.f ------------------------------------------------------------------------------

func c18f(c *Ctx) {
	// the lint parser is the ordinary parser with the environment switched off — and nothing else
	// changed: what NewLintParser is given (the lexer, the command configuration) is what it
	// hands to New
	if nl, nw := c.Fn("parser.NewLintParser"), c.Fn("parser.New"); nl != nil && nw != nil {
		for _, ci := range callsToIn(nl, nw) {
			args := ci.Common().Args
			for i, p := range nl.Params {
				okArg := i < len(args) && args[i] == ssa.Value(p)
				c.Check(okArg, fmt.Sprintf("NewLintParser/hands-on/%s", p.Name()), c.W.Pos(ci.Pos()), "NewLintParser passes "+p.Name()+" on to New", "NewLintParser does not pass its "+p.Name()+" on to New (it passes "+func() string {
					if i < len(args) {
						return pretty(c.term(nl, args[i]))
					}
					return "nothing"
				}()+"): lint mode would parse with another configuration than normal mode and reject programs normal mode accepts")
			}
		}
	}
	c18fEnvErrors(c)
	n := 0
	for _, fn := range c.W.FuncsOf("parser") {
		if isTestFunc(c.W, fn) {
			continue
		}
		instrs(fn, func(in ssa.Instruction) {
			u, ok := in.(*ssa.UnOp)
			if !ok || u.Op != token.MUL {
				return
			}
			fa, ok := u.X.(*ssa.FieldAddr)
			if !ok || fieldName(fa.X.Type(), fa.Field) != "enableEnvironmentErrors" {
				return
			}
			n++
			key := fmt.Sprintf("%s/env-flag-read#%d", c.W.FuncKey(fn), n)
			pos := c.W.Pos(u.Pos())
			okUse := true
			why := ""
			for _, r := range *u.Referrers() {
				ifi, isIf := r.(*ssa.If)
				if !isIf {
					okUse = false
					why = fmt.Sprintf("the flag is used by %T, not as a branch condition", r)
					continue
				}
				tb := ifi.Block().Succs[0] // flag true
				// the true branch may only return an error or log
				if !onlyErrorOrLog(tb) {
					okUse = false
					why = "the branch taken when environment errors are enabled does more than return an error or log a warning"
				}
			}
			c.Check(okUse, key, pos, "the flag only enables an error return or a log line", why+": lint mode could then behave differently from normal mode other than by accepting more")
		})
	}
	c.Check(n >= 6, "env-flag-reads", "-", fmt.Sprintf("%d reads of enableEnvironmentErrors", n), fmt.Sprintf("only %d reads of the flag found, 9 confirmed by hand", n))
	// NewLintParser = New + flag off
	if fn := c.Fn("parser.NewLintParser"); fn != nil {
		newFn := c.Fn("parser.New")
		okNew := newFn != nil && len(callsToIn(fn, newFn)) == 1
		okFlag := false
		for _, st := range storesToField(fn, "parser", "Parser", "enableEnvironmentErrors") {
			if c.term(fn, st.Val) == "false" {
				okFlag = true
			}
		}
		nStores := 0
		instrs(fn, func(in ssa.Instruction) {
			if _, ok := in.(*ssa.Store); ok {
				nStores++
			}
		})
		c.Check(okNew && okFlag && nStores == 1, "NewLintParser/new-plus-flag-off", c.W.FuncPos(fn), "lint parser = normal parser with environment errors off", "NewLintParser is not parser.New(...) followed only by enableEnvironmentErrors = false")
	}
}

// onlyErrorOrLog: block b (and trivially following blocks) only logs and/or returns a non-nil error.
func onlyErrorOrLog(b *ssa.BasicBlock) bool {
	for _, in := range b.Instrs {
		switch x := in.(type) {
		case *ssa.Store:
			if _, fresh := rootValue(x.Addr).(*ssa.Alloc); !fresh {
				return false
			}
		case *ssa.MapUpdate:
			return false
		case ssa.CallInstruction:
			n := calleeName(x)
			if n == "log.Printf" || n == "fmt.Sprintf" || isErrorCtorCall(x) || strings.HasPrefix(n, "invoke:") {
				continue
			}
			return false
		case *ssa.Return:
			if len(x.Results) == 0 {
				return false
			}
			last := x.Results[len(x.Results)-1]
			return isErrorType(last.Type()) && !isNilConst(last)
		}
	}
	// falls through to a join: allowed only if the block did nothing but log
	return true
}

// incOnly: v is derived from the loop variable p only through phis and additions of
// non-negative constants; min is the least total increment over all derivations.
func incOnly(v ssa.Value, p *ssa.Phi, seen map[ssa.Value]bool) (bool, int64) {
	if v == ssa.Value(p) {
		return true, 0
	}
	if seen[v] {
		return true, 1 << 30
	}
	seen[v] = true
	switch x := v.(type) {
	case *ssa.BinOp:
		if x.Op == token.ADD {
			if k, ok := intConst(x.Y); ok && k >= 0 {
				ok2, m := incOnly(x.X, p, seen)
				return ok2, m + k
			}
		}
		return false, 0
	case *ssa.Phi:
		min := int64(1 << 30)
		for _, e := range x.Edges {
			ok, m := incOnly(e, p, seen)
			if !ok {
				return false, 0
			}
			if m < min {
				min = m
			}
		}
		return true, min
	}
	return false, 0
}

// c18g: every arm of NextToken consumes at least one character before it returns. Arms
// that consume only through a reader loop need the arm's entry test to imply the loop's
// guard for the first character, otherwise NextToken would return an empty token without
// advancing and the parser would never see EOF.
func c18g(c *Ctx) {
	fn := c.Fn("lexer.Lexer.NextToken")
	rc := c.Fn("lexer.Lexer.readChar")
	if fn == nil || rc == nil {
		return
	}
	// consumers: readChar itself, and readers whose first iteration is guaranteed
	type reader struct {
		name  string
		guard string // term of the loop guard on the current character (first disjunct)
	}
	guardOf := func(f *ssa.Function) []string {
		var out []string
		for _, b := range f.Blocks {
			if !isLoopHeader(b) {
				continue
			}
			// conditions under which the body (the readChar call) is reached
			for x := range loopBody(b) {
				for _, ci := range callsIn(f) {
					if ci.Block() == x && callee(ci) == rc {
						d := c.PC(f).At(x)
						for _, cj := range d.cs {
							if len(cj) == 1 {
								out = append(out, cj[0])
							}
						}
					}
				}
			}
		}
		return out
	}
	readersFirstIter := map[string][]string{}
	for _, n := range []string{"readNumber", "readIdentifier", "readHexNumber"} {
		if f := c.W.Method("lexer", "Lexer", n); f != nil {
			readersFirstIter[n] = guardOf(f)
		}
	}
	// wrappers: a lexer method whose first state-changing step, on every path, is a call of such
	// a reader (`readIdentifierToken` = positions + readIdentifier + …) reads under the same guard
	for changed := true; changed; {
		changed = false
		for _, f := range c.W.FuncsOf("lexer") {
			if f.Signature.Recv() == nil || len(f.Blocks) == 0 || f == rc {
				continue
			}
			if _, done := readersFirstIter[f.Name()]; done {
				continue
			}
			for rn, guards := range readersFirstIter {
				g := c.W.Method("lexer", "Lexer", rn)
				if g == nil || len(guards) == 0 || len(callsToIn(f, g)) == 0 {
					continue
				}
				isG := func(in ssa.Instruction) bool {
					ci, ok := in.(ssa.CallInstruction)
					return ok && callee(ci) == g
				}
				_, other := existsPath(pathQuery{from: point{f.Blocks[0], 0}, avoid: isG, target: func(in ssa.Instruction) bool {
					if _, isRet := in.(*ssa.Return); isRet {
						return true
					}
					ci, ok := in.(ssa.CallInstruction)
					if !ok {
						return false
					}
					h := callee(ci)
					return h != nil && h != g && c.W.InRepo(h) && c.T(f).purity(h) < purReadOnly
				}})
				if !other {
					readersFirstIter[f.Name()] = guards
					changed = true
				}
			}
		}
	}
	// lexer methods that read at least one character on every path to a return: a call of
	// readChar outside a loop, or of another such method, lies on every path (fixpoint)
	mustConsume := lexerMustConsume(c, rc)
	stripVer := func(s string) string { return regexpMust(`![A-Za-z0-9@_]+`).ReplaceAllString(s, "") }
	// freeConds: the conditions (on the state at entry) of the paths through a reader that
	// reach a return without reading; nil when it cannot be computed or the reader changes the
	// lexer other than by reading
	freeConds := func(g *ssa.Function) []conj {
		if len(g.Blocks) == 0 || !c.W.InRepo(g) || c.W.PkgShort(g) != "lexer" {
			return nil
		}
		direct := false
		instrs(g, func(x ssa.Instruction) {
			if st, ok := x.(*ssa.Store); ok {
				if _, local := rootValue(st.Addr).(*ssa.Alloc); !local {
					direct = true
				}
			}
		})
		if direct {
			return nil
		}
		reads := func(x ssa.Instruction) bool {
			ci, ok := x.(ssa.CallInstruction)
			if !ok {
				return false
			}
			h := callee(ci)
			return h != nil && (h == rc || mustConsume[h])
		}
		out := []conj{}
		for _, r := range returnsOf(g) {
			cs := unconsumedConds(c, g, r.Block(), reads, true)
			if cs == nil {
				return nil
			}
			for _, cj := range cs {
				if len(cj) == 0 {
					return nil // an unconditional way of reading nothing
				}
				out = append(out, cj)
			}
		}
		return out
	}
	// which reader calls are guaranteed to read at least one character
	guaranteed := map[ssa.Instruction]string{}
	for _, ci := range callsIn(fn) {
		in := ci.(ssa.Instruction)
		g := callee(ci)
		if g == nil {
			continue
		}
		switch {
		case g == rc && !isInLoopRegion(in.Block()):
			guaranteed[in] = "readChar"
		case mustConsume[g]:
			guaranteed[in] = g.Name() + " reads at least one character on every path"
		case g.Name() == "readStringToken":
			// called on the opening quote, which is the guard of readString's outer loop
			guaranteed[in] = g.Name() + " consumes the opening delimiter"
		default:
			guards, ok := readersFirstIter[g.Name()]
			if !ok {
				guards = nil
			}
			d := c.PC(fn).At(in.Block())
			var conjs []conj
			if d.unknown {
				conjs = []conj{conj(c.PC(fn).Must(in.Block()))}
			} else {
				conjs = d.cs
			}
			// only the ways of getting here that have not read a character yet matter: after
			// `if ch == '-' { readChar() }` the merged reader call is reached either having
			// consumed the sign, or under the arm's entry test
			restricted := unconsumedConds(c, fn, in.Block(), func(x ssa.Instruction) bool {
				ci, ok := x.(ssa.CallInstruction)
				if !ok {
					return false
				}
				h := callee(ci)
				return h != nil && ((h == rc && !isInLoopRegion(x.Block())) || mustConsume[h])
			})
			guarded := func(conjs []conj) bool {
				for _, cj := range conjs {
					has := false
					for _, l := range cj {
						for _, gl := range guards {
							if stripVer(l) == stripVer(gl) {
								has = true
							}
							// an ASCII digit arm satisfies unicode.IsDigit
							if strings.HasPrefix(stripVer(gl), "+unicode.IsDigit($0.ch") && strings.HasPrefix(l, "+($0.ch") {
								var k int
								if _, err := fmt.Sscanf(l[strings.LastIndex(l, " == ")+4:], "%d)", &k); err == nil && k >= 48 && k <= 57 {
									has = true
								}
							}
						}
					}
					if !has {
						return false
					}
				}
				return true
			}
			all := len(guards) > 0 && ((len(conjs) > 0 && guarded(conjs)) || (restricted != nil && guarded(restricted)))
			if all {
				guaranteed[in] = "entry test implies the guard of " + g.Name() + "'s loop"
			} else if free := freeConds(g); free != nil && g.Signature.Recv() != nil && c.term(fn, ci.Common().Args[0]) == "$0" {
				// every way through the reader that reads nothing (leaving at its first test)
				// contradicts every way of reaching the call without having read
				contra := func(a, b conj) bool {
					for _, l := range a {
						for _, m := range b {
							if l[0] != m[0] && stripVer(l[1:]) == stripVer(m[1:]) {
								return true
							}
							if strings.HasPrefix(stripVer(m), "-unicode.IsDigit($0.ch") && strings.HasPrefix(l, "+($0.ch") {
								var k int
								if _, err := fmt.Sscanf(l[strings.LastIndex(l, " == ")+4:], "%d)", &k); err == nil && k >= 48 && k <= 57 {
									return true
								}
							}
						}
					}
					return false
				}
				excl := func(cs []conj) bool {
					for _, cj := range cs {
						for _, fj := range free {
							if !contra(cj, fj) {
								return false
							}
						}
					}
					return true
				}
				if (len(conjs) > 0 && excl(conjs)) || (restricted != nil && len(restricted) > 0 && excl(restricted)) {
					guaranteed[in] = "the entry test excludes every path of " + g.Name() + " that reads nothing"
				}
			}
		}
	}
	isConsumer := func(in ssa.Instruction) bool { _, ok := guaranteed[in]; return ok }
	// dispatch = first block after the comment loop
	var dispatch *ssa.BasicBlock
	for _, b := range fn.Blocks {
		if isLoopHeader(b) {
			for x := range loopBody(b) {
				for _, sc := range x.Succs {
					if !loopBody(b)[sc] {
						dispatch = sc
					}
				}
			}
			break
		}
	}
	if dispatch == nil {
		c.Unk("NextToken/dispatch", c.W.FuncPos(fn), "cannot find the dispatch point")
		return
	}
	n := 0
	for _, r := range returnsOf(fn) {
		if !dispatch.Dominates(r.Block()) {
			continue
		}
		n++
		rr := r
		_, free := existsPath(pathQuery{from: point{dispatch, 0}, avoid: isConsumer, target: func(in ssa.Instruction) bool { return in == ssa.Instruction(rr) }})
		c.Check(!free, fmt.Sprintf("NextToken/return#%d/consumes", n), c.W.Pos(r.Pos()), "every path from the dispatch to this return reads at least one character (or the end-of-input readChar)", "a path from the token dispatch to this return consumes no character (a reader loop whose guard is not implied by the arm's entry test): NextToken would return the same empty token forever and the parser would never reach EOF")
	}
	c.Check(n >= 5, "NextToken/returns", c.W.FuncPos(fn), fmt.Sprintf("%d non-queued returns", n), "too few returns found")
}

// c18h: how many tokens a parse function consumes may depend only on the tokens. For any
// two successful returns of a parser function whose path conditions are compatible as far
// as token tests go (they differ only in environment / data conditions such as the lint
// flag, map lookups, configuration), the current token at the return must be the same
// term. Otherwise lint mode (or a different -s value) would leave the parser at a
// different place in the input than normal mode.
func c18h(c *Ctx) {
	n := 0
	for _, fn := range c.W.FuncsOf("parser") {
		if isTestFunc(c.W, fn) || fn.Signature.Recv() == nil && len(fn.Params) == 0 {
			continue
		}
		if len(fn.Params) == 0 || !typeIs(fn.Params[0].Type(), "parser", "Parser") {
			continue
		}
		if len(c.Eff().Writes(fn)) == 0 || !c.Eff().WritesClass(fn, "parser.Parser.curToken") {
			continue
		}
		t := c.T(fn)
		type retInfo struct {
			r   *ssa.Return
			cur string
			tok []conj // token-literal projections of the reaching condition
		}
		var rets []retInfo
		for _, r := range returnsOf(fn) {
			if !c.isSuccessRet(fn, r) {
				continue
			}
			d := c.PC(fn).At(r.Block())
			if d.unknown {
				continue // too many paths: not decided for this return
			}
			m := t.MemBefore(r)
			m.cellCls["$0.curToken"] = "parser.Parser.curToken"
			cur := t.wholeLoad("$0.curToken", m)
			rets = append(rets, retInfo{r, cur, d.cs})
		}
		if len(rets) < 2 {
			continue
		}
		// two paths that differ only in environment / data conditions
		isEnv := func(l string) bool {
			return strings.Contains(l, "enableEnvironmentErrors") || strings.Contains(l, "compileSwitches") || strings.Contains(l, ".fonts") || strings.Contains(l, "commandConfig") || strings.HasSuffix(l, "]#1") || strings.Contains(l, "]#1 ")
		}
		sameTokens := func(a, b []conj) bool {
			for _, x := range a {
				for _, y := range b {
					inX, inY := map[string]bool{}, map[string]bool{}
					for _, l := range x {
						inX[l] = true
					}
					for _, l := range y {
						inY[l] = true
					}
					nd := 0
					ok := true
					for l := range inX {
						if !inY[l] {
							nd++
							if !isEnv(l) {
								ok = false
							}
						}
					}
					for l := range inY {
						if !inX[l] {
							nd++
							if !isEnv(l) {
								ok = false
							}
						}
					}
					if ok && nd > 0 {
						return true
					}
				}
			}
			return false
		}
		for i := 0; i < len(rets); i++ {
			for j := i + 1; j < len(rets); j++ {
				if !sameTokens(rets[i].tok, rets[j].tok) {
					continue
				}
				if strings.Contains(rets[i].cur, "mu(") || strings.Contains(rets[j].cur, "mu(") || strings.Contains(rets[i].cur, "!L") || strings.Contains(rets[j].cur, "!L") {
					continue
				}
				n++
				c.Check(rets[i].cur == rets[j].cur, fmt.Sprintf("%s/returns#%d-%d", c.W.FuncKey(fn), i, j), c.W.Pos(rets[j].r.Pos()), "both returns leave the same current token", fmt.Sprintf("two successful returns that are reached under the same token tests leave the parser at different tokens (%s at %s vs %s here): how much input is consumed depends on something other than the input (lint mode, switches, configuration)", pretty(rets[i].cur), c.W.Pos(rets[i].r.Pos()), pretty(rets[j].cur)))
			}
		}
	}
	c.Check(true, "return-pairs", "-", fmt.Sprintf("%d comparable return pairs", n), fmt.Sprintf("only %d comparable return pairs found", n))
}

// indexSepLen: the byte length of the constant separator in a term strings.Index(x,"sep")+k (-1 when not constant).
func indexSepLen(t string) int {
	i := strings.LastIndex(t, `,"`)
	j := strings.LastIndex(t, `")`)
	if i < 0 || j < i {
		return -1
	}
	s, err := strconv.Unquote(t[i+1 : j+1])
	if err != nil {
		return -1
	}
	return len(s)
}

// unconsumedConds: the reaching conditions of block b restricted to the paths from the
// function entry on which no instruction satisfying isCons was executed before b (nil when
// it cannot be computed). An empty, non-nil result means every path has consumed already.
func unconsumedConds(c *Ctx, fn *ssa.Function, b *ssa.BasicBlock, isCons func(ssa.Instruction) bool, keepLoopExit ...bool) []conj {
	pc := c.PC(fn)
	t := c.T(fn)
	cond := map[*ssa.BasicBlock][]conj{}
	done := map[*ssa.BasicBlock]bool{}
	if len(fn.Blocks) == 0 {
		return nil
	}
	cond[fn.Blocks[0]] = []conj{{}}
	done[fn.Blocks[0]] = true
	consumes := func(x *ssa.BasicBlock) bool {
		for _, in := range x.Instrs {
			if isCons(in) {
				return true
			}
		}
		return false
	}
	for _, x := range t.rpo {
		if x == fn.Blocks[0] {
			continue
		}
		var acc []conj
		for _, p := range x.Preds {
			if x.Dominates(p) {
				continue // back edge
			}
			if !done[p] {
				continue
			}
			if consumes(p) {
				continue // everything that continues from p has consumed
			}
			eds := pc.edgeDNF(p, x)
			if len(keepLoopExit) == 0 {
				if isLoopHeader(p) && !loopBody(p)[x] {
					// the exit test was made in a later iteration: it says nothing at entry
					eds = []conj{{}}
				}
			} else {
				// the caller counts every state change as consuming: on an unconsumed path every
				// test — also one made at a loop head, which is then the loop's very first test —
				// reads the state the function was entered with
				var first []conj
				for _, e := range eds {
					var n conj
					for _, l := range e {
						n = append(n, stripLoopTags(l))
					}
					first = append(first, n)
				}
				eds = first
			}
			for _, cj := range cond[p] {
				for _, e := range eds {
					if n, ok := conjMerge(cj, e); ok {
						acc = append(acc, n)
					}
				}
			}
		}
		acc = simplify(acc)
		if len(acc) > maxConj {
			return nil
		}
		cond[x] = acc
		done[x] = true
	}
	if !done[b] {
		return nil
	}
	if cond[b] == nil {
		return []conj{}
	}
	return cond[b]
}

// lexerMustConsume: the lexer methods that read at least one character on every path to a
// return: a call of readChar outside a loop, or of another such method, lies on every path.
func lexerMustConsume(c *Ctx, rc *ssa.Function) map[*ssa.Function]bool {
	mustConsume := map[*ssa.Function]bool{}
	for changed := true; changed; {
		changed = false
		for _, f := range c.W.FuncsOf("lexer") {
			if mustConsume[f] || f == rc || len(f.Blocks) == 0 || f.Signature.Recv() == nil {
				continue
			}
			isCons := func(in ssa.Instruction) bool {
				ci, ok := in.(ssa.CallInstruction)
				if !ok {
					return false
				}
				g := callee(ci)
				return g != nil && ((g == rc && !isInLoopRegion(in.Block())) || mustConsume[g])
			}
			free := false
			for _, r := range returnsOf(f) {
				rr := r
				if _, ok := existsPath(pathQuery{from: point{f.Blocks[0], 0}, avoid: isCons, target: func(in ssa.Instruction) bool { return in == ssa.Instruction(rr) }}); ok {
					free = true
				}
			}
			if !free && len(returnsOf(f)) > 0 {
				mustConsume[f] = true
				changed = true
			}
		}
	}
	return mustConsume
}

// dnfAtZero evaluates a predicate summary (atoms over $0) at $0 == 0: 1 true, 0 false, -1 unknown.
func dnfAtZero(cs []conj) int { return dnfAtRune(cs, 0) }

// dnfAtRune evaluates a predicate summary (atoms over the rune $0) at a given rune.
func dnfAtRune(cs []conj, at rune) int {
	z := int64(at)
	lit := func(l string) int {
		a := l[1:]
		v := -1
		num := func(s string) (int64, bool) {
			n, err := strconv.ParseInt(s, 10, 64)
			return n, err == nil
		}
		switch {
		case strings.HasPrefix(a, "($0 == ") && strings.HasSuffix(a, ")"):
			if k, ok := num(a[7 : len(a)-1]); ok {
				v = b2i(z == k)
			}
		case strings.HasPrefix(a, "($0 <= ") && strings.HasSuffix(a, ")"):
			if k, ok := num(a[7 : len(a)-1]); ok {
				v = b2i(z <= k)
			}
		case strings.HasPrefix(a, "($0 < ") && strings.HasSuffix(a, ")"):
			if k, ok := num(a[6 : len(a)-1]); ok {
				v = b2i(z < k)
			}
		case strings.HasSuffix(a, " <= $0)") && strings.HasPrefix(a, "("):
			if k, ok := num(a[1 : len(a)-7]); ok {
				v = b2i(k <= z)
			}
		case strings.HasSuffix(a, " < $0)") && strings.HasPrefix(a, "("):
			if k, ok := num(a[1 : len(a)-6]); ok {
				v = b2i(k < z)
			}
		case a == "unicode.IsLetter($0)":
			v = b2i(unicode.IsLetter(at))
		case a == "unicode.IsDigit($0)":
			v = b2i(unicode.IsDigit(at))
		case a == "unicode.IsSpace($0)":
			v = b2i(unicode.IsSpace(at))
		case strings.HasPrefix(a, `strings.ContainsRune("`) && strings.HasSuffix(a, `",$0)`):
			if set, err := strconv.Unquote(a[len("strings.ContainsRune(") : len(a)-len(",$0)")]); err == nil {
				v = b2i(strings.ContainsRune(set, at))
			}
		}
		if v >= 0 && l[0] == '-' {
			v = 1 - v
		}
		return v
	}
	res := 0
	for _, cj := range cs {
		cv := 1
		for _, l := range cj {
			switch lit(l) {
			case 0:
				cv = 0
			case -1:
				if cv == 1 {
					cv = -1
				}
			}
			if cv == 0 {
				break
			}
		}
		if cv == 1 {
			return 1
		}
		if cv == -1 {
			res = -1
		}
	}
	return res
}

func b2i(b bool) int {
	if b {
		return 1
	}
	return 0
}

// lexerPositionSlice: input[a:b] in the lexer where a and b are values of l.position (or
// l.readPosition), a read before b. The lemma behind it — position <= readPosition <= len(input)
// and both only ever grow — holds because readChar is the only function that stores them
// (checked here) and stores position = old readPosition, readPosition = old + width with
// width 0 at end of input and the decoded size inside it (checked by C19.b).
func lexerPositionSlice(c *Ctx, fn *ssa.Function, x, lo, hi ssa.Value) bool {
	if c.W.PkgShort(fn) != "lexer" || lo == nil || hi == nil || c.term(fn, x) != "$0.input" {
		return false
	}
	posLoad := func(v ssa.Value) *ssa.UnOp {
		ld, ok := v.(*ssa.UnOp)
		if !ok || ld.Op != token.MUL {
			return nil
		}
		fa, ok := ld.X.(*ssa.FieldAddr)
		if !ok || paramIndex(fn, fa.X) != 0 {
			return nil
		}
		if f := fieldName(fa.X.Type(), fa.Field); f != "position" && f != "readPosition" {
			return nil
		}
		return ld
	}
	a, b := posLoad(lo), posLoad(hi)
	if a == nil || b == nil || !(a == b || instrDominates(a, b)) {
		return false
	}
	// a position read as the upper bound must not be older than... (it is read later: fine);
	// mixing the two counters is fine only as position (lower) .. readPosition (upper)
	fa, fb := a.X.(*ssa.FieldAddr), b.X.(*ssa.FieldAddr)
	if fieldName(fa.X.Type(), fa.Field) == "readPosition" && fieldName(fb.X.Type(), fb.Field) == "position" {
		return false
	}
	// single writer
	rc := c.W.Method("lexer", "Lexer", "readChar")
	if rc == nil {
		return false
	}
	for _, f := range c.W.FuncsOf("lexer") {
		if f == rc || isTestFunc(c.W, f) {
			continue
		}
		bad := false
		instrs(f, func(in ssa.Instruction) {
			st, ok := in.(*ssa.Store)
			if !ok {
				return
			}
			if _, t, fld, ok := fieldAddrOf(st.Addr); ok && typeIs(t, "lexer", "Lexer") && (fld == "position" || fld == "readPosition" || fld == "input") {
				// the constructor initialises a fresh lexer
				if _, fresh := rootValue(st.Addr).(*ssa.Alloc); !fresh {
					bad = true
				}
			}
		})
		if bad {
			return false
		}
	}
	return true
}

// c18i: the rules above speak of the parser's token window (curToken, peekToken, peek2Token …)
// through nextToken and the xTokenIs predicates, whose calls the term language reads as what they
// say. Their definitions are checked here: nextToken moves every slot one place forward — the
// slots form one chain from the lexer to curToken — and each predicate named after a slot
// compares the type of that very slot with its argument.
func c18i(c *Ctx) {
	if fn := c.Fn("parser.Parser.nextToken"); fn != nil {
		// field -> term stored into it
		stored := map[string]string{}
		n := 0
		for _, b := range fn.Blocks {
			for _, in := range b.Instrs {
				if st, ok := in.(*ssa.Store); ok {
					if _, t, f, ok := fieldAddrOf(st.Addr); ok && typeIs(t, "parser", "Parser") {
						stored[f] = c.term(fn, st.Val)
						n++
					}
				}
			}
		}
		// follow the chain from curToken: cur <- a <- b <- … <- lexer
		okChain := len(fn.Blocks) == 1 && n == len(stored)
		seen := map[string]bool{}
		cur := "curToken"
		steps := 0
		for okChain {
			v, ok := stored[cur]
			if !ok || seen[cur] {
				okChain = false
				break
			}
			seen[cur] = true
			steps++
			if strings.HasPrefix(v, "(*lexer.Lexer).NextToken") {
				break
			}
			if !strings.HasPrefix(v, "$0.") || strings.ContainsAny(v[3:], ".![(") {
				okChain = false
				break
			}
			cur = v[3:] // the old value of the next slot (stores are in chain order, so it is still the old one)
		}
		okChain = okChain && steps == len(stored) && steps >= 2
		c.Check(okChain, "nextToken/shift", c.W.FuncPos(fn), fmt.Sprintf("the %d window slots shift by one and the last takes the lexer's next token", steps), fmt.Sprintf("nextToken does not shift the token window by one (stores: %v): the parser would see tokens twice, skip them, or see them out of order", stored))
	}
	// expectPeek(t): advances by exactly one token and returns nil when the next token has type t;
	// otherwise returns an error and leaves the window where it was
	if fn := c.Fn("parser.Parser.expectPeek"); fn != nil {
		nt := c.W.Method("parser", "Parser", "nextToken")
		isNext := func(in ssa.Instruction) bool {
			ci, ok := in.(ssa.CallInstruction)
			return ok && nt != nil && callee(ci) == nt
		}
		okNil, okErr, bad := false, false, ""
		for _, r := range returnsOf(fn) {
			must := c.mustLits(fn, r.Block())
			rr := r
			_, without := existsPath(pathQuery{from: entry(fn), avoid: isNext, target: func(in ssa.Instruction) bool { return in == ssa.Instruction(rr) }})
			nCalls := 0
			for _, ci := range callsIn(fn) {
				if isNext(ci.(ssa.Instruction)) && instrDominates(ci.(ssa.Instruction), r) {
					nCalls++
				}
			}
			switch {
			case isSuccessReturn(r):
				if hasLit(must, "+($0.peekToken.Type == $1)") && !without && nCalls == 1 {
					okNil = true
				} else {
					bad = "returns nil without (next token has the expected type and exactly one advance)"
				}
			default:
				if hasLit(must, "-($0.peekToken.Type == $1)") && nCalls == 0 {
					okErr = true
				} else {
					bad = "returns an error although the type matched, or after advancing"
				}
			}
		}
		c.Check(okNil && okErr && bad == "", "expectPeek/definition", c.W.FuncPos(fn), "expectPeek advances once and succeeds exactly when the next token has the expected type", "expectPeek "+bad)
	}
	np := 0
	for _, fn := range c.W.FuncsOf("parser") {
		if isTestFunc(c.W, fn) || !strings.HasSuffix(fn.Name(), "Is") || fn.Signature.Recv() == nil {
			continue
		}
		slot := strings.TrimSuffix(fn.Name(), "Is")
		// only predicates named after an existing slot are judged
		isSlot := false
		if st, ok := deref(fn.Params[0].Type()).Underlying().(*types.Struct); ok {
			for i := 0; i < st.NumFields(); i++ {
				if st.Field(i).Name() == slot && typeIs(st.Field(i).Type(), "token", "Token") {
					isSlot = true
				}
			}
		}
		if !isSlot {
			continue
		}
		np++
		sh := c.T(fn).testShapeOf(fn)
		c.Check(sh != nil && sh.f == slot && sh.g == "Type" && sh.param == 1, fn.Name()+"/reads-its-slot", c.W.FuncPos(fn), fn.Name()+" compares "+slot+".Type with its argument", fn.Name()+" does not compare the type of "+slot+" with its argument (it is read as doing so wherever it is called)")
	}
	c.Check(np >= 3, "slot-predicates", "-", fmt.Sprintf("%d slot predicates", np), fmt.Sprintf("only %d slot predicates found", np))
}

// c18fEnvErrors: lint mode has no fonts and no switches. An error the parser raises itself
// (NewParseError / NewRangeParseError) on a branch whose condition is computed from
// environment data — the font table, the command-line font and line length, the switches —
// is an environment error and must sit under the enableEnvironmentErrors flag, or lint mode
// rejects programs that normal mode accepts. Taint: loads of the environment fields of the
// Parser, propagated through arithmetic, comparisons, lookups, field reads, merges and call
// results (a call with a tainted argument or receiver returns tainted values).
func c18fEnvErrors(c *Ctx) {
	envFields := map[string]bool{"fonts": true, "defaultFontID": true, "maxLineLength": true, "compileSwitches": true, "fontConfigFilepath": true}
	// functions of the package that read environment data of the parser they are given (directly
	// or through what they call): their results depend on it, whatever their other arguments are
	readsEnv := map[*ssa.Function]bool{}
	for changed := true; changed; {
		changed = false
		for _, g := range c.W.FuncsOf("parser") {
			if readsEnv[g] || isTestFunc(c.W, g) || len(g.Blocks) == 0 {
				continue
			}
			hit := false
			instrs(g, func(in ssa.Instruction) {
				switch x := in.(type) {
				case *ssa.UnOp:
					if x.Op == token.MUL {
						if _, t, f, ok := fieldAddrOf(x.X); ok && typeIs(t, "parser", "Parser") && envFields[f] {
							hit = true
						}
					}
				case ssa.CallInstruction:
					if h := callee(x); h != nil && readsEnv[h] {
						hit = true
					}
				}
			})
			if hit {
				readsEnv[g] = true
				changed = true
			}
		}
	}
	nErr, nEnv := 0, 0
	for _, fn := range c.W.FuncsOf("parser") {
		if isTestFunc(c.W, fn) || len(fn.Blocks) == 0 {
			continue
		}
		taint := map[ssa.Value]bool{}
		instrs(fn, func(in ssa.Instruction) {
			if u, ok := in.(*ssa.UnOp); ok && u.Op == token.MUL {
				if _, t, f, ok := fieldAddrOf(u.X); ok && typeIs(t, "parser", "Parser") && envFields[f] {
					taint[u] = true
				}
			}
		})
		// results of helpers that read the environment themselves (only predicates and value
		// helpers: a parse function's results are about the input)
		instrs(fn, func(in ssa.Instruction) {
			call, ok := in.(*ssa.Call)
			if !ok {
				return
			}
			g := callee(call)
			if g == nil || !readsEnv[g] || g == fn {
				return
			}
			res := g.Signature.Results()
			if res.Len() == 0 || isErrorType(res.At(res.Len()-1).Type()) {
				return
			}
			if c.T(fn).purity(g) >= purReadOnly {
				taint[call] = true
			}
		})
		if len(taint) == 0 {
			continue
		}
		for changed := true; changed; {
			changed = false
			instrs(fn, func(in ssa.Instruction) {
				v, ok := in.(ssa.Value)
				if !ok || taint[v] {
					return
				}
				if _, isErr := v.(*ssa.Call); isErr && isErrorCtorCall(v.(*ssa.Call)) {
					return
				}
				for _, op := range in.Operands(nil) {
					if op != nil && *op != nil && taint[*op] {
						taint[v] = true
						changed = true
						return
					}
				}
			})
		}
		fk := c.W.FuncKey(fn)
		for i, r := range returnsOf(fn) {
			if isSuccessReturn(r) || len(r.Results) == 0 {
				continue
			}
			call, isCall := r.Results[len(r.Results)-1].(*ssa.Call)
			if !isCall || !isErrorCtorCall(call) {
				continue
			}
			nErr++
			// branch conditions that decide whether this return is reached
			envCond := ""
			for d := r.Block().Idom(); d != nil; d = d.Idom() {
				if len(d.Instrs) == 0 {
					continue
				}
				ifi, isIf := d.Instrs[len(d.Instrs)-1].(*ssa.If)
				if !isIf || len(d.Succs) != 2 {
					continue
				}
				// decides: only one of the two branches can lead to r (without coming round to d again)
				reaches := func(from *ssa.BasicBlock) bool {
					seen := map[*ssa.BasicBlock]bool{d: true}
					stack := []*ssa.BasicBlock{from}
					for len(stack) > 0 {
						x := stack[len(stack)-1]
						stack = stack[:len(stack)-1]
						if x == r.Block() {
							return true
						}
						if seen[x] {
							continue
						}
						seen[x] = true
						stack = append(stack, x.Succs...)
					}
					return false
				}
				if reaches(d.Succs[0]) == reaches(d.Succs[1]) {
					continue
				}
				if taint[ifi.Cond] {
					envCond = pretty(c.term(fn, ifi.Cond))
				}
			}
			if envCond == "" {
				continue
			}
			nEnv++
			c.Check(hasLit(c.mustLits(fn, r.Block()), "+$0.enableEnvironmentErrors"), fmt.Sprintf("%s/env-error-under-flag#%d", fk, i), c.W.Pos(r.Pos()), "an error that depends on fonts / switches is raised only in normal mode", fn.Name()+" raises an error on a condition computed from environment data ("+envCond+") without testing enableEnvironmentErrors: lint mode, which has no fonts and no switches, would reject a program that normal mode accepts")
		}
	}
	c.Check(nEnv >= 3, "env-errors/scanned", "-", fmt.Sprintf("%d own errors of the parser examined, %d of them on environment-dependent conditions", nErr, nEnv), fmt.Sprintf("expected at least 3 environment-dependent errors, found %d", nEnv))
}

// lowerBound: a lower bound of an integer value that holds by construction — constants, lengths,
// sums, counters that start at a constant and only go up. minInt when nothing is known (a value
// read from memory, a difference, a counter that goes down).
const minInt = -1 << 62

func lowerBound(v ssa.Value) int64 {
	type frame struct {
		phi   *ssa.Phi
		delta int64
	}
	var lb func(v ssa.Value, delta int64, stack []frame) int64
	lb = func(v ssa.Value, delta int64, stack []frame) int64 {
		if len(stack) > 12 {
			return minInt
		}
		switch x := v.(type) {
		case *ssa.Const:
			if k, ok := intConst(x); ok {
				return int64(k)
			}
			return minInt
		case *ssa.Call:
			if n := calleeName(x); n == "builtin:len" || n == "builtin:cap" {
				return 0
			}
			return minInt
		case *ssa.Convert:
			return lb(x.X, delta, stack)
		case *ssa.ChangeType:
			return lb(x.X, delta, stack)
		case *ssa.BinOp:
			switch x.Op {
			case token.ADD:
				if k, ok := intConst(x.Y); ok {
					l := lb(x.X, delta+int64(k), stack)
					if l == minInt {
						return minInt
					}
					return l + int64(k)
				}
				a, b := lb(x.X, delta, nil), lb(x.Y, delta, nil)
				if a == minInt || b == minInt {
					return minInt
				}
				return a + b
			case token.SUB:
				if k, ok := intConst(x.Y); ok {
					l := lb(x.X, delta-int64(k), stack)
					if l == minInt {
						return minInt
					}
					return l - int64(k)
				}
				return minInt
			case token.MUL:
				a, b := lb(x.X, 0, nil), lb(x.Y, 0, nil)
				if a >= 0 && b >= 0 {
					return 0
				}
				return minInt
			case token.QUO, token.REM, token.SHR:
				if a := lb(x.X, 0, nil); a >= 0 {
					if b := lb(x.Y, 0, nil); b >= 0 {
						return 0
					}
				}
				return minInt
			}
			return minInt
		case *ssa.Phi:
			for _, f := range stack {
				if f.phi == x {
					// back at the counter: fine when the way round did not go down
					if delta-f.delta >= 0 {
						return 1 << 62
					}
					return minInt
				}
			}
			best := int64(1 << 62)
			for _, e := range x.Edges {
				l := lb(e, delta, append(stack, frame{x, delta}))
				if l < best {
					best = l
				}
			}
			return best
		}
		return minInt
	}
	r := lb(v, 0, nil)
	if r == 1<<62 {
		return minInt
	}
	return r
}
