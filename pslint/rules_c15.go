package main

// C15 — labels are exported or local exactly as written or as documented by default.

import (
	"fmt"
	"strings"

	"golang.org/x/tools/go/ssa"
)

func init() {
	property("C15",
		"Static conformance of the scope mechanism: (a) the default scope constant each top-level parser passes to the scope-modifier parser equals the README default and its result is what is stored in the statement's Scope; (b) the scope-modifier parser returns the default without '(' and otherwise the type of the GLOBAL/LOCAL token it tested; (c) every label-definition site of the emitter writes the '::' form exactly under the statement's scope flag and the ':' form otherwise, printing the statement's own name; (d) every other label-definition format has no '::' variant and every node the compiler invents is built with a local scope constant. Decides the structural clauses only; it does not run the compiler.",
		[]string{"oracle (README): script/text/mapscripts default global; movement/mart default local; labels in scripts local unless (global)",
			"go/ssa lowering is faithful to the source"},
		"C15.a", "C15.b", "C15.c", "C15.d", "C19.d", "C10.f", "C06.e", "C10.g", "C08.e", "C18.m", "C09.c", "C18.d", "C18.n")

	register(&Rule{ID: "C15.a", Doc: "default scope per statement kind equals the documented default and is stored in Scope", Floor: 5, Run: c15a})
	register(&Rule{ID: "C15.b", Doc: "parseScopeModifier returns default without '(' else the tested GLOBAL/LOCAL token type", Floor: 2, Run: c15b})
	register(&Rule{ID: "C15.c", Doc: "'::' label form written exactly under the scope flag, ':' otherwise, with the statement's name", Floor: 12, Run: c15c})
	register(&Rule{ID: "C15.d", Doc: "compiler-invented labels and nodes are local", Floor: 8, Run: c15d})
}

func c15a(c *Ctx) {
	psm := c.Fn("parser.Parser.parseScopeModifier")
	if psm == nil {
		return
	}
	type row struct{ fn, def, typ string }
	rows := []row{
		{"parser.Parser.parseScriptStatement", "GLOBAL", "ScriptStatement"},
		{"parser.Parser.parseTextStatement", "GLOBAL", "TextStatement"},
		{"parser.Parser.parseMovementStatement", "LOCAL", "MovementStatement"},
		{"parser.Parser.parseMartStatement", "LOCAL", "MartStatement"},
		{"parser.Parser.parseMapscriptsStatement", "GLOBAL", "MapScriptsStatement"},
	}
	for _, r := range rows {
		fn := c.Fn(r.fn)
		if fn == nil {
			continue
		}
		key := r.fn + "/default-scope"
		// the value stored in <stmt>.Scope of the node that is returned: followed backwards (also
		// through a header-parsing helper) it must be the result of parseScopeModifier(<default>)
		var stored ssa.Value
		detail := ""
		for _, a := range allocsOf(fn, "ast", r.typ) {
			for _, ret := range returnsOf(fn) {
				if !isSuccessReturn(ret) || len(ret.Results) == 0 || ret.Results[0] != ssa.Value(a) {
					continue
				}
				want := c.fieldAtUse(fn, a, "Scope", ret)
				for _, st := range storesToField(fn, "ast", r.typ, "Scope") {
					if c.term(fn, st.Val) == want {
						stored = st.Val
					}
				}
				if stored == nil {
					detail = fmt.Sprintf("returned %s has Scope = %s, which is not a value stored from a scope-modifier parse", r.typ, want)
				}
			}
		}
		if stored == nil {
			if detail == "" {
				detail = "no successful return of a " + r.typ + " whose Scope is the parseScopeModifier result"
			}
			c.Bad(key, c.W.FuncPos(fn), detail)
			continue
		}
		ok := true
		n := 0
		for _, o := range c.originsOf(fn, stored, psm, 2) {
			n++
			if o.call == nil || callee(o.call) != psm || o.idx != 0 {
				ok = false
				detail = fmt.Sprintf("%s.Scope can be %s, which is not the result of parseScopeModifier", r.typ, pretty(c.term(o.fn, o.v)))
				continue
			}
			got, isC := strConst(o.call.Common().Args[1])
			if !isC || got != r.def {
				ok = false
				detail = fmt.Sprintf("default scope passed is %q, README says %s", got, r.def)
			}
		}
		if ok && n > 0 {
			c.OK(key, c.W.FuncPos(fn), fmt.Sprintf("parseScopeModifier(%s) result stored in %s.Scope of the returned node", r.def, r.typ))
		} else {
			if detail == "" {
				detail = "cannot trace the stored scope to a parseScopeModifier call"
			}
			c.Bad(key, c.W.FuncPos(fn), detail)
		}
	}
}

func c15b(c *Ctx) {
	fn := c.Fn("parser.Parser.parseScopeModifier")
	if fn == nil {
		return
	}
	nDefault, nTok := 0, 0
	for _, ret := range returnsOf(fn) {
		if !isSuccessReturn(ret) {
			continue
		}
		v := c.term(fn, ret.Results[0])
		pos := c.W.Pos(ret.Pos())
		switch {
		case v == "$1":
			ok := hasLit(c.mustLits(fn, ret.Block()), `-($0.peekToken.Type == "(")`)
			c.Check(ok, "return-default", pos, "default returned exactly when the next token is not '('", "default scope returned on a path where the next token may be '(': "+c.canonDNF(fn, ret.Block()))
			nDefault++
		case v == "$0.peek2Token.Type":
			ok := c.everyConjHasOneOf(fn, ret.Block(), `+($0.peek2Token.Type == "GLOBAL")`, `+($0.peek2Token.Type == "LOCAL")`) &&
				hasLit(c.mustLits(fn, ret.Block()), `+($0.peekToken.Type == "(")`) && hasLit(c.mustLits(fn, ret.Block()), `+($0.peek3Token.Type == ")")`)
			c.Check(ok, "return-modifier", pos, "returns the type of the token after '(' which was tested to be GLOBAL or LOCAL and is followed by ')'", "modifier token returned without the GLOBAL/LOCAL/paren tests: "+c.canonDNF(fn, ret.Block()))
			nTok++
		default:
			c.Bad("return-other", pos, "successful return of "+v+", which is neither the default nor the type of the token after '('")
		}
	}
	if nDefault == 0 {
		c.Bad("return-default", c.W.FuncPos(fn), "no successful return of the default scope")
	}
	if nTok == 0 {
		c.Bad("return-modifier", c.W.FuncPos(fn), "no successful return of the written modifier")
	}
}

type labelSite struct {
	fn    string
	name  string   // canonical term of the printed name
	guard []string // literals that must all hold for '::'
}

var c15Sites = []labelSite{
	{"emitter.Emitter.emitMapScriptStatement", "$1.Name.Value", []string{`($1.Scope == "GLOBAL")`}},
	{"emitter.chunk.renderLabel", "(*emitter.chunk).getLabel($0,$1)@0", []string{`($0.id == 0)`, `$2`}},
	{"emitter.Emitter.emitText", "$1.Name", []string{`$1.IsGlobal`}},
	{"emitter.Emitter.emitMovementStatement", "$1.Name.Value", []string{`($1.Scope == "GLOBAL")`}},
	{"emitter.Emitter.emitMartStatement", "$1.Name.Value", []string{`($1.Scope == "GLOBAL")`}},
	{"emitter.renderLabelStatement", "$0.Name.Value", []string{`$0.IsGlobal`}},
}

func c15c(c *Ctx) {
	c15cChain(c)
	for _, s := range c15Sites {
		fn := c.Fn(s.fn)
		if fn == nil {
			continue
		}
		// sites are grouped by the write they come from: a write whose name operand is itself a
		// choice (`getLabel` = the script name for chunk 0, <script>_<id> otherwise) appears as
		// several alternatives of one write and is judged as that one write
		var glob, loc []writeSite
		merge := func(list []writeSite, ws writeSite) []writeSite {
			for i := range list {
				if list[i].call == ws.call && list[i].inner == ws.inner {
					list[i].cond = orDNF(list[i].cond, ws.cond)
					return list
				}
			}
			return append(list, ws)
		}
		nameOf := func(ws writeSite) string {
			if ws.alt > 0 && len(ws.origT) >= 1 {
				return ws.origT[0]
			}
			if len(ws.argT) == 1 {
				return ws.argT[0]
			}
			return ""
		}
		for _, ws := range c.sitesOf(fn) {
			if !ws.isFmt {
				continue
			}
			// the label line: "<name>::\n" / "<name>:\n", the name being one operand (possibly
			// already resolved into alternatives, which may be constants folded into the format)
			f := ws.format
			switch {
			case strings.HasSuffix(f, "::\n") && (f == "%s::\n" || ws.alt > 0) && !strings.HasPrefix(f, "\t"):
				ws.argT = []string{nameOf(ws)}
				glob = merge(glob, ws)
			case strings.HasSuffix(f, ":\n") && !strings.HasSuffix(f, "::\n") && (f == "%s:\n" || ws.alt > 0) && !strings.HasPrefix(f, "\t"):
				if nameOf(ws) == s.name {
					ws.argT = []string{nameOf(ws)}
					loc = merge(loc, ws)
				}
			}
		}
		if len(glob) != 1 {
			c.Bad(s.fn+"/global-form", c.W.FuncPos(fn), fmt.Sprintf("expected exactly one '%%s::' write, found %d", len(glob)))
		} else {
			g := glob[0]
			pos := c.W.Pos(g.call.Pos())
			name := ""
			if len(g.argT) == 1 {
				name = g.argT[0]
			}
			must := siteMust(g)
			ok := name == s.name
			why := ""
			if !ok {
				why = fmt.Sprintf("'::' form prints %s, expected %s", name, s.name)
			}
			for _, l := range s.guard {
				if !hasLit(must, "+"+l) {
					ok = false
					why += fmt.Sprintf(" '::' form not guarded by %s (holds: %v)", l, must)
				}
			}
			// no additional guard may restrict it (other than enclosing unrelated conditions): the
			// reaching condition must be exactly the conjunction
			if ok {
				gotD := g.cond
				if !dnfEquiv(gotD, mkDNF(sortedPlus(s.guard))) {
					ok = false
					why = fmt.Sprintf("'::' form reached under %s, expected exactly %s", gotD, strings.Join(s.guard, " && "))
				}
			}
			c.Check(ok, s.fn+"/global-form", pos, "'::' written exactly under "+strings.Join(s.guard, " && ")+" with name "+s.name, why)
		}
		if len(loc) != 1 {
			c.Bad(s.fn+"/local-form", c.W.FuncPos(fn), fmt.Sprintf("expected exactly one '%%s:' write of %s, found %d", s.name, len(loc)))
		} else {
			l := loc[0]
			// complement: one conjunct per guard literal, negated
			var conjs [][]string
			var parts []string
			for _, g := range s.guard {
				conjs = append(conjs, []string{"-" + g})
				parts = append(parts, "!"+g)
			}
			want := strings.Join(parts, " || ")
			gotD := l.cond
			got := gotD.String()
			eq := dnfEquiv(gotD, mkDNF(conjs...))
			c.Check(eq, s.fn+"/local-form", c.W.Pos(l.call.Pos()), "':' written exactly when the scope flag is off", fmt.Sprintf("':' form reached under %s, expected %s", got, want))
		}
	}
}

// c15cChain: the scope of a script reaches renderLabel: emitScriptStatement passes
// (Scope == GLOBAL) of the statement it is emitting to renderChunks, which hands it on.
func c15cChain(c *Ctx) {
	es := c.Fn("emitter.Emitter.emitScriptStatement")
	rc := c.Fn("emitter.Emitter.renderChunks")
	rl := c.Fn("emitter.chunk.renderLabel")
	if es == nil || rc == nil || rl == nil {
		return
	}
	ok := false
	got := ""
	// every call, not one of them (an extra fast path with a constant flag exports local scripts)
	for i, call := range callsToIn(es, rc) {
		a := call.Common().Args
		g := c.term(es, a[3])
		this := g == `($1.Scope == "GLOBAL")` && c.term(es, a[2]) == "$1.Name.Value"
		if i == 0 {
			ok = this
		} else {
			ok = ok && this
		}
		if !this || got == "" {
			got = g
		}
	}
	c.Check(ok, "emitScriptStatement/passes-own-scope", c.W.FuncPos(es), "the entry label's scope is the scope of the script being emitted", "emitScriptStatement passes "+got+" as the export flag; expected (scriptStmt.Scope == GLOBAL) of the very script it emits (inline map scripts carry LOCAL)")
	ok2 := false
	for i, call := range callsToIn(rc, rl) {
		a := call.Common().Args
		this := c.term(rc, a[1]) == "$2" && c.term(rc, a[2]) == "$3"
		if i == 0 {
			ok2 = this
		} else {
			ok2 = ok2 && this
		}
	}
	c.Check(ok2, "renderChunks/passes-scope-on", c.W.FuncPos(rc), "renderChunks hands script name and export flag to renderLabel", "renderChunks does not pass (scriptName, isGlobal) on to renderLabel")
	// the scope of a node is decided where the node is parsed: Scope / IsGlobal are stored only
	// into a node the storing function has just made (a later pass that "corrects" the scope of
	// some statements would not be seen by C15.a, which reads the value at the parser's return)
	nStores := 0
	for _, f := range c.W.Funcs {
		if isTestFunc(c.W, f) {
			continue
		}
		instrs(f, func(in ssa.Instruction) {
			st, ok := in.(*ssa.Store)
			if !ok {
				return
			}
			_, t, fld, ok := fieldAddrOf(st.Addr)
			if !ok || (fld != "Scope" && fld != "IsGlobal") {
				return
			}
			n := namedOf(deref(t))
			if n == nil || n.Obj().Pkg() == nil || n.Obj().Pkg().Name() != "ast" {
				return
			}
			nStores++
			ra, fresh := rootValue(st.Addr).(*ssa.Alloc)
			if fresh && ra.Comment != "complit" && ra.Comment != "new" {
				// a local that holds a copy of an existing node (a range variable, `m := *stmt`):
				// under construction only if nothing was copied into it whole
				for _, r := range *ra.Referrers() {
					if w, ok := r.(*ssa.Store); ok && w.Addr == ssa.Value(ra) {
						fresh = false
					}
				}
			}
			c.Check(fresh, fmt.Sprintf("%s/scope-store[%s.%s]#%d", c.W.FuncKey(f), n.Obj().Name(), fld, nStores), c.W.Pos(st.Pos()), "the scope is stored into a node under construction", f.Name()+" changes the "+fld+" of an existing "+n.Obj().Name()+": the scope written in the source (or the documented default) would be overridden after parsing")
		})
	}
	c.Check(nStores >= 5, "scope-stores/scanned", "-", fmt.Sprintf("%d stores to Scope / IsGlobal fields of AST nodes", nStores), fmt.Sprintf("expected at least 5 stores to Scope / IsGlobal, found %d", nStores))
}

func sortedPlus(ls []string) []string {
	var out []string
	for _, l := range ls {
		out = append(out, "+"+l)
	}
	sortStrings(out)
	return out
}

func c15d(c *Ctx) {
	// (1) no other '::' format anywhere in package emitter
	allowed := map[string]bool{}
	for _, s := range c15Sites {
		allowed[s.fn] = true
	}
	n := 0
	duties := c.siteDuties(c.W.FuncsOf("emitter"),
		func(ws writeSite) bool { return strings.Contains(ws.format, "::") },
		func(fn *ssa.Function, ws writeSite) bool { return allowed[anchorOf(c.W, fn)] })
	for _, d := range duties {
		n++
		key := c.W.FuncKey(d.fn)
		pos := c.W.Pos(d.ws.call.Pos())
		if d.transferred {
			c.OK(key+"/exported-format-by-callers", pos, "'::' format in a label-writing helper; every caller is a scope-checked label site (C15.c sees the write inlined)")
			continue
		}
		c.Check(d.ok, key+"/exported-format", pos, "'::' format belongs to a scope-checked label site", "a label is exported ('::' in format "+q(d.ws.format)+") outside the scope-checked sites")
	}
	// (1') the emitter renders the label nodes the parser made: it builds none of its own (a
	// re-created label would have to copy the export flag, and a dropped flag is silent)
	{
		n := 0
		for _, fn := range c.W.FuncsOf("emitter") {
			if isTestFunc(c.W, fn) {
				continue
			}
			for _, a := range allocsOf(fn, "ast", "LabelStatement") {
				n++
				c.Bad(c.W.FuncKey(fn)+"/label-node-built-in-emitter", c.W.Pos(a.Pos()), "the emitter builds an ast.LabelStatement of its own: a label's scope (IsGlobal) is what the parser recorded, and a rebuilt node renders with whatever the emitter copied")
			}
		}
		if n == 0 {
			c.OK("emitter/no-label-nodes", "-", "the emitter creates no label nodes")
		}
	}
	// (2) table labels are local
	if fn := c.Fn("emitter.Emitter.emitMapScriptStatement"); fn != nil {
		found := false
		for _, ws := range c.sitesOf(fn) {
			if ws.isFmt && ws.format == "%s:\n" && len(ws.argT) == 1 && strings.HasSuffix(ws.argT[0], ".Name") && !strings.HasSuffix(ws.argT[0], ".Name.Value") {
				found = true
				c.OK("emitMapScriptStatement/table-label", c.W.Pos(ws.call.Pos()), "table label written with ':'")
			}
		}
		if !found {
			c.Bad("emitMapScriptStatement/table-label", c.W.FuncPos(fn), "no local ':' label write for map script tables found")
		}
	}
	// (3) invented nodes carry local scope constants
	type inv struct{ fn, pkg, typ, field, want string }
	for _, x := range []inv{
		{"parser.Parser.addImplicitTexts", "ast", "Text", "IsGlobal", "false|zero"},
		{"parser.Parser.addImplicitMovements", "ast", "MovementStatement", "Scope", `"LOCAL"`},
		{"parser.Parser.parseMapscriptsStatement", "ast", "ScriptStatement", "Scope", `"LOCAL"`},
	} {
		fn := c.Fn(x.fn)
		if fn == nil {
			continue
		}
		// nodes built by the function or by one of its private helpers
		type built struct {
			fn *ssa.Function
			a  *ssa.Alloc
		}
		var as []built
		for _, m := range c.unitOf(fn) {
			for _, a := range allocsOf(m.fn, x.pkg, x.typ) {
				as = append(as, built{m.fn, a})
			}
		}
		if len(as) == 0 {
			c.Bad(x.fn+"/"+x.typ, c.W.FuncPos(fn), "no "+x.typ+" is built here any more")
			continue
		}
		for i, b := range as {
			a := b.a
			// value at the last instruction of the allocation's block chain: use the point after
			// the last store into the object
			use := lastUse(a)
			got := c.fieldAtUse(b.fn, a, x.field, use)
			ok := false
			for _, w := range strings.Split(x.want, "|") {
				if got == w {
					ok = true
				}
			}
			c.Check(ok, fmt.Sprintf("%s/%s#%d.%s", x.fn, x.typ, i, x.field), c.W.Pos(a.Pos()), x.typ+"."+x.field+" = "+got, x.typ+"."+x.field+" of a compiler-generated node is "+got+", expected "+x.want)
		}
	}
	// (4) explicit texts: IsGlobal = (Scope == GLOBAL)
	if fn := c.Fn("parser.Parser.ParseProgram"); fn != nil {
		as := c.builtTexts(fn)
		if len(as) == 0 {
			c.Bad("ParseProgram/Text.IsGlobal", c.W.FuncPos(fn), "ParseProgram no longer builds ast.Text values")
		}
		for i, a := range as {
			got := a.f["IsGlobal"]
			ok := strings.HasSuffix(got, `.Scope == "GLOBAL")`)
			c.Check(ok, fmt.Sprintf("ParseProgram/Text#%d.IsGlobal", i), a.pos, "IsGlobal = "+got, "explicit text IsGlobal is "+got+", expected (<text statement>.Scope == GLOBAL)")
		}
	}
	// (5) labels inside scripts (the node may be built in place or by a constructor helper)
	if fn := c.Fn("parser.Parser.tryParseLabelStatement"); fn != nil {
		seen := map[string]bool{}
		for i, r := range returnsOf(fn) {
			if len(r.Results) != 1 || isNilConst(r.Results[0]) {
				continue
			}
			def, ok := unwrapIface(r.Results[0]).(ssa.Instruction)
			f := c.valueFields(fn, r.Results[0], r)
			if !ok || f == nil {
				c.Bad(fmt.Sprintf("tryParseLabelStatement/label#%d", i), c.W.Pos(r.Pos()), "returned label is neither a composite literal nor the result of a constructor helper")
				continue
			}
			got := f["IsGlobal"]
			// the form is known where the label is handed back (the node itself may be made earlier, once for both forms)
			blk := r.Block()
			cond := c.canonDNF(fn, blk)
			pos := c.W.Pos(def.Pos())
			switch {
			case strings.Contains(cond, `+($0.peekToken.Type == ":")`):
				c.Check(got == "false" || got == "zero", "tryParseLabelStatement/plain-label", pos, "'name:' is local", "'name:' label has IsGlobal = "+got)
				seen["plain"] = true
			case strings.Contains(cond, `+($0.peekToken.Type == "(")`):
				must := c.mustLits(fn, blk)
				scopeTested := c.everyConjHasOneOf(fn, blk, `+($0.peek2Token.Type == "GLOBAL")`, `+($0.peek2Token.Type == "LOCAL")`)
				if !scopeTested {
					// the modifier test kept in a local (`hasScope := a || b`): a boolean merge that is
					// known true here, every way of which is one of the two tests
					pcf := c.PC(fn)
					for _, l := range must {
						if !strings.HasPrefix(l, "+phi(") || strings.Contains(l, " == ") {
							continue
						}
						ph, isPhi := c.valueOfTerm(fn, l[1:]).(*ssa.Phi)
						if !isPhi {
							continue
						}
						if ways, known := pcf.valueWays(ph, ph.Block(), true, 0); known && len(ways) > 0 {
							all := true
							for _, w := range ways {
								cw := pcf.canonOf(dnf{cs: []conj{w}}).cs[0]
								if !hasLit(cw, `+($0.peek2Token.Type == "GLOBAL")`) && !hasLit(cw, `+($0.peek2Token.Type == "LOCAL")`) {
									all = false
								}
							}
							scopeTested = scopeTested || all
						}
					}
				}
				shape := hasLit(must, `+($0.peekToken.Type == "(")`) && hasLit(must, `+($0.peek3Token.Type == ")")`) && hasLit(must, `+($0.peek4Token.Type == ":")`) && scopeTested
				c.Check(shape, "tryParseLabelStatement/scoped-label-shape", pos, "a scoped label is exactly  name ( global|local ) :", "a scoped label is recognised without all of '(' , global|local , ')' and ':' being tested: a command such as name(local) could be taken for a label")
				c.Check(got == `($0.peek2Token.Type == "GLOBAL")`, "tryParseLabelStatement/scoped-label", pos, "'name(scope):' is global iff the written modifier is GLOBAL", "'name(scope):' label has IsGlobal = "+got+", expected ($0.peek2Token.Type == \"GLOBAL\") evaluated at the label name")
				seen["scoped"] = true
			default:
				c.Bad(fmt.Sprintf("tryParseLabelStatement/label#%d", i), pos, "label built under an unexpected condition "+cond)
			}
		}
		if !seen["plain"] || !seen["scoped"] {
			c.Bad("tryParseLabelStatement/forms", c.W.FuncPos(fn), "expected both the 'name:' and the 'name(scope):' label forms")
		}
	}
	_ = n
}

// anchorOf renders fn as an anchor string pkg.Type.Method / pkg.Func.
func anchorOf(w *World, fn *ssa.Function) string {
	pkg := w.PkgShort(fn)
	if recv := fn.Signature.Recv(); recv != nil {
		n := namedOf(recv.Type())
		if n != nil {
			return pkg + "." + n.Obj().Name() + "." + fn.Name()
		}
	}
	return pkg + "." + fn.Name()
}

// lastUse returns an instruction after all stores into the fields of allocation a in its
// function: the first non-store use (call/return/store of the pointer) following them.
func lastUse(a *ssa.Alloc) ssa.Instruction {
	var last ssa.Instruction
	for _, ref := range *a.Referrers() {
		switch r := ref.(type) {
		case *ssa.FieldAddr:
			for _, r2 := range *r.Referrers() {
				if st, ok := r2.(*ssa.Store); ok && st.Addr == ssa.Value(r) {
					if last == nil || instrDominates(last, st) {
						last = st
					}
				}
			}
		}
	}
	if last == nil {
		// no field stores: use the terminator of the allocation block
		b := a.Block()
		return b.Instrs[len(b.Instrs)-1]
	}
	b := last.Block()
	i := idxInBlock(last)
	if i+1 < len(b.Instrs) {
		return b.Instrs[i+1]
	}
	return last
}
