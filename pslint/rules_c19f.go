package main

import (
	"fmt"
	"go/token"
	"go/types"
	"sort"
	"strings"

	"golang.org/x/tools/go/ssa"
)

func init() {
	register(&Rule{ID: "C19.f", Doc: "token literals are spelled by the source: a Literal is made of input slices, the characters read, and constant text; the lexer applies no text transformation other than the reviewed ones", Floor: 13, Run: c19f})
}

// lexerTransforms: the foreign string-returning calls the lexer may make, by function.
// (*strings.Builder).String is the read-out of text the function wrote itself.
var lexerTransforms = map[string]string{
	"readRaw|strings.TrimRightFunc": "raw blocks drop trailing white space before the closing back quote (documented)",
}

// c19f: everything downstream (argument passthrough C10, text content C09/C06, constants C13,
// numbers C14) takes Token.Literal to be what the author wrote. Two clauses:
//  (1) who-may-transform: a call from package lexer to a function outside the repository that
//      returns a string is one of lexerTransforms (or a builder read-out, or inside a panic message);
//  (2) every value stored into a Literal field in package lexer is built from: constants,
//      string(<character read>), slices of l.input, results of lexer functions, concatenations.
func c19f(c *Ctx) {
	nCalls := 0
	seen := map[string]bool{}
	for _, fn := range c.W.FuncsOf("lexer") {
		if isTestFunc(c.W, fn) {
			continue
		}
		for _, ci := range callsIn(fn) {
			g := callee(ci)
			if g == nil || c.W.InRepo(g) {
				continue
			}
			res := g.Signature.Results()
			retStr := false
			for i := 0; i < res.Len(); i++ {
				if b, ok := res.At(i).Type().Underlying().(*types.Basic); ok && b.Info()&types.IsString != 0 {
					retStr = true
				}
				if sl, ok := res.At(i).Type().Underlying().(*types.Slice); ok {
					if b, ok := sl.Elem().Underlying().(*types.Basic); ok && (b.Kind() == types.Byte || b.Kind() == types.Rune) {
						retStr = true
					}
				}
			}
			if !retStr {
				continue
			}
			n := calleeName(ci)
			if n == "(*strings.Builder).String" {
				continue
			}
			// text for a panic message is not token text
			if v, ok := ci.(ssa.Value); ok && onlyFeedsPanic(v, 0) {
				continue
			}
			nCalls++
			k := fn.Name() + "|" + n
			seen[k] = true
			_, okT := lexerTransforms[k]
			c.Check(okT, "transform/"+k, c.W.Pos(ci.Pos()), "reviewed transformation: "+lexerTransforms[k], fn.Name()+" passes text through "+n+": token literals would no longer be spelled the way the source spells them (arguments, numbers and text are passed on literally)")
		}
	}
	for k := range lexerTransforms {
		c.Check(seen[k], "transform-table/"+k, "-", "reviewed transformation still present", "the reviewed transformation "+k+" is gone: update the table")
	}
	// (2) Literal stores
	nStores := 0
	for _, fn := range c.W.FuncsOf("lexer") {
		if isTestFunc(c.W, fn) {
			continue
		}
		var allowed func(v ssa.Value, depth int) string
		allowed = func(v ssa.Value, depth int) string {
			if depth > 8 {
				return "too deep"
			}
			switch x := v.(type) {
			case *ssa.Const:
				return ""
			case *ssa.BinOp:
				if x.Op != token.ADD {
					return "operator " + x.Op.String()
				}
				if w := allowed(x.X, depth+1); w != "" {
					return w
				}
				return allowed(x.Y, depth+1)
			case *ssa.Convert:
				// string(ch): a character that was read
				t := c.term(fn, x.X)
				if t == "$0.ch" || strings.HasPrefix(t, "mu(") && strings.HasSuffix(t, "$0.ch)") || strings.HasPrefix(t, "$") && !strings.Contains(t, ".") {
					return ""
				}
				if ld, ok := x.X.(*ssa.UnOp); ok {
					if _, _, f, ok := fieldAddrOf(ld.X); ok && f == "ch" {
						return ""
					}
				}
				if _, ok := x.X.(*ssa.Parameter); ok {
					return ""
				}
				return "conversion of " + pretty(t)
			case *ssa.Slice:
				t := c.term(fn, x.X)
				if t == "$0.input" || strings.HasSuffix(t, "$0.input)") {
					// ... cut at positions of the lexer — where a token started and where the
					// lexer stands now — not at a computed offset (`position + 1` ends in the
					// middle of a character of several bytes)
					for _, b := range []ssa.Value{x.Low, x.High} {
						if b == nil {
							continue
						}
						var leaves []ssa.Value
						phiLeaves(b, map[ssa.Value]bool{}, &leaves)
						for _, lf := range leaves {
							ld, isLd := lf.(*ssa.UnOp)
							okPos := false
							if isLd {
								if _, lt, f, okF := fieldAddrOf(ld.X); okF && typeIs(lt, "lexer", "Lexer") && (f == "position" || f == "readPosition") {
									okPos = true
								}
							}
							if !okPos {
								return "the input cut at " + pretty(c.term(fn, lf)) + ", which is not a position the lexer stood at"
							}
						}
					}
					return ""
				}
				return "slice of " + pretty(t)
			case *ssa.Phi:
				for _, e := range x.Edges {
					if e == v {
						continue
					}
					if w := allowed(e, depth+1); w != "" {
						return w
					}
				}
				return ""
			case *ssa.Extract:
				return allowed(x.Tuple, depth+1)
			case *ssa.Call:
				g := callee(x)
				if g != nil && c.W.InRepo(g) && c.W.PkgShort(g) == "lexer" {
					return ""
				}
				if calleeName(x) == "(*strings.Builder).String" {
					return ""
				}
				if _, ok := lexerTransforms[fn.Name()+"|"+calleeName(x)]; ok {
					return ""
				}
				return "result of " + calleeName(x)
			case *ssa.UnOp:
				// load of a local holding one of the above
				if a, ok := x.X.(*ssa.Alloc); ok {
					for _, alt := range c.reachingStores(fn, a, x) {
						if alt.val == nil {
							continue
						}
						if w := allowed(alt.val, depth+1); w != "" {
							return w
						}
					}
					return ""
				}
				if _, _, f, ok := fieldAddrOf(x.X); ok && f == "Literal" {
					return "" // copy of another token's literal
				}
				return "load of " + pretty(c.term(fn, x.X))
			}
			return fmt.Sprintf("%T", v)
		}
		// (3) text accumulated in a builder: characters read and constants
		for _, ci := range callsIn(fn) {
			n := calleeName(ci)
			a := ci.Common().Args
			switch n {
			case "(*strings.Builder).WriteString":
				why := allowed(a[1], 0)
				c.Check(why == "", fmt.Sprintf("builder/%s@%d", fn.Name(), c.T(fn).callOrd[ci]), c.W.Pos(ci.Pos()), "the builder receives source text or constants", fn.Name()+" accumulates text that is not source text: "+why)
			case "(*strings.Builder).WriteRune", "(*strings.Builder).WriteByte":
				_, isConst := a[1].(*ssa.Const)
				t := stripLoopTags(c.term(fn, a[1]))
				okR := isConst
				if ld, ok := a[1].(*ssa.UnOp); ok {
					if _, lt, f, ok := fieldAddrOf(ld.X); ok && f == "ch" && typeIs(lt, "lexer", "Lexer") {
						okR = true
					}
				}
				c.Check(okR, fmt.Sprintf("builder/%s@%d", fn.Name(), c.T(fn).callOrd[ci]), c.W.Pos(ci.Pos()), "the builder receives the character read or a constant", fn.Name()+" accumulates "+pretty(t)+", which is neither the character read nor a constant")
				// ... every one of them: a loop that copies the characters it reads copies each
				// (a character that is consumed but not written is missing from the literal)
				if okR && !isConst && loopHeaders(fn)[ci.Block()] != nil {
					w, skip := iterationSkips(fn, ci.(ssa.Instruction))
					c.Check(!skip, fmt.Sprintf("builder/%s@%d/every-character", fn.Name(), c.T(fn).callOrd[ci]), c.W.Pos(ci.Pos()), "every character the loop reads is written", fn.Name()+" can consume a character without writing it (an iteration can reach "+c.nearPos(w)+" without the write): the literal would not be what the source spells")
				}
			}
		}
		// what a reader of the lexer hands back as text is itself source text (its result is
		// accepted as such where it is stored into a Literal)
		if res := fn.Signature.Results(); res.Len() > 0 && fn.Signature.Recv() != nil {
			for ri := 0; ri < res.Len(); ri++ {
				if b, ok := res.At(ri).Type().Underlying().(*types.Basic); !ok || b.Kind() != types.String {
					continue
				}
				for k, r := range returnsOf(fn) {
					if ri >= len(r.Results) {
						continue
					}
					why := allowed(r.Results[ri], 0)
					c.Check(why == "", fmt.Sprintf("returned-text/%s#%d.%d", fn.Name(), k, ri), c.W.Pos(r.Pos()), "the text a lexer function returns is source text", fn.Name()+" returns text that is not source text: "+why)
				}
			}
		}
		instrs(fn, func(in ssa.Instruction) {
			st, ok := in.(*ssa.Store)
			if !ok {
				return
			}
			_, t, f, ok := fieldAddrOf(st.Addr)
			if !ok || f != "Literal" || !typeIs(t, "token", "Token") {
				return
			}
			nStores++
			why := allowed(st.Val, 0)
			c.Check(why == "", fmt.Sprintf("literal/%s#%d", fn.Name(), nStores), c.W.Pos(st.Pos()), "Literal is made of source text and constants", "a token Literal in "+fn.Name()+" is not made of source text: "+why)
			// constant text spliced in front of what was read stands for characters that were
			// consumed: each of them was tested to be exactly that character (`"0x" + hex digits`
			// after `ch == '0'` and `peekChar() == 'x'` — not after `'x' or 'X'`)
			if bo, isCat := st.Val.(*ssa.BinOp); isCat && bo.Op == token.ADD {
				if pre, isC := strConst(bo.X); isC && len(pre) > 0 && len(pre) <= 2 {
					must := c.mustLits(fn, st.Block())
					var missing []string
					for i := 0; i < len(pre); i++ {
						want := fmt.Sprintf(" == %d)", pre[i])
						found := false
						for _, l := range must {
							l2 := verRe.ReplaceAllString(l, "")
							if !strings.HasPrefix(l2, "+(") || !strings.HasSuffix(l2, want) {
								continue
							}
							if (i == 0 && strings.HasPrefix(l2, "+($0.ch")) || (i == 1 && strings.Contains(l2, "peekChar(")) {
								found = true
							}
						}
						if !found {
							missing = append(missing, string(pre[i]))
						}
					}
					c.Check(len(missing) == 0, fmt.Sprintf("literal/%s#%d/constant-prefix-was-read", fn.Name(), nStores), c.W.Pos(st.Pos()), "the constant prefix "+pre+" spells characters that were tested to be exactly those", fmt.Sprintf("the literal starts with the constant %q, but the characters consumed are not known to be exactly %v at this point: the token would be spelled differently from the source (0X… turned into 0x…)", pre, missing))
				}
			}
		})
	}
	// (3) no home-made transformation either: the lexer never takes a text apart into bytes or
	// runes and puts it together again (`b := []byte(s); b[i] = …; string(b)`); the only
	// conversion to a string is that of the character read
	nConv := 0
	for _, fn := range c.W.FuncsOf("lexer") {
		if isTestFunc(c.W, fn) || len(fn.Blocks) == 0 {
			continue
		}
		k := 0
		instrs(fn, func(in ssa.Instruction) {
			cv, ok := in.(*ssa.Convert)
			if !ok {
				return
			}
			isText := func(t types.Type) (str, seq bool) {
				if b, ok := t.Underlying().(*types.Basic); ok && b.Info()&types.IsString != 0 {
					return true, false
				}
				if sl, ok := t.Underlying().(*types.Slice); ok {
					if b, ok := sl.Elem().Underlying().(*types.Basic); ok && (b.Kind() == types.Byte || b.Kind() == types.Uint8 || b.Kind() == types.Rune || b.Kind() == types.Int32) {
						return false, true
					}
				}
				return false, false
			}
			fs, fq := isText(cv.X.Type())
			ts, tq := isText(cv.Type())
			if (fs && tq) || (fq && ts) {
				nConv++
				k++
				c.Bad(fmt.Sprintf("%s/text-taken-apart#%d", fn.Name(), k), c.W.Pos(cv.Pos()), fn.Name()+" converts between a string and its bytes / runes ("+pretty(c.term(fn, cv))+"): text that is taken apart and put together again need not be spelled the way the source spells it")
			}
		})
	}
	c.Check(nStores >= 12, "literal/stores", "-", fmt.Sprintf("%d Literal stores in package lexer examined, %d foreign text calls", nStores, nCalls), fmt.Sprintf("expected at least 12 Literal stores in package lexer, found %d", nStores))
	_ = sort.Strings
}

// onlyFeedsPanic: every use of v leads (through interface boxing, slices of arguments and
// formatting calls) to a panic.
func onlyFeedsPanic(v ssa.Value, depth int) bool {
	refs := v.Referrers()
	if refs == nil || len(*refs) == 0 || depth > 5 {
		return false
	}
	for _, r := range *refs {
		switch y := r.(type) {
		case *ssa.Panic:
		case *ssa.MakeInterface:
			if !onlyFeedsPanic(y, depth+1) {
				return false
			}
		case *ssa.DebugRef:
		default:
			return false
		}
	}
	return true
}
