package main

// Output grammar. The text a function writes into its builder, over all paths, is
// over-approximated by a regular language: the control-flow graph is read as an automaton
// whose letters are the write sites (their templates), helper functions that receive the
// builder are spliced in as sub-automata (so loops and branches that were moved into a helper
// are seen exactly as if they were still in place), and the outcome of an error-returning
// helper is correlated with the `if err != nil` that follows its call. A rule then states the
// shape of the output as a regular expression over templates and asks for language inclusion.
// What the abstraction cannot see — which operands are printed, whether a line inside a loop
// is skipped under a condition, whether a loop is left early — is left to the site rules.

import (
	"fmt"
	"go/token"
	"sort"
	"strings"

	"golang.org/x/tools/go/ssa"
)

type gEdge struct {
	label string // "" = silent
	to    int
}

type gNFA struct {
	edges  [][]gEdge
	start  int
	accept map[int]bool
	// where each letter was seen (for reports)
	where map[string]string
	// functions spliced in, and the blocks of each that hold a letter or a spliced call
	funcs  map[*ssa.Function]bool
	blocks map[*ssa.BasicBlock]*ssa.Function
}

func (n *gNFA) newState() int {
	n.edges = append(n.edges, nil)
	return len(n.edges) - 1
}

func (n *gNFA) add(from int, label string, to int) {
	n.edges[from] = append(n.edges[from], gEdge{label, to})
}

type gCtx struct {
	call ssa.Instruction // the spliced error-returning call whose outcome is known
	err  bool
}

type gKey struct {
	b   *ssa.BasicBlock
	i   int
	ctx gCtx
}

// letterOf names the text written at a site.
func (c *Ctx) lettersOf(g *ssa.Function) map[ssa.Instruction][]string {
	out := map[ssa.Instruction][]string{}
	for _, ws := range c.sitesDepth(g, inlineDepth, map[*ssa.Function]bool{}) {
		if ws.method == "Return" {
			continue
		}
		l := ""
		switch {
		case ws.isFmt || ws.konst:
			l = ws.format
		default:
			l = "%s" // some text: the same symbol as a %s verb
			v := ws.arg
			if ex, ok := v.(*ssa.Extract); ok {
				v = ex.Tuple
			}
			if call, ok := v.(*ssa.Call); ok {
				if f := callee(call); f != nil && c.W.InRepo(f) {
					l = "\x00<" + f.Name() + ">"
				}
			}
		}
		out[ws.call] = append(out[ws.call], l)
	}
	return out
}

// outputNFA builds the automaton of fn's writes into builder (an Alloc of fn or a parameter).
func (c *Ctx) outputNFA(fn *ssa.Function, builder ssa.Value) *gNFA {
	n := &gNFA{accept: map[int]bool{}, where: map[string]string{}, funcs: map[*ssa.Function]bool{}, blocks: map[*ssa.BasicBlock]*ssa.Function{}}
	entry, ok, _ := c.spliceFunc(n, fn, builder, 0, map[*ssa.Function]bool{}, true)
	n.start = entry
	n.accept[ok] = true
	return n
}

// spliceFunc adds a copy of g's automaton; returns its entry state and the states reached by
// successful and by failing returns.
func (c *Ctx) spliceFunc(n *gNFA, g *ssa.Function, builder ssa.Value, depth int, stack map[*ssa.Function]bool, top bool) (entry, okExit, errExit int) {
	n.funcs[g] = true
	stack[g] = true
	defer delete(stack, g)
	letters := c.lettersOf(g)
	okExit, errExit = n.newState(), n.newState()
	states := map[gKey]int{}
	var stateOf func(k gKey) int
	var work []gKey
	stateOf = func(k gKey) int {
		if s, ok := states[k]; ok {
			return s
		}
		s := n.newState()
		states[k] = s
		work = append(work, k)
		return s
	}
	errIdxOf := func(f *ssa.Function) int {
		res := f.Signature.Results()
		if res.Len() > 0 && isErrorType(res.At(res.Len()-1).Type()) {
			return res.Len() - 1
		}
		return -1
	}
	entry = stateOf(gKey{g.Blocks[0], 0, gCtx{}})
	for len(work) > 0 {
		k := work[len(work)-1]
		work = work[:len(work)-1]
		s := states[k]
		if k.i >= len(k.b.Instrs) {
			continue
		}
		in := k.b.Instrs[k.i]
		next := func(ctx gCtx) int { return stateOf(gKey{k.b, k.i + 1, ctx}) }
		switch x := in.(type) {
		case *ssa.If:
			errV, trueMeansErr, isTest := isErrNilTest(x.Cond)
			known := false
			if isTest && k.ctx.call != nil {
				var call ssa.Value
				switch e := errV.(type) {
				case *ssa.Extract:
					call = e.Tuple
				case *ssa.Call:
					call = e
				}
				if call != nil && call.(ssa.Instruction) == k.ctx.call {
					known = true
					takeTrue := k.ctx.err == trueMeansErr
					succ := k.b.Succs[1]
					if takeTrue {
						succ = k.b.Succs[0]
					}
					n.add(s, "", stateOf(gKey{succ, 0, gCtx{}}))
				}
			}
			if !known {
				for _, succ := range k.b.Succs {
					n.add(s, "", stateOf(gKey{succ, 0, gCtx{}}))
				}
			}
		case *ssa.Jump:
			n.add(s, "", stateOf(gKey{k.b.Succs[0], 0, gCtx{}}))
		case *ssa.Return:
			switch {
			case c.isSuccessRet(g, x):
				n.add(s, "", okExit)
			case !c.mayBeSuccessRet(g, x):
				n.add(s, "", errExit)
			default:
				n.add(s, "", okExit)
				n.add(s, "", errExit)
			}
		case *ssa.Panic:
			// dead end
		case ssa.CallInstruction:
			cm := x.Common()
			// a write into the tracked builder
			if ls, isSite := letters[in]; isSite && len(cm.Args) > 0 && cm.Args[0] == builder {
				for _, l := range ls {
					n.add(s, l, next(k.ctx))
					if _, seen := n.where[l]; !seen {
						n.where[l] = c.W.Pos(in.Pos())
					}
				}
				n.blocks[k.b] = g
				break
			}
			// a helper that receives the tracked builder
			h := callee(x)
			pk := -1
			for i, a := range cm.Args {
				if a == builder && isBuilderPtr(a.Type()) {
					pk = i
				}
			}
			if h != nil && pk >= 0 && c.W.InRepo(h) && len(h.Blocks) > 0 && !stack[h] && depth < 4 && pk < len(h.Params) {
				e2, ok2, err2 := c.spliceFunc(n, h, h.Params[pk], depth+1, stack, false)
				n.add(s, "", e2)
				n.blocks[k.b] = g
				if errIdxOf(h) >= 0 {
					n.add(ok2, "", next(gCtx{call: in, err: false}))
					n.add(err2, "", next(gCtx{call: in, err: true}))
				} else {
					n.add(ok2, "", next(gCtx{}))
					n.add(err2, "", next(gCtx{}))
				}
				break
			}
			if nm := calleeName(x); pk == 0 && (nm == "(*strings.Builder).String" || nm == "(*strings.Builder).Len" || nm == "(*strings.Builder).Grow" || nm == "(*strings.Builder).Cap") {
				n.add(s, "", next(k.ctx)) // reads of the builder
				break
			}
			if h != nil && pk >= 0 {
				// the builder goes somewhere the analysis does not follow
				n.add(s, "\x00<opaque:"+h.Name()+">", next(k.ctx))
				break
			}
			n.add(s, "", next(k.ctx))
		default:
			n.add(s, "", next(k.ctx))
		}
	}
	_ = top
	return entry, okExit, errExit
}

// ---- expected shapes ---------------------------------------------------------------------

type gExpr struct {
	kind string // lit, seq, alt, star, opt
	lit  string
	subs []*gExpr
}

func gLit(l string) *gExpr     { return &gExpr{kind: "lit", lit: l} }
func gAtom(name string) *gExpr { return &gExpr{kind: "lit", lit: "\x00<" + name + ">"} }
func gSeq(xs ...*gExpr) *gExpr { return &gExpr{kind: "seq", subs: xs} }
func gAlt(xs ...*gExpr) *gExpr { return &gExpr{kind: "alt", subs: xs} }
func gStar(x *gExpr) *gExpr    { return &gExpr{kind: "star", subs: []*gExpr{x}} }
func gOpt(x *gExpr) *gExpr     { return &gExpr{kind: "opt", subs: []*gExpr{x}} }
func (e *gExpr) String() string {
	switch e.kind {
	case "lit":
		return fmt.Sprintf("%q", e.lit)
	case "seq":
		var p []string
		for _, s := range e.subs {
			p = append(p, s.String())
		}
		return strings.Join(p, " ")
	case "alt":
		var p []string
		for _, s := range e.subs {
			p = append(p, s.String())
		}
		return "(" + strings.Join(p, " | ") + ")"
	case "star":
		return "(" + e.subs[0].String() + ")*"
	default:
		return "(" + e.subs[0].String() + ")?"
	}
}

func (e *gExpr) build(n *gNFA) (int, int) {
	s, t := n.newState(), n.newState()
	switch e.kind {
	case "lit":
		n.add(s, e.lit, t)
	case "seq":
		cur := s
		for _, x := range e.subs {
			a, b := x.build(n)
			n.add(cur, "", a)
			cur = b
		}
		n.add(cur, "", t)
	case "alt":
		for _, x := range e.subs {
			a, b := x.build(n)
			n.add(s, "", a)
			n.add(b, "", t)
		}
	case "star":
		a, b := e.subs[0].build(n)
		n.add(s, "", a)
		n.add(b, "", a)
		n.add(s, "", t)
		n.add(b, "", t)
	case "opt":
		a, b := e.subs[0].build(n)
		n.add(s, "", a)
		n.add(b, "", t)
		n.add(s, "", t)
	}
	return s, t
}

func (n *gNFA) closure(set map[int]bool) map[int]bool {
	stack := make([]int, 0, len(set))
	for s := range set {
		stack = append(stack, s)
	}
	for len(stack) > 0 {
		s := stack[len(stack)-1]
		stack = stack[:len(stack)-1]
		for _, e := range n.edges[s] {
			if e.label == "" && !set[e.to] {
				set[e.to] = true
				stack = append(stack, e.to)
			}
		}
	}
	return set
}

func setKey(set map[int]bool) string {
	ks := make([]int, 0, len(set))
	for s := range set {
		ks = append(ks, s)
	}
	sort.Ints(ks)
	return fmt.Sprint(ks)
}

// symbolsOf splits a template into its symbols: characters and formatting verbs; an atomic
// letter (the text produced by a named function) is one symbol. Comparing at this level makes
// `write("\t%s\n")` and `write("\t"); write(x); write("\n")` the same text.
func symbolsOf(l string) []string {
	if strings.HasPrefix(l, "\x00") {
		return []string{l}
	}
	var out []string
	for i := 0; i < len(l); i++ {
		if l[i] == '%' && i+1 < len(l) {
			if l[i+1] == '%' {
				out = append(out, "%")
				i++
				continue
			}
			j := i + 1
			for j < len(l) && strings.ContainsRune("+-# 0123456789.", rune(l[j])) {
				j++
			}
			if j < len(l) {
				out = append(out, "%"+string(l[j]))
				i = j
				continue
			}
		}
		out = append(out, string(l[i]))
	}
	return out
}

// expanded: the same automaton over symbols.
func (n *gNFA) expanded() *gNFA {
	m := &gNFA{accept: n.accept, start: n.start}
	m.edges = make([][]gEdge, len(n.edges))
	for s, es := range n.edges {
		for _, e := range es {
			if e.label == "" {
				m.edges[s] = append(m.edges[s], e)
				continue
			}
			syms := symbolsOf(e.label)
			cur := s
			for i, sy := range syms {
				to := e.to
				if i < len(syms)-1 {
					to = m.newState()
				}
				m.edges[cur] = append(m.edges[cur], gEdge{sy, to})
				cur = to
			}
			if len(syms) == 0 {
				m.edges[s] = append(m.edges[s], gEdge{"", e.to})
			}
		}
	}
	return m
}

// includedIn decides L(n) ⊆ L(want); when not, a shortest word of L(n) outside L(want).
func (n *gNFA) includedIn(want *gExpr) (bool, []string) {
	w := &gNFA{accept: map[int]bool{}}
	ws, wt := want.build(w)
	w.accept[wt] = true
	w.start = ws
	w = w.expanded()
	n = n.expanded()
	type node struct {
		a    int
		bkey string
	}
	type item struct {
		a      int
		b      map[int]bool
		parent int
		letter string
	}
	start := w.closure(map[int]bool{ws: true})
	items := []item{{a: n.start, b: start, parent: -1}}
	seen := map[node]bool{{n.start, setKey(start)}: true}
	word := func(i int) []string {
		var sb strings.Builder
		var syms []string
		for ; i >= 0; i = items[i].parent {
			if items[i].letter != "" {
				syms = append([]string{items[i].letter}, syms...)
			}
		}
		for _, sy := range syms {
			sb.WriteString(strings.TrimPrefix(sy, "\x00"))
		}
		return []string{sb.String()}
	}
	for qi := 0; qi < len(items); qi++ {
		it := items[qi]
		if n.accept[it.a] {
			okB := false
			for s := range it.b {
				if w.accept[s] {
					okB = true
				}
			}
			if !okB {
				return false, word(qi)
			}
		}
		for _, e := range n.edges[it.a] {
			nb := it.b
			if e.label != "" {
				moved := map[int]bool{}
				for s := range it.b {
					for _, we := range w.edges[s] {
						if we.label == e.label {
							moved[we.to] = true
						}
					}
				}
				nb = w.closure(moved)
			}
			nd := node{e.to, setKey(nb)}
			if seen[nd] {
				continue
			}
			seen[nd] = true
			items = append(items, item{a: e.to, b: nb, parent: qi, letter: e.label})
		}
		if len(items) > 200000 {
			return false, []string{"<state space too large>"}
		}
	}
	return true, nil
}

// reaches: some accepted word contains the letter.
func (n *gNFA) hasLetter(l string) bool {
	for _, es := range n.edges {
		for _, e := range es {
			if e.label == l {
				return true
			}
		}
	}
	return false
}

// gMark: an optional line marker; gName: a global or local label line.
func gMark() *gExpr { return gOpt(gLit("# %d \"%s\"\n")) }
func gName() *gExpr { return gAlt(gLit("%s::\n"), gLit("%s:\n")) }

// checkShape: everything fn can write into the builder it returns is of the shape want.
func (c *Ctx) checkShape(fn *ssa.Function, key string, want *gExpr, what string) {
	pos := c.W.FuncPos(fn)
	sbv := returnedBuilder(fn)
	if sbv == nil {
		c.Bad(key, pos, "cannot find the builder whose text "+fn.Name()+" returns")
		return
	}
	ok, word := c.outputNFA(fn, sbv).includedIn(want)
	c.Check(ok, key, pos, what, fmt.Sprintf("%s can write %q, which is not of the shape %s", fn.Name(), strings.Join(word, ""), want.String()))
}

// symbols lists the distinct symbols on the automaton's edges.
func (n *gNFA) symbols() []string {
	seen := map[string]bool{}
	for _, es := range n.expanded().edges {
		for _, e := range es {
			if e.label != "" {
				seen[e.label] = true
			}
		}
	}
	var out []string
	for s := range seen {
		out = append(out, s)
	}
	sort.Strings(out)
	return out
}

var _ = token.NoPos
