package main

import (
	"fmt"
	"go/types"
	"sort"
	"strings"

	"golang.org/x/tools/go/ssa"
)

func init() {
	register(&Rule{ID: "C10.g", Doc: "the syntax tree is written only where it is built: a node's fields are stored by the function that makes the node, apart from the reviewed finishing touches each of which has its own rule", Floor: 12, Run: c10g})
}

// c10gTouches: the stores into nodes that somebody else made — each one read, and named with the
// rule that decides what may be stored there.
var c10gTouches = map[string]string{
	"parseBooleanExpression/OperatorExpression.Operator": "the operator of a negated leaf is replaced by its negation: C02.h decides under which guard and with which value",
}

// madeByCaller: the node is a parameter, and every caller hands in a node it has just made itself
// (the helper finishes the caller's node: the caller's unit is the maker).
func madeByCaller(c *Ctx, fn *ssa.Function, v ssa.Value, depth int) bool {
	par, ok := v.(*ssa.Parameter)
	if !ok || depth > 3 {
		return false
	}
	idx := -1
	for i, p := range fn.Params {
		if p == par {
			idx = i
		}
	}
	if idx < 0 {
		return false
	}
	n := 0
	for _, caller := range c.W.Funcs {
		if isTestFunc(c.W, caller) {
			continue
		}
		for _, ci := range callsIn(caller) {
			if callee(ci) != fn || idx >= len(ci.Common().Args) {
				continue
			}
			n++
			a := ci.Common().Args[idx]
			if _, own := a.(*ssa.Alloc); own {
				continue
			}
			if !madeByCaller(c, caller, a, depth+1) {
				return false
			}
		}
		// the function used as a value could be called with anything
		for _, b := range caller.Blocks {
			for _, in := range b.Instrs {
				var ops []*ssa.Value
				for _, op := range in.Operands(ops) {
					if *op == ssa.Value(fn) {
						if ci, isCall := in.(ssa.CallInstruction); !isCall || ci.Common().Value != ssa.Value(fn) {
							return false
						}
					}
				}
			}
		}
	}
	return n > 0
}

func c10g(c *Ctx) {
	type site struct {
		fn    *ssa.Function
		st    *ssa.Store
		field string
	}
	var foreign []site
	nOwn := 0
	// (every package of the repository: a method on a node in package ast rewrites the tree just
	// as well as a function of the parser)
	for _, pkg := range []string{"*"} {
		_ = pkg
		for _, fn := range c.W.Funcs {
			if isTestFunc(c.W, fn) || len(fn.Blocks) == 0 {
				continue
			}
			instrs(fn, func(in ssa.Instruction) {
				st, ok := in.(*ssa.Store)
				if !ok {
					return
				}
				fa, ok := st.Addr.(*ssa.FieldAddr)
				if !ok {
					// a whole node written over (`*leaf = ast.OperatorExpression{…}`)
					if pt, isP := st.Addr.Type().Underlying().(*types.Pointer); isP {
						if n, isN := pt.Elem().(*types.Named); isN && n.Obj().Pkg() != nil && strings.HasSuffix(n.Obj().Pkg().Path(), "/ast") {
							if _, isStruct := n.Underlying().(*types.Struct); isStruct {
								switch st.Addr.(type) {
								case *ssa.Alloc:
								default:
									if _, local := rootValue(st.Addr).(*ssa.Alloc); !local {
										foreign = append(foreign, site{fn, st, n.Obj().Name() + ".*"})
									}
								}
							}
						}
					}
					return
				}
				pt, ok := fa.X.Type().Underlying().(*types.Pointer)
				if !ok {
					return
				}
				n, ok := pt.Elem().(*types.Named)
				if !ok || n.Obj().Pkg() == nil || !strings.HasSuffix(n.Obj().Pkg().Path(), "/ast") {
					return
				}
				if _, own := fa.X.(*ssa.Alloc); own {
					nOwn++
					return
				}
				if madeByCaller(c, fn, fa.X, 0) {
					nOwn++
					return
				}
				// made for this function by a constructor: a helper all of whose results are nodes
				// it has just allocated (`block := newEmptyBlock(tok)`)
				if call, isCall := fa.X.(*ssa.Call); isCall {
					if g := callee(call); g != nil && c.W.InRepo(g) && len(g.Blocks) > 0 && g.Signature.Results().Len() == 1 {
						fresh := true
						for _, r := range returnsOf(g) {
							if _, own := r.Results[0].(*ssa.Alloc); !own {
								fresh = false
							}
						}
						if fresh {
							nOwn++
							return
						}
					}
				}
				foreign = append(foreign, site{fn, st, n.Obj().Name() + "." + fieldName(fa.X.Type(), fa.Field)})
			})
		}
	}
	sort.Slice(foreign, func(i, j int) bool { return foreign[i].st.Pos() < foreign[j].st.Pos() })
	seen := map[string]int{}
	for _, s := range foreign {
		k := s.fn.Name() + "/" + s.field
		seen[k]++
		why, ok := c10gTouches[k]
		c.Check(ok, fmt.Sprintf("written-by-its-maker/%s#%d", k, seen[k]), c.W.Pos(s.st.Pos()), "a reviewed finishing touch ("+why+")", s.fn.Name()+" stores "+pretty(c.term(s.fn, s.st.Val))+" into "+s.field+" of a node it did not make ("+pretty(c.term(s.fn, s.st.Addr))+"): the tree is rewritten after it was parsed, so what is emitted is no longer what was written")
	}
	// what is stored into a node is what was parsed: a sub-tree (pointer or interface to a node)
	// put into a field is a node made here, the result of a parser function that consumes tokens,
	// a value handed in, or what a constructor made — never the result of a helper that only
	// reads its argument and hands back "a better version" of it (merged, normalised, emptied)
	nSub := 0
	for _, fn := range c.W.FuncsOf("parser") {
		if isTestFunc(c.W, fn) || len(fn.Blocks) == 0 {
			continue
		}
		k := 0
		instrs(fn, func(in ssa.Instruction) {
			st, ok := in.(*ssa.Store)
			if !ok || !isASTType(st.Val.Type()) {
				return
			}
			if _, isSl := st.Val.Type().Underlying().(*types.Slice); isSl {
				return
			}
			fa, ok := st.Addr.(*ssa.FieldAddr)
			if !ok {
				return
			}
			if n := namedOf(deref(fa.X.Type())); n == nil || n.Obj().Pkg() == nil || !strings.HasSuffix(n.Obj().Pkg().Path(), "/ast") {
				return
			}
			nSub++
			var leaves []ssa.Value
			phiLeaves(st.Val, map[ssa.Value]bool{}, &leaves)
			for _, lf := range leaves {
				v := lf
				if mi, isMI := v.(*ssa.MakeInterface); isMI {
					v = mi.X
				}
				if ex, isEx := v.(*ssa.Extract); isEx {
					v = ex.Tuple
				}
				call, isCall := v.(*ssa.Call)
				if !isCall {
					continue
				}
				g := callee(call)
				if g == nil || !c.W.InRepo(g) || len(g.Blocks) == 0 || c.T(fn).purity(g) < purReadOnly {
					continue // a parser function (consumes tokens)
				}
				// a constructor: every result is a node it has just made
				ctor := true
				for _, r := range returnsOf(g) {
					rv := r.Results[0]
					if mi, isMI := rv.(*ssa.MakeInterface); isMI {
						rv = mi.X
					}
					if _, own := rv.(*ssa.Alloc); !own {
						ctor = false
					}
				}
				if ctor {
					continue
				}
				// (it reworks something only if it is handed a piece of the tree)
				takesTree := false
				for _, a := range call.Call.Args {
					if isASTType(a.Type()) {
						takesTree = true
					}
				}
				if !takesTree {
					continue
				}
				k++
				c.Bad(fmt.Sprintf("sub-tree-is-what-was-parsed/%s/%s#%d", fn.Name(), fieldName(fa.X.Type(), fa.Field), k), c.W.Pos(st.Pos()), fn.Name()+" stores the result of "+g.Name()+" — a helper that consumes no tokens and does not simply build a new node — into "+fieldName(fa.X.Type(), fa.Field)+": the sub-tree that was parsed is replaced by a reworked one")
			}
		})
	}
	c.Check(nSub >= 20, "sub-tree-is-what-was-parsed/census", "-", fmt.Sprintf("%d stores of sub-trees into nodes", nSub), fmt.Sprintf("only %d stores of sub-trees into nodes found", nSub))
	// the lists a node holds (statements, cases, entries, arguments, items ...) are only ever set
	// to: the empty list; themselves with something appended; a list gathered in a local of the
	// function; or the list a parser function (one that consumes tokens) returned. Nothing
	// replaces a list by a reworked version of it.
	nLists := 0
	for _, fn := range c.W.FuncsOf("parser") {
		if isTestFunc(c.W, fn) || len(fn.Blocks) == 0 {
			continue
		}
		k := map[string]int{}
		instrs(fn, func(in ssa.Instruction) {
			st, ok := in.(*ssa.Store)
			if !ok {
				return
			}
			fa, ok := st.Addr.(*ssa.FieldAddr)
			if !ok {
				return
			}
			pt, ok := fa.X.Type().Underlying().(*types.Pointer)
			if !ok {
				return
			}
			n, ok := pt.Elem().(*types.Named)
			if !ok || n.Obj().Pkg() == nil || !strings.HasSuffix(n.Obj().Pkg().Path(), "/ast") {
				return
			}
			if _, isSl := st.Val.Type().Underlying().(*types.Slice); !isSl {
				return
			}
			fld := n.Obj().Name() + "." + fieldName(fa.X.Type(), fa.Field)
			nLists++
			k[fld]++
			okV := c10gListOK(c, fn, fa, st.Val, 0)
			c.Check(okV, fmt.Sprintf("node-lists-only-grow/%s/%s#%d", fn.Name(), fld, k[fld]), c.W.Pos(st.Pos()), fld+" is set to the empty list, to itself extended, to a list gathered here or to what a parser returned", fn.Name()+" sets "+fld+" to "+pretty(c.term(fn, st.Val))+": a node's list is replaced by a reworked one, so entries that were written can be missing, moved or doubled")
		})
	}
	c.Check(nLists >= 15, "node-lists-only-grow/census", "-", fmt.Sprintf("%d stores into list fields of nodes", nLists), fmt.Sprintf("only %d stores into list fields of nodes found", nLists))
	c.Check(nOwn >= 40, "written-by-its-maker/census", "-", fmt.Sprintf("%d stores into nodes by the function that makes them, %d reviewed finishing touches", nOwn, len(foreign)), fmt.Sprintf("only %d stores into syntax tree nodes found", nOwn))
}

// c10gListOK: the value is something a node's list may be set to — the empty list, the field
// itself extended, a list gathered in a local of the function, what a token-consuming parser
// returned, the list of a hoisting record; or a parameter, when every caller hands in such a value.
func c10gListOK(c *Ctx, fn *ssa.Function, fa *ssa.FieldAddr, val ssa.Value, depth int) bool {
	okV := emptyListValue(val) || localSlice(val, map[ssa.Value]bool{})
	if call, isCall := val.(*ssa.Call); isCall && !okV && calleeName(call) == "builtin:append" {
		// the field itself, extended
		base := call.Call.Args[0]
		for {
			inner, isApp := base.(*ssa.Call)
			if !isApp || calleeName(inner) != "builtin:append" {
				break
			}
			base = inner.Call.Args[0]
		}
		if ld, isLd := base.(*ssa.UnOp); isLd {
			if fa0, isFA := ld.X.(*ssa.FieldAddr); isFA && fa != nil && fa0.Field == fa.Field && (fa0.X == fa.X || c.term(fn, fa0.X) == c.term(fn, fa.X)) {
				okV = true
			}
		}
	}
	if !okV {
		var leaves []ssa.Value
		phiLeaves(val, map[ssa.Value]bool{}, &leaves)
		okV = len(leaves) > 0
		for _, lf := range leaves {
			var call *ssa.Call
			switch x := lf.(type) {
			case *ssa.Extract:
				if x.Index == 0 {
					call, _ = x.Tuple.(*ssa.Call)
				}
			case *ssa.Call:
				call = x
			}
			var g *ssa.Function
			if call != nil {
				g = callee(call)
			}
			// the list a hoisting record carries (C06.a: it is the list that was parsed)
			if ld, isLd := lf.(*ssa.UnOp); isLd {
				if _, t, _, okF := fieldAddrOf(ld.X); okF && (typeIs(t, "parser", "impMovement") || typeIs(t, "parser", "impText")) {
					continue
				}
			}
			if call == nil || g == nil || !c.W.InRepo(g) || c.W.PkgShort(g) != "parser" || c.T(fn).purity(g) >= purReadOnly {
				if !emptyListValue(lf) {
					okV = false
				}
			}
		}
	}
	if !okV && depth < 2 {
		if par, isPar := val.(*ssa.Parameter); isPar {
			idx := -1
			for k, p := range fn.Params {
				if p == par {
					idx = k
				}
			}
			calls := c.W.callsTo(fn)
			okV = idx >= 0 && len(calls) > 0
			for _, ci := range calls {
				if isTestFunc(c.W, ci.Parent()) {
					continue
				}
				if idx >= len(ci.Common().Args) || !c10gListOK(c, ci.Parent(), nil, ci.Common().Args[idx], depth+1) {
					okV = false
				}
			}
		}
	}
	return okV
}
