package main

import (
	"fmt"
	"go/types"

	"golang.org/x/tools/go/ssa"
)

func init() {
	register(&Rule{ID: "C17.g", Doc: "the font table is read-only once loaded: no function stores into a FontConfig / Fonts it did not create itself, or updates one of their maps", Floor: 1, Run: c17g})
}

// c17g: format() parameters of one text must not influence the layout of another, and what an
// unselected poryswitch case contains must not influence anything. The parser shares one
// *FontConfig among all texts of a compilation (p.fonts); writes through that pointer are not
// writes to a Parser field, so the effect tables of C17.d / C12.c do not list them. The rule:
// a store whose address lies inside a FontConfig or Fonts value, or an update of a map reached
// from one, is allowed only when the value is a local of the storing function (a composite
// literal under construction, the decode target in LoadFontConfig).
func c17g(c *Ctx) {
	isFontType := func(t types.Type) bool {
		return typeIs(t, "parser", "FontConfig") || typeIs(t, "parser", "Fonts")
	}
	// insideFont: the address (or map value) is reached through a FontConfig / Fonts value that is
	// not a local allocation of fn
	var insideFont func(v ssa.Value, depth int) (bool, bool) // (inside a font value, rooted at a local)
	insideFont = func(v ssa.Value, depth int) (bool, bool) {
		if depth > 8 {
			return false, false
		}
		switch x := v.(type) {
		case *ssa.FieldAddr:
			in, local := insideFont(x.X, depth+1)
			if isFontType(deref(x.X.Type())) {
				_, isAlloc := x.X.(*ssa.Alloc)
				return true, isAlloc || (in && local)
			}
			return in, local
		case *ssa.Field:
			in, local := insideFont(x.X, depth+1)
			if isFontType(x.X.Type()) {
				return true, in && local
			}
			return in, local
		case *ssa.IndexAddr:
			return insideFont(x.X, depth+1)
		case *ssa.UnOp:
			return insideFont(x.X, depth+1)
		case *ssa.Lookup:
			return insideFont(x.X, depth+1)
		case *ssa.Extract:
			return insideFont(x.Tuple, depth+1)
		case *ssa.Alloc:
			return isFontType(deref(x.Type())), true
		}
		return false, false
	}
	n, nBad := 0, 0
	for _, fn := range c.W.Funcs {
		if isTestFunc(c.W, fn) {
			continue
		}
		fk := c.W.FuncKey(fn)
		instrs(fn, func(in ssa.Instruction) {
			var target ssa.Value
			what := ""
			isMapOp := false
			switch x := in.(type) {
			case *ssa.Store:
				target, what = x.Addr, "stores into"
			case *ssa.MapUpdate:
				target, what, isMapOp = x.Map, "updates a map of", true
			case ssa.CallInstruction:
				if calleeName(x) != "builtin:delete" {
					return
				}
				target, what, isMapOp = x.Common().Args[0], "deletes from a map of", true
			default:
				return
			}
			inside, local := insideFont(target, 0)
			if !inside {
				return
			}
			n++
			// a local under construction may have its fields set; the maps inside a table that was
			// decoded from the file are the file's content and are not edited afterwards, local or not
			if local && !isMapOp {
				return
			}
			if local && isMapOp {
				if _, made := target.(*ssa.MakeMap); made {
					return
				}
			}
			nBad++
			c.Bad(fk+"/writes-font-table["+pretty(c.term(fn, target))+"]", c.W.Pos(in.Pos()), fn.Name()+" "+what+" the shared font table ("+pretty(c.term(fn, target))+"): one text's format() parameters — or the content of a poryswitch case that is not selected — would change how later texts are laid out")
		})
	}
	// what was decoded is what is used: after json.Unmarshal has filled a configuration value, the
	// function that decodes it stores nothing more into it (no entry filtered, no table replaced by
	// a "completed" copy made in place)
	nDec := 0
	for _, fn := range c.W.Funcs {
		if isTestFunc(c.W, fn) || len(fn.Blocks) == 0 {
			continue
		}
		for _, ci := range callsIn(fn) {
			if calleeName(ci) != "encoding/json.Unmarshal" || len(ci.Common().Args) != 2 {
				continue
			}
			tgt := ci.Common().Args[1]
			if mi, ok := tgt.(*ssa.MakeInterface); ok {
				tgt = mi.X
			}
			a, ok := tgt.(*ssa.Alloc)
			if !ok {
				continue
			}
			nDec++
			k := 0
			instrs(fn, func(in ssa.Instruction) {
				st, isSt := in.(*ssa.Store)
				if !isSt || rootValue(st.Addr) != ssa.Value(a) || st.Addr == ssa.Value(a) {
					return
				}
				if _, found := existsPath(pathQuery{from: after(ci.(ssa.Instruction)), target: func(x ssa.Instruction) bool { return x == ssa.Instruction(st) }}); found {
					k++
					c.Bad(fmt.Sprintf("%s/decoded-value-edited#%d", c.W.FuncKey(fn), k), c.W.Pos(st.Pos()), fn.Name()+" stores "+pretty(c.term(fn, st.Val))+" into the value it has just decoded ("+pretty(c.term(fn, st.Addr))+"): the configuration in use is no longer what the file says")
				}
			})
		}
	}
	c.Check(nDec >= 1, "decoded-values", "-", fmt.Sprintf("%d decoded configuration values followed", nDec), "no json.Unmarshal into a local configuration value found")
	c.Check(nBad == 0, "font-table/read-only", "-", fmt.Sprintf("%d writes into FontConfig / Fonts values, all into locals under construction", n), "the shared font table is written while parsing")
}
