package main

import (
	"fmt"
	"go/token"
	"strings"

	"golang.org/x/tools/go/ssa"
)

func init() {
	register(&Rule{ID: "C18.k", Doc: "allocation sizes are bounded by the input: a make / strings.Repeat size is constant, the length of something that exists, or a number that was compared against an upper limit before", Floor: 6, Run: c18k})
}

// c18k: 'never grows without bound'. A size operand of make([]T, n, m), make(map, n) or
// strings.Repeat(s, n) is (a) a constant, (b) built from len()/cap() of existing values and
// constants with + - *, or (c) a value for which the block of the allocation is only reached
// after a comparison against a constant upper limit failed (must-literal `-(K < v)`, `+(v <= K)`,
// `+(v < K)`) — a number read from the source ('step * 999999999999') must not size an
// allocation before its range check.
func c18k(c *Ctx) {
	n := 0
	for _, fn := range libraryFuncs(c) {
		fk := c.W.FuncKey(fn)
		var sizeOK func(v ssa.Value, at *ssa.BasicBlock, depth int) string
		sizeOK = func(v ssa.Value, at *ssa.BasicBlock, depth int) string {
			if depth > 6 {
				return "too deep"
			}
			switch x := v.(type) {
			case *ssa.Const:
				return ""
			case *ssa.Call:
				if nm := calleeName(x); nm == "builtin:len" || nm == "builtin:cap" {
					return ""
				}
			case *ssa.BinOp:
				switch x.Op {
				case token.SUB:
					// a difference can be negative (make panics): only "minus a constant" of something
					// known to be at least that large would do, and nothing here needs it
					return "a difference (" + pretty(c.term(fn, x)) + ") can be negative"
				case token.ADD, token.MUL:
					if w := sizeOK(x.X, at, depth+1); w != "" {
						return w
					}
					return sizeOK(x.Y, at, depth+1)
				}
			case *ssa.Convert:
				return sizeOK(x.X, at, depth+1)
			case *ssa.ChangeType:
				return sizeOK(x.X, at, depth+1)
			}
			// bounded from above on every way here?
			t := c.term(fn, v)
			bare := t
			if cv, ok := v.(*ssa.Convert); ok {
				bare = c.term(fn, cv.X)
			}
			for _, l := range c.mustLits(fn, at) {
				for _, tt := range []string{t, bare} {
					if strings.HasPrefix(l, "-(") && strings.HasSuffix(l, " < "+tt+")") {
						return ""
					}
					if strings.HasPrefix(l, "+("+tt+" < ") || strings.HasPrefix(l, "+("+tt+" <= ") {
						return ""
					}
				}
			}
			return pretty(t) + " has no upper limit here"
		}
		ord := 0
		instrs(fn, func(in ssa.Instruction) {
			var sizes []ssa.Value
			what := ""
			switch x := in.(type) {
			case *ssa.MakeSlice:
				sizes, what = []ssa.Value{x.Len, x.Cap}, "make of a slice"
			case *ssa.MakeMap:
				if x.Reserve != nil {
					sizes, what = []ssa.Value{x.Reserve}, "make of a map"
				}
			case *ssa.Call:
				switch calleeName(x) {
				case "strings.Repeat", "bytes.Repeat":
					sizes, what = []ssa.Value{x.Call.Args[1]}, calleeName(x)
				case "(*strings.Builder).Grow", "(*bytes.Buffer).Grow":
					sizes, what = []ssa.Value{x.Call.Args[1]}, calleeName(x)
				}
			}
			if what == "" {
				return
			}
			n++
			ord++
			why := ""
			for _, s := range sizes {
				if w := sizeOK(s, in.Block(), 0); w != "" {
					why = w
				}
			}
			c.Check(why == "", fmt.Sprintf("%s/alloc-size#%d", fk, ord), c.W.Pos(in.Pos()), "size is constant, a length of existing data, or range-checked before", "the size of this "+what+" is not bounded: "+why+" (a number written in the source could make the compiler allocate without bound before it is rejected)")
		})
	}
	c.Check(n >= 2, "alloc-sizes/scanned", "-", fmt.Sprintf("%d sized allocations examined", n), fmt.Sprintf("expected at least 2 sized allocations, found %d", n))
}
